//! Sequential part of C18: all operation sequences up to a length, on the real crate.

use super::{Findings, REFRESH_PROTOCOL, RefreshToken, key};
use mc_core::{Ctx, Report, catch, hash64, par_map};
use mithril_common::StdResult;
use mithril_resource_pool::{Reset, ResourcePool, ResourcePoolError, ResourcePoolItem};
use serde::{Deserialize, Serialize};
use serde_json::{Value, json};
use std::collections::{BTreeMap, HashSet};
use std::time::Duration;

/// A pooled resource as the harness sees it: identity, the generation it was born in (stamped by
/// the harness, never derived from the pool's labels) and whether it was used since its last reset.
#[derive(Debug, Clone, PartialEq, Eq)]
pub struct Res {
    pub id: u32,
    pub born: u64,
    pub dirty: bool,
}

impl Reset for Res {
    fn reset(&mut self) -> StdResult<()> {
        self.dirty = false;
        Ok(())
    }
}

const MAX_HELD: usize = 3;
/// sequentially nobody can give a resource back while we wait: an empty pool must time out
const TIMEOUT: Duration = Duration::ZERO;

#[derive(Clone, Copy, Debug, PartialEq, Eq, Hash, Serialize, Deserialize)]
pub enum Op {
    /// `acquire_resource`; the item is kept by a user
    Acquire,
    /// `give_back_resource_pool_item(item)` of the k-th held item
    GiveItem(u8),
    /// `drop(item)` of the k-th held item
    DropItem(u8),
    /// `give_back_resource(resource, item.discriminant())` of the k-th held item
    GiveExplicit(u8),
    /// the next pool call of `compute_cache` (new generation | clear | one refill give-back)
    RefreshStep,
    /// a third party hands over a brand-new resource of the generation in force under the pool's
    /// current discriminant (only between refreshes)
    ForeignGive,
    /// `reset_available_resources`
    Reset,
}

pub fn alphabet() -> Vec<Op> {
    let mut a = vec![Op::Acquire];
    for k in 0..MAX_HELD as u8 {
        a.push(Op::GiveItem(k));
        a.push(Op::DropItem(k));
        a.push(Op::GiveExplicit(k));
    }
    a.extend([Op::RefreshStep, Op::ForeignGive, Op::Reset]);
    a
}

#[derive(Clone, Copy, Debug, PartialEq, Eq, Hash, Serialize, Deserialize)]
pub struct Config {
    pub size: usize,
    /// pool created holding `size` resources of generation 0 (else empty, as the prover creates it)
    pub init_full: bool,
}

struct Held<'a> {
    item: ResourcePoolItem<'a, Res>,
    id: u32,
    born: u64,
    label: u64,
    /// a refresher step happened between the acquire and now
    refresh_step_since: bool,
    /// acquired while a refresh was in progress
    acquired_in_refresh: bool,
}

#[derive(Default)]
pub struct Run {
    pub disabled: bool,
    pub violations: Vec<(String, String)>,
    pub nontrivial: bool,
    pub canon: u64,
    pub outcome: String,
    pub served_dirty: u64,
    /// what decides which events are enabled next (taken before the final drain)
    pub held: usize,
    pub in_refresh: bool,
}

/// is `op` enabled after a history that left `held` items with users / a refresh in progress?
pub fn enabled(op: Op, held: usize, in_refresh: bool) -> bool {
    match op {
        Op::Acquire => held < MAX_HELD,
        Op::GiveItem(k) | Op::DropItem(k) | Op::GiveExplicit(k) => (k as usize) < held,
        Op::ForeignGive => !in_refresh,
        Op::RefreshStep | Op::Reset => true,
    }
}

/// the expanded step list of one refresh for a pool of `size`
fn refresh_steps(size: usize) -> Vec<RefreshToken> {
    let mut v = vec![];
    for t in REFRESH_PROTOCOL {
        if t == RefreshToken::Refill {
            for _ in 0..size {
                v.push(t);
            }
        } else {
            v.push(t);
        }
    }
    v
}

struct World<'a> {
    cfg: Config,
    pool: &'a ResourcePool<Res>,
    held: Vec<Held<'a>>,
    // ---- reference: what should be in the pool, and the generations (harness-owned) ----
    avail: Vec<(u32, u64)>,
    started: u64,
    completed: u64,
    steps: Vec<RefreshToken>,
    pc: usize,
    d_new: u64,
    next_id: u32,
    relabelled: HashSet<u32>,
    /// resources that came back (any way) after a refresh superseding them had begun: a foreign
    /// label seen on them later is a consequence of that give-back, not a cause
    returned_superseded: HashSet<u32>,
    // ---- results ----
    violations: Vec<(String, String)>,
    nontrivial: bool,
    served_dirty: u64,
    flags: BTreeMap<&'static str, u64>,
}

impl<'a> World<'a> {
    fn violation(&mut self, key: &str, what: String) {
        self.violations.push((key.to_string(), what));
    }
    fn flag(&mut self, f: &'static str) {
        *self.flags.entry(f).or_insert(0) += 1;
    }
    fn count(&mut self, after: &str) -> usize {
        match self.pool.count() {
            Ok(n) => {
                if n > self.cfg.size {
                    self.violation(key::OVERFULL, format!("count() = {n} > size = {} after {after}", self.cfg.size));
                }
                n
            }
            Err(e) => {
                self.violation(key::API_ERROR, format!("count() failed after {after}: {e:#}"));
                0
            }
        }
    }
    fn stale_key(&self, id: u32) -> &'static str {
        if self.relabelled.contains(&id) { key::RELABELLED } else { key::STALE }
    }
    fn in_refresh(&self) -> bool {
        self.pc != 0
    }

    fn acquire(&mut self, whom: &str) -> Option<ResourcePoolItem<'a, Res>> {
        let before = self.count("(before acquire)");
        let completed_before = self.completed;
        match self.pool.acquire_resource(TIMEOUT) {
            Ok(mut item) => {
                let (id, born, label) = (item.id, item.born, item.discriminant());
                if item.dirty {
                    self.served_dirty += 1;
                }
                item.dirty = true; // the user works on it
                if let Some(p) = self.avail.iter().position(|(i, _)| *i == id) {
                    self.avail.remove(p);
                } else {
                    self.violation(
                        key::CONTENT,
                        format!("{whom} was served resource #{id} (born {born}) which the reference does not hold"),
                    );
                }
                if label != born && !self.returned_superseded.contains(&id) {
                    // classification only (generation == discriminant in this harness)
                    self.relabelled.insert(id);
                    self.flag("acquired_under_foreign_label");
                }
                if born < completed_before {
                    let k = self.stale_key(id);
                    self.violation(
                        k,
                        format!(
                            "{whom} acquired after the refresh to generation {completed_before} had completed and was served \
                             resource #{id} of generation {born} (item label {label})"
                        ),
                    );
                    self.flag("stale_served");
                } else if born < self.started {
                    self.flag("served_previous_generation_during_refresh");
                } else {
                    self.flag("served_current_generation");
                }
                let after = self.count("acquire");
                if after + 1 != before {
                    self.violation(key::CONTENT, format!("count went {before} -> {after} over a successful acquire"));
                }
                Some(item)
            }
            Err(e) => {
                if before > 0 || !self.avail.is_empty() {
                    self.violation(
                        key::ACQUIRE_FAILS,
                        format!("{whom}: acquire failed ({e:#}) although count() = {before} (reference holds {})", self.avail.len()),
                    );
                }
                match e.downcast_ref::<ResourcePoolError>() {
                    Some(ResourcePoolError::AcquireTimeout) => self.flag("acquire_timed_out"),
                    _ => self.flag("acquire_other_error"),
                }
                None
            }
        }
    }

    /// judge a give-back of resource (id, born) — by a user, the refresher or a third party.
    /// `must_admit_if_room`: the resource belongs to the generation in force beyond doubt (no
    /// refresher step between its acquisition and now / it is the refresher's own new resource)
    #[allow(clippy::too_many_arguments)]
    fn judge_give_back(&mut self, how: &str, id: u32, born: u64, label: u64, before: usize, res: StdResult<()>, must_admit_if_room: bool) {
        if let Err(e) = res {
            self.violation(key::API_ERROR, format!("{how} of #{id} failed: {e:#}"));
        }
        let after = self.count(how);
        let full = self.avail.len() >= self.cfg.size;
        let stale = born < self.completed;
        if born < self.started {
            self.returned_superseded.insert(id);
        }
        if after == before + 1 {
            self.avail.push((id, born));
            if stale {
                let k = self.stale_key(id);
                self.violation(
                    k,
                    format!(
                        "{how}: resource #{id} of generation {born}, handed out under label {label}, was re-admitted although the \
                         refresh to generation {} had completed (count {before} -> {after})",
                        self.completed
                    ),
                );
                self.flag("stale_readmitted");
            } else if full {
                // count() > size is reported by count(); nothing more to say
            } else {
                self.flag("readmitted");
            }
        } else if after == before {
            if stale {
                self.flag("stale_rejected");
            } else if full {
                self.flag("rejected_pool_full");
            } else if must_admit_if_room {
                self.violation(
                    key::DROPPED,
                    format!(
                        "{how}: resource #{id} of the generation in force ({born}), label {label}, was dropped although the pool \
                         held {before} < size = {} and no refresher step had happened since it was handed out",
                        self.cfg.size
                    ),
                );
            } else {
                self.flag("rejected_during_refresh");
            }
        } else {
            self.violation(key::CONTENT, format!("{how}: count went {before} -> {after}"));
        }
    }

    /// one pool call of the refresher (a `ReadNext` is glued to the call that follows it)
    fn refresh_step(&mut self) {
        if self.pc == 0 {
            self.started = self.completed + 1;
        }
        for h in self.held.iter_mut() {
            h.refresh_step_since = true;
        }
        loop {
            let tok = self.steps[self.pc];
            self.pc += 1;
            match tok {
                RefreshToken::ReadNext => {
                    match self.pool.discriminant() {
                        Ok(d) => self.d_new = d + 1,
                        Err(e) => self.violation(key::API_ERROR, format!("discriminant() failed: {e:#}")),
                    }
                    continue;
                }
                RefreshToken::SetDiscriminant => {
                    if let Err(e) = self.pool.set_discriminant(self.d_new) {
                        self.violation(key::API_ERROR, format!("set_discriminant failed: {e:#}"));
                    }
                    self.count("set_discriminant");
                }
                RefreshToken::Clear => {
                    self.pool.clear();
                    self.avail.clear();
                    let n = self.count("clear");
                    if n != 0 {
                        self.violation(key::CONTENT, format!("count() = {n} right after clear()"));
                    }
                }
                RefreshToken::Refill => {
                    let id = self.next_id;
                    self.next_id += 1;
                    let born = self.started;
                    let before = self.count("(before refill)");
                    let r = self.pool.give_back_resource(Res { id, born, dirty: false }, self.d_new);
                    // the refresher's own resource: dropping it is only acceptable when the pool is full
                    self.judge_give_back("refill give_back_resource", id, born, self.d_new, before, r, true);
                }
            }
            break;
        }
        if self.pc == self.steps.len() {
            self.pc = 0;
            self.completed = self.started;
        }
    }

    fn apply(&mut self, op: Op) -> bool {
        match op {
            Op::Acquire => {
                if self.held.len() >= MAX_HELD {
                    return false;
                }
                let in_refresh = self.in_refresh();
                if let Some(item) = self.acquire("a user") {
                    let (id, born, label) = (item.id, item.born, item.discriminant());
                    self.held.push(Held { item, id, born, label, refresh_step_since: false, acquired_in_refresh: in_refresh });
                }
            }
            Op::GiveItem(k) | Op::DropItem(k) | Op::GiveExplicit(k) => {
                let k = k as usize;
                if k >= self.held.len() {
                    return false;
                }
                let h = self.held.remove(k);
                if h.refresh_step_since {
                    self.nontrivial = true;
                }
                let before = self.count("(before give-back)");
                let (how, res) = match op {
                    Op::GiveItem(_) => ("give_back_resource_pool_item", self.pool.give_back_resource_pool_item(h.item)),
                    Op::DropItem(_) => {
                        drop(h.item);
                        ("drop(item)", Ok(()))
                    }
                    _ => {
                        // the resource leaves its item and is handed back with the item's own label
                        let mut item = h.item;
                        let label = item.discriminant();
                        let res = std::mem::replace(&mut *item, Res { id: u32::MAX, born: 0, dirty: false });
                        std::mem::forget(item); // the empty shell is not a resource
                        ("give_back_resource(resource, item.discriminant())", self.pool.give_back_resource(res, label))
                    }
                };
                let beyond_doubt = !h.acquired_in_refresh && !h.refresh_step_since && !self.in_refresh();
                self.judge_give_back(how, h.id, h.born, h.label, before, res, beyond_doubt);
            }
            Op::RefreshStep => self.refresh_step(),
            Op::ForeignGive => {
                if self.in_refresh() {
                    return false;
                }
                let id = self.next_id;
                self.next_id += 1;
                let born = self.completed;
                let before = self.count("(before third-party give-back)");
                let label = match self.pool.discriminant() {
                    Ok(d) => d,
                    Err(e) => {
                        self.violation(key::API_ERROR, format!("discriminant() failed: {e:#}"));
                        0
                    }
                };
                let r = self.pool.give_back_resource(Res { id, born, dirty: false }, label);
                self.judge_give_back("third-party give_back_resource(new, pool.discriminant())", id, born, label, before, r, true);
            }
            Op::Reset => {
                let before = self.count("(before reset)");
                if let Err(e) = self.pool.reset_available_resources() {
                    self.violation(key::API_ERROR, format!("reset_available_resources failed: {e:#}"));
                }
                let after = self.count("reset_available_resources");
                if before != after {
                    self.violation(key::CONTENT, format!("count went {before} -> {after} over reset_available_resources"));
                }
            }
        }
        true
    }

    fn canon(&self) -> u64 {
        let disc = self.pool.discriminant().unwrap_or(u64::MAX);
        let avail: Vec<u64> = self.avail.iter().map(|(_, b)| *b).collect();
        let held: Vec<(u64, u64)> = self.held.iter().map(|h| (h.born, h.label)).collect();
        hash64(&(self.cfg, avail, held, self.pc, self.started, self.completed, disc))
    }

    /// complete a refresh in progress, then hand out everything the pool holds
    fn finish_and_drain(&mut self) {
        while self.in_refresh() {
            self.refresh_step();
        }
        let mut drained = vec![];
        for _ in 0..(self.cfg.size + 4) {
            // (an empty pool is not asked: the time-out branch is exercised by the Acquire events,
            // and a timed futex wait costs ~50 µs here)
            if self.count("(drain)") == 0 {
                break;
            }
            match self.acquire("the final drain") {
                Some(item) => drained.push(item),
                None => break,
            }
        }
        if !self.avail.is_empty() {
            self.violation(
                key::CONTENT,
                format!("the pool is exhausted but the reference still holds {:?} (id, generation)", self.avail),
            );
        }
        // do not let the drained items travel back
        for item in drained {
            std::mem::forget(item);
        }
    }
}

/// Run one history on a fresh pool of the real crate.
pub fn run(cfg: Config, ops: &[Op]) -> Run {
    let r = catch(|| {
        let initial: Vec<Res> =
            if cfg.init_full { (0..cfg.size as u32).map(|id| Res { id, born: 0, dirty: false }).collect() } else { vec![] };
        let avail: Vec<(u32, u64)> = initial.iter().map(|r| (r.id, r.born)).collect();
        let pool = ResourcePool::<Res>::new(cfg.size, initial);
        let mut w = World {
            cfg,
            pool: &pool,
            held: vec![],
            avail,
            started: 0,
            completed: 0,
            steps: refresh_steps(cfg.size),
            pc: 0,
            d_new: 0,
            next_id: 100,
            relabelled: HashSet::new(),
            returned_superseded: HashSet::new(),
            violations: vec![],
            nontrivial: false,
            served_dirty: 0,
            flags: BTreeMap::new(),
        };
        for (i, op) in ops.iter().enumerate() {
            if !w.apply(*op) {
                // only the last event may be disabled (prefixes were checked by the enumeration)
                let held = std::mem::take(&mut w.held);
                for h in held {
                    std::mem::forget(h.item);
                }
                return Run { disabled: true, outcome: format!("disabled@{i}"), ..Run::default() };
            }
        }
        let canon = w.canon();
        let (held_n, in_refresh) = (w.held.len(), w.in_refresh());
        w.finish_and_drain();
        let held = std::mem::take(&mut w.held);
        for h in held {
            std::mem::forget(h.item);
        }
        // one principal label per history (the most telling thing that happened)
        let outcome = [
            "stale_served",
            "stale_readmitted",
            "stale_rejected",
            "rejected_during_refresh",
            "served_previous_generation_during_refresh",
            "rejected_pool_full",
            "readmitted",
            "acquire_timed_out",
        ]
        .into_iter()
        .find(|f| w.flags.contains_key(f))
        .unwrap_or("plain")
        .to_string();
        Run {
            disabled: false,
            violations: w.violations,
            nontrivial: w.nontrivial,
            canon,
            outcome,
            served_dirty: w.served_dirty,
            held: held_n,
            in_refresh,
        }
    });
    match r {
        Ok(r) => r,
        Err(p) => Run {
            disabled: false,
            violations: vec![(key::PANIC.to_string(), format!("panic: {p} at {}", mc_core::last_panic_location()))],
            nontrivial: false,
            canon: 0,
            outcome: "panic".into(),
            served_dirty: 0,
            held: 0,
            in_refresh: false,
        },
    }
}

/// per-worker accumulator
#[derive(Default)]
struct Acc {
    candidates: u64,
    enabledness_mismatch: u64,
    enabled: u64,
    by_len: BTreeMap<usize, u64>,
    states: HashSet<u64>,
    nontrivial: HashSet<u64>,
    outcomes: BTreeMap<String, u64>,
    clean: u64,
    served_dirty: u64,
    /// key -> (count, configuration, shortest history, what)
    found: BTreeMap<String, (u64, Config, Vec<Op>, String)>,
    samples: Vec<Value>,
}

impl Acc {
    fn account(&mut self, cfg: Config, h: &[Op], r: &Run) {
        self.enabled += 1;
        *self.by_len.entry(h.len()).or_insert(0) += 1;
        self.states.insert(r.canon);
        if r.nontrivial {
            self.nontrivial.insert(hash64(&(cfg, r.canon, &r.outcome)));
            if self.samples.len() < 2 && h.len() >= 4 && r.outcome == "stale_rejected" {
                self.samples.push(json!({"part": "seq", "config": cfg, "ops": h, "outcome": r.outcome}));
            }
        }
        *self.outcomes.entry(r.outcome.clone()).or_insert(0) += 1;
        self.served_dirty += r.served_dirty;
        if r.violations.is_empty() {
            self.clean += 1;
        }
        let mut seen: Vec<&str> = vec![];
        for (k, what) in &r.violations {
            if seen.contains(&k.as_str()) {
                continue;
            }
            seen.push(k);
            let e = self.found.entry(k.clone()).or_insert((0, cfg, h.to_vec(), what.clone()));
            e.0 += 1;
            if h.len() < e.2.len() {
                *e = (e.0, cfg, h.to_vec(), what.clone());
            }
        }
    }
    fn merge(&mut self, o: Acc) {
        self.candidates += o.candidates;
        self.enabledness_mismatch += o.enabledness_mismatch;
        self.enabled += o.enabled;
        for (k, v) in o.by_len {
            *self.by_len.entry(k).or_insert(0) += v;
        }
        self.states.extend(o.states);
        self.nontrivial.extend(o.nontrivial);
        for (k, v) in o.outcomes {
            *self.outcomes.entry(k).or_insert(0) += v;
        }
        self.clean += o.clean;
        self.served_dirty += o.served_dirty;
        for (k, (n, c, h, w)) in o.found {
            match self.found.get_mut(&k) {
                None => {
                    self.found.insert(k, (n, c, h, w));
                }
                Some(e) => {
                    let n = e.0 + n;
                    if h.len() < e.2.len() {
                        *e = (n, c, h, w);
                    } else {
                        e.0 = n;
                    }
                }
            }
        }
        for s in o.samples {
            if self.samples.len() < 3 {
                self.samples.push(s);
            }
        }
    }
}

/// all enabled extensions of `hist` (whose run left `held` items out / `in_refresh`), depth first
fn dfs(cfg: Config, alpha: &[Op], hist: &mut Vec<Op>, held: usize, in_refresh: bool, depth: usize, acc: &mut Acc) {
    for op in alpha {
        acc.candidates += 1;
        if !enabled(*op, held, in_refresh) {
            continue;
        }
        hist.push(*op);
        let r = run(cfg, hist);
        if r.disabled {
            acc.enabledness_mismatch += 1;
        } else {
            acc.account(cfg, hist, &r);
            if hist.len() < depth {
                dfs(cfg, alpha, hist, r.held, r.in_refresh, depth, acc);
            }
        }
        hist.pop();
    }
}

pub fn explore(ctx: &Ctx, rep: &mut Report, found: &mut Findings) {
    let t0 = std::time::Instant::now();
    let depth: usize = ctx.tier.pick(7, 8);
    let sizes: Vec<usize> = ctx.tier.pick(vec![1, 2], vec![1, 2, 3]);
    let alpha = alphabet();
    let mut total = Acc::default();
    let mut per_cfg = vec![];
    for &size in &sizes {
        for init_full in [true, false] {
            let cfg = Config { size, init_full };
            // thorough: one step deeper on the smallest pool, where a whole refresh takes 3 events
            let depth = if size == 1 && depth >= 8 { depth + 1 } else { depth };
            // the empty history and all enabled histories of length 1..3 first (work items)
            let mut acc = Acc::default();
            acc.candidates += 1;
            let r0 = run(cfg, &[]);
            acc.account(cfg, &[], &r0);
            let mut prefixes: Vec<(Vec<Op>, usize, bool)> = vec![(vec![], r0.held, r0.in_refresh)];
            for _ in 0..3.min(depth) {
                let mut next = vec![];
                for (h, held, in_refresh) in &prefixes {
                    for a in &alpha {
                        acc.candidates += 1;
                        if !enabled(*a, *held, *in_refresh) {
                            continue;
                        }
                        let mut h2 = h.clone();
                        h2.push(*a);
                        let r = run(cfg, &h2);
                        if r.disabled {
                            acc.enabledness_mismatch += 1;
                            continue;
                        }
                        acc.account(cfg, &h2, &r);
                        next.push((h2, r.held, r.in_refresh));
                    }
                }
                prefixes = next;
            }
            let parts = par_map(&prefixes, ctx.threads(), |_, (p, held, in_refresh)| {
                let mut a = Acc::default();
                let mut h = p.clone();
                if h.len() < depth {
                    dfs(cfg, &alpha, &mut h, *held, *in_refresh, depth, &mut a);
                }
                a
            });
            for p in parts {
                acc.merge(p);
            }
            per_cfg.push(json!({"size": size, "initially_full": init_full, "max_length": depth,
                "histories_run": acc.enabled, "by_length": acc.by_len, "distinct_end_states": acc.states.len()}));
            total.merge(acc);
        }
    }
    // determinism probe: the same history twice
    let probe = [Op::RefreshStep, Op::Acquire, Op::RefreshStep, Op::GiveItem(0), Op::RefreshStep];
    let (a, b) = (run(Config { size: 1, init_full: true }, &probe), run(Config { size: 1, init_full: true }, &probe));
    if a.canon != b.canon || a.outcome != b.outcome {
        rep.machinery_error("sequential replay divergence on the probe history".into());
    }

    if total.enabledness_mismatch > 0 {
        rep.machinery_error(format!("{} histories were predicted enabled but were not", total.enabledness_mismatch));
    }
    rep.evaluations += total.enabled;
    for h in &total.nontrivial {
        rep.nontrivial.insert(*h);
    }
    for (k, v) in &total.outcomes {
        rep.outcome_n(&format!("seq:{k}"), *v);
    }
    rep.states = Some(rep.states.unwrap_or(0) + total.states.len() as u64);
    rep.transitions = Some(rep.transitions.unwrap_or(0) + total.enabled);
    rep.traces_validated = Some(rep.traces_validated.unwrap_or(0) + total.clean);
    rep.extra(
        "sequential",
        json!({
            "alphabet": alpha,
            "max_held_items": MAX_HELD,
            "configurations": per_cfg,
            "histories_run": total.enabled,
            "candidate_histories_including_disabled_last_event": total.candidates,
            "histories_agreeing_with_reference": total.clean,
            "distinct_end_states": total.states.len(),
            "resources_served_without_reset": total.served_dirty,
            "wall_s": (t0.elapsed().as_secs_f64() * 100.0).round() / 100.0,
        }),
    );
    for s in total.samples {
        rep.sample(s);
    }
    for (k, (n, cfg, h, what)) in total.found {
        // the smallest failing history of each key, with the configuration it was found in
        found.add(
            &k,
            h.len(),
            n,
            format!("[sequential, pool size {}, initially {}] history {:?}: {what}", cfg.size, if cfg.init_full { "full" } else { "empty" }, h),
            json!({"part": "seq", "config": cfg, "ops": h}),
        );
    }
}

pub fn replay(_ctx: &Ctx, v: &Value, rep: &mut Report, found: &mut Findings) {
    let cfg: Config = serde_json::from_value(v["config"].clone()).unwrap_or_else(|e| {
        eprintln!("replay: bad config: {e}");
        std::process::exit(2)
    });
    let ops: Vec<Op> = serde_json::from_value(v["ops"].clone()).unwrap_or_else(|e| {
        eprintln!("replay: bad ops: {e}");
        std::process::exit(2)
    });
    let r = run(cfg, &ops);
    rep.eval();
    rep.outcome(&format!("seq:{}", r.outcome));
    eprintln!("replayed {ops:?} on {cfg:?}: outcome {} violations {}", r.outcome, r.violations.len());
    let mut seen = vec![];
    for (k, what) in r.violations {
        if seen.contains(&k) {
            continue;
        }
        seen.push(k.clone());
        found.add(&k, ops.len(), 1, format!("[sequential replay] {what}"), json!({"part": "seq", "config": cfg, "ops": ops}));
    }
}
