//! mc-ref: reference models shared by several checks. Written from the wording of the
//! properties, not from the code under test.

pub mod lottery;

/// `ev = Blake2b-512("map" ‖ msg ‖ index_le ‖ σ)` — the dense mapping of the STM paper.
pub fn dense_mapping(msg: &[u8], index: u64, sigma_bytes: &[u8]) -> [u8; 64] {
    use blake2::{Blake2b512, Digest};
    let mut h = Blake2b512::new();
    h.update(b"map");
    h.update(msg);
    h.update(index.to_le_bytes());
    h.update(sigma_bytes);
    let mut out = [0u8; 64];
    out.copy_from_slice(&h.finalize());
    out
}

/// Plain BLS (min-sig: 48-byte signature in G1, 96-byte key in G2, empty DST / augmentation as
/// Mithril uses it) verification with blst directly, group checks on.
pub fn bls_verify(sig48: &[u8], vk96: &[u8], msg: &[u8]) -> bool {
    let Ok(sig) = blst::min_sig::Signature::sig_validate(sig48, true) else {
        return false;
    };
    let Ok(pk) = blst::min_sig::PublicKey::key_validate(vk96) else {
        return false;
    };
    sig.verify(true, msg, &[], &[], &pk, true) == blst::BLST_ERROR::BLST_SUCCESS
}
