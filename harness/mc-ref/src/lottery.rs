//! Exact lottery reference: decides `ev / 2^512 < 1 - (1 - phi_f)^(stake/total)` with interval
//! arithmetic on fixed-point big integers (P fractional bits, directed rounding), so that the
//! answer is *proved* by the bracket, or reported as `TooClose` when `ev/2^512` lies within the
//! stated band around the threshold.
//!
//! ln and exp are evaluated by their power series with explicit remainder bounds after range
//! reduction (ln: mantissa in [1/2,1) and atanh series with |z| ≤ 1/3; exp: argument reduced to
//! (-ln2, 0] and Taylor series).

use num_bigint::{BigInt, BigUint, Sign};
use num_integer::Integer;
use num_traits::{One, Signed, Zero};

pub const P: u32 = 704;

#[derive(Clone, Debug)]
pub struct Iv {
    pub lo: BigInt,
    pub hi: BigInt,
}

fn one() -> BigInt {
    BigInt::one() << P
}

impl Iv {
    pub fn exact(v: BigInt) -> Iv {
        Iv { lo: v.clone(), hi: v }
    }
    pub fn from_int(n: i64) -> Iv {
        Iv::exact(BigInt::from(n) << P)
    }
    /// num/den (den > 0) rounded outwards
    pub fn from_ratio(num: &BigInt, den: &BigInt) -> Iv {
        assert!(den.is_positive());
        let n = num << P;
        Iv { lo: n.div_floor(den), hi: Integer::div_ceil(&n, den) }
    }
    pub fn add(&self, o: &Iv) -> Iv {
        Iv { lo: &self.lo + &o.lo, hi: &self.hi + &o.hi }
    }
    pub fn sub(&self, o: &Iv) -> Iv {
        Iv { lo: &self.lo - &o.hi, hi: &self.hi - &o.lo }
    }
    pub fn neg(&self) -> Iv {
        Iv { lo: -&self.hi, hi: -&self.lo }
    }
    pub fn mul(&self, o: &Iv) -> Iv {
        let c = [&self.lo * &o.lo, &self.lo * &o.hi, &self.hi * &o.lo, &self.hi * &o.hi];
        let mn = c.iter().min().unwrap();
        let mx = c.iter().max().unwrap();
        let d = one();
        Iv { lo: mn.div_floor(&d), hi: Integer::div_ceil(mx, &d) }
    }
    /// division by an interval that is strictly positive
    pub fn div_pos(&self, o: &Iv) -> Iv {
        assert!(o.lo.is_positive());
        let a = &self.lo << P;
        let b = &self.hi << P;
        let c = [a.div_floor(&o.lo), a.div_floor(&o.hi), b.div_floor(&o.lo), b.div_floor(&o.hi)];
        let e = [
            Integer::div_ceil(&a, &o.lo),
            Integer::div_ceil(&a, &o.hi),
            Integer::div_ceil(&b, &o.lo),
            Integer::div_ceil(&b, &o.hi),
        ];
        Iv { lo: c.iter().min().unwrap().clone(), hi: e.iter().max().unwrap().clone() }
    }
    /// multiply by the exact rational n/d, n ≥ 0, d > 0
    pub fn mul_ratio(&self, n: &BigInt, d: &BigInt) -> Iv {
        assert!(!n.is_negative() && d.is_positive());
        Iv { lo: (&self.lo * n).div_floor(d), hi: Integer::div_ceil(&(&self.hi * n), d) }
    }
    pub fn mul_int(&self, n: i64) -> Iv {
        let n = BigInt::from(n);
        let a = &self.lo * &n;
        let b = &self.hi * &n;
        if a <= b { Iv { lo: a, hi: b } } else { Iv { lo: b, hi: a } }
    }
    pub fn div_int(&self, n: u64) -> Iv {
        let n = BigInt::from(n);
        Iv { lo: self.lo.div_floor(&n), hi: Integer::div_ceil(&self.hi, &n) }
    }
    pub fn widen(&self, eps: &BigInt) -> Iv {
        Iv { lo: &self.lo - eps, hi: &self.hi + eps }
    }
    /// multiply by 2^k (k may be negative)
    pub fn shift(&self, k: i64) -> Iv {
        if k >= 0 {
            Iv { lo: &self.lo << (k as u32), hi: &self.hi << (k as u32) }
        } else {
            let d = BigInt::one() << ((-k) as u32);
            Iv { lo: self.lo.div_floor(&d), hi: Integer::div_ceil(&self.hi, &d) }
        }
    }
}

/// atanh(z) = Σ z^(2k+1)/(2k+1) for |z| ≤ 1/3 (+ slack); remainder ≤ |z|^(2K+3) * 9/8 / (2K+3)
fn atanh_small(z: &Iv) -> Iv {
    let z2 = z.mul(z);
    let mut term = z.clone(); // z^(2k+1)
    let mut sum = Iv::from_int(0);
    let kmax = 260u64; // (1/3)^(523) ≈ 2^-829
    for k in 0..=kmax {
        sum = sum.add(&term.div_int(2 * k + 1));
        term = term.mul(&z2);
    }
    // remainder: |term| is |z|^(2K+3); bound generously by 2·max|term|
    let m = term.lo.abs().max(term.hi.abs()) * 2 + 4;
    sum.widen(&m)
}

pub fn ln2() -> Iv {
    // ln 2 = 2 atanh(1/3)
    let third = Iv::from_ratio(&BigInt::one(), &BigInt::from(3));
    atanh_small(&third).mul_int(2)
}

/// ln(num/den) for a positive rational
pub fn ln_ratio(num: &BigUint, den: &BigUint, ln2: &Iv) -> Iv {
    assert!(!num.is_zero() && !den.is_zero());
    // choose e with m = (num/den)·2^-e ∈ [1/2, 1]
    let mut e: i64 = num.bits() as i64 - den.bits() as i64;
    // after this shift num/den·2^-e ∈ (1/2, 2); bring it to [1/2,1]
    let (mut n, mut d) = (BigInt::from(num.clone()), BigInt::from(den.clone()));
    if e >= 0 {
        d <<= e as u32;
    } else {
        n <<= (-e) as u32;
    }
    if n > d {
        d <<= 1u32;
        e += 1;
    }
    // m = n/d ∈ (1/2, 1]
    let m = Iv::from_ratio(&n, &d);
    let z = m.sub(&Iv::from_int(1)).div_pos(&m.add(&Iv::from_int(1))); // ∈ [-1/3, 0]
    let ln_m = atanh_small(&z).mul_int(2);
    ln_m.add(&ln2.mul_int(e))
}

/// exp of an interval that is ≤ ~0 (any magnitude)
pub fn exp_neg(l: &Iv, ln2: &Iv) -> Iv {
    // n = floor(mid / ln2)
    let mid: BigInt = (&l.lo + &l.hi) / BigInt::from(2);
    let ln2_mid: BigInt = (&ln2.lo + &ln2.hi) / BigInt::from(2);
    let n_big = mid.div_floor(&ln2_mid);
    let n: i64 = i64::try_from(n_big).expect("exponent fits");
    let r = l.sub(&ln2.mul_int(n)); // ≈ [0, ln2)
    // Taylor Σ r^k/k!, |r| < 1
    let mut term = Iv::from_int(1);
    let mut sum = Iv::from_int(0);
    let kmax = 170u64; // 1/170! ≈ 2^-1019
    for k in 0..=kmax {
        sum = sum.add(&term);
        term = term.mul(&r).div_int(k + 1);
    }
    let m = term.lo.abs().max(term.hi.abs()) * 4 + 4;
    let er = sum.widen(&m);
    er.shift(n)
}

#[derive(Clone, Copy, Debug, PartialEq, Eq)]
pub enum Verdict {
    Won,
    Lost,
    /// |ev/2^512 − threshold| below the band, or the formula is undefined (0^0)
    TooClose,
}

/// exact dyadic rational of an f64 in (0,1]: value = a / 2^s
pub fn dyadic(phi: f64) -> (BigUint, u32) {
    assert!(phi.is_finite() && phi > 0.0);
    let bits = phi.to_bits();
    let exp = ((bits >> 52) & 0x7ff) as i64;
    let frac = bits & ((1u64 << 52) - 1);
    let (mant, e) = if exp == 0 { (frac, -1074i64) } else { (frac | (1u64 << 52), exp - 1075) };
    // value = mant · 2^e
    if e >= 0 {
        (BigUint::from(mant) << (e as u32), 0)
    } else {
        (BigUint::from(mant), (-e) as u32)
    }
}

/// Interval of the winning probability p = 1 − (1−phi)^(stake/total), fixed point with P bits.
/// None when undefined (phi = 1 and stake = 0).
pub fn probability(stake: u64, total: u64, phi: f64, ln2c: &Iv) -> Option<Iv> {
    assert!(total > 0 && stake <= total);
    let (a, s) = dyadic(phi);
    let den = BigUint::one() << s;
    assert!(a <= den, "phi must be ≤ 1");
    let one_minus = &den - &a; // (1-phi) = one_minus/den
    if one_minus.is_zero() {
        if stake == 0 {
            return None;
        }
        return Some(Iv::from_int(1));
    }
    if stake == 0 {
        return Some(Iv::from_int(0));
    }
    let ln1m = ln_ratio(&one_minus, &den, ln2c); // ≤ 0
    let l = ln1m.mul_ratio(&BigInt::from(stake), &BigInt::from(total));
    // mul_ratio with negative interval: recompute outward-safe bounds
    let l = Iv { lo: l.lo.clone().min(l.hi.clone()) - 1, hi: l.lo.max(l.hi) + 1 };
    let e = exp_neg(&l, ln2c);
    Some(Iv::from_int(1).sub(&e))
}

/// The exact decision for draw `ev` (little-endian 64 bytes, as the implementation reads it).
/// `band_log2`: half-width of the "numerically negligible band" as a power of two (e.g. -44).
pub fn decide(ev_le: &[u8; 64], stake: u64, total: u64, phi: f64, band_log2: i32, ln2c: &Iv) -> Verdict {
    let Some(p) = probability(stake, total, phi, ln2c) else {
        return Verdict::TooClose;
    };
    decide_p(ev_le, &p, band_log2)
}

/// [`decide`] for an already computed probability bracket `p` (from [`probability`]): lets a
/// caller that tests many draws against the same (stake, total, phi) compute `p` once.
pub fn decide_p(ev_le: &[u8; 64], p: &Iv, band_log2: i32) -> Verdict {
    let ev = BigInt::from_bytes_le(Sign::Plus, ev_le) << (P - 512);
    let band = BigInt::one() << ((P as i32 + band_log2) as u32);
    if ev < &p.lo - &band {
        Verdict::Won
    } else if ev >= &p.hi + &band {
        Verdict::Lost
    } else {
        Verdict::TooClose
    }
}

/// floor(p·2^512) bracket, for generating draws concentrated around the threshold
pub fn threshold_512(stake: u64, total: u64, phi: f64, ln2c: &Iv) -> Option<(BigUint, BigUint)> {
    let p = probability(stake, total, phi, ln2c)?;
    let d = BigInt::one() << (P - 512);
    let lo = p.lo.div_floor(&d).max(BigInt::zero());
    let hi = Integer::div_ceil(&p.hi, &d).max(BigInt::zero());
    Some((lo.to_biguint().unwrap(), hi.to_biguint().unwrap()))
}

pub fn ev_from_biguint(v: &BigUint) -> [u8; 64] {
    let max = (BigUint::one() << 512u32) - BigUint::one();
    let v = if v > &max { max } else { v.clone() };
    let mut out = [0u8; 64];
    let b = v.to_bytes_le();
    out[..b.len()].copy_from_slice(&b);
    out
}

#[cfg(test)]
mod tests {
    use super::*;

    fn to_f64(iv: &Iv) -> (f64, f64) {
        let sh = P - 60;
        let f = |x: &BigInt| {
            let y: BigInt = x >> sh;
            i128::try_from(y).unwrap() as f64 / (1u64 << 60) as f64
        };
        (f(&iv.lo), f(&iv.hi))
    }

    #[test]
    fn ln2_is_right() {
        let l = ln2();
        let (a, b) = to_f64(&l);
        assert!((a - std::f64::consts::LN_2).abs() < 1e-15 && (b - std::f64::consts::LN_2).abs() < 1e-15);
        assert!(&l.hi - &l.lo < (BigInt::one() << (P - 600)));
    }

    #[test]
    fn probabilities_match_f64() {
        let l2 = ln2();
        for &(s, t, phi) in &[(1u64, 2u64, 0.2f64), (1, 1, 0.95), (3, 10, 0.5), (1, 1000, 0.05), (7, 9, 0.99), (1, 3, 1e-6)] {
            let p = probability(s, t, phi, &l2).unwrap();
            let (a, b) = to_f64(&p);
            let want = 1.0 - (1.0 - phi).powf(s as f64 / t as f64);
            assert!((a - want).abs() < 1e-12 && (b - want).abs() < 1e-12, "{s}/{t} {phi}: {a} {b} vs {want}");
            assert!(&p.hi - &p.lo < (BigInt::one() << (P - 560)), "bracket too wide");
        }
    }

    #[test]
    fn exact_case_half() {
        // phi = 0.75, w = 1/2: p = 1 - sqrt(0.25) = 0.5 exactly
        let l2 = ln2();
        let p = probability(1, 2, 0.75, &l2).unwrap();
        let half = BigInt::one() << (P - 1);
        assert!(p.lo <= half && half <= p.hi);
        let mut ev = [0u8; 64];
        ev[63] = 0x80; // exactly 2^511 → TooClose
        assert_eq!(decide(&ev, 1, 2, 0.75, -44, &l2), Verdict::TooClose);
        ev[63] = 0x70;
        assert_eq!(decide(&ev, 1, 2, 0.75, -44, &l2), Verdict::Won);
        ev[63] = 0x90;
        assert_eq!(decide(&ev, 1, 2, 0.75, -44, &l2), Verdict::Lost);
    }
}
