//! C10 — a restored Cardano database is accepted only if every file is the certified one.
//!
//! Bounded exhaustive enumeration on the real `mithril-client` proving API, driven exactly as the
//! CLI drives it (`download_and_verify_digests` → `verify_cardano_database` →
//! `MessageBuilder::compute_cardano_database_message` → `CertificateMessage::match_message`),
//! through a `Client` built with the public `ClientBuilder`, a harness `FileDownloader` that plays
//! the (possibly hostile) digest mirror, and a directory on tmpfs that plays the restored database.
//!
//! The honest digests and the signed Merkle root are produced by the harness itself (SHA-256 with
//! the `sha2` crate over the bytes it wrote, `MKTree` over the digests in file order) and are
//! cross-checked once at start-up against the real `CardanoImmutableDigester`.
//!
//! Oracle (implication only): accepted ⇒ the digest sequence the client retained is the signed one,
//! every canonical file of the requested range is present (unless gaps were allowed) and every
//! immutable file of the range holds the bytes certified FOR ITS NAME. Completeness: the honest
//! directory with the honest list is accepted for every valid range.

use std::collections::{BTreeMap, BTreeSet};
use std::path::{Path, PathBuf};
use std::sync::atomic::{AtomicU64, Ordering};
use std::sync::{Arc, Mutex};

use async_trait::async_trait;
use mc_core::{Ctx, Report, catch, par_map};
use serde::{Deserialize, Serialize};
use serde_json::{Value, json};
use sha2::{Digest, Sha256};

use mithril_cardano_node_internal_database::digesters::{CardanoImmutableDigester, ImmutableDigester};
use mithril_client::cardano_database_client::{CardanoDatabaseVerificationError, ImmutableFileRange};
use mithril_client::certificate_client::CertificateVerifier;
use mithril_client::file_downloader::{DownloadEvent, FileDownloader, FileDownloaderUri};
use mithril_client::{
    AggregatorDiscoveryType, Client, ClientBuilder, GenesisVerificationKey, MessageBuilder, MithrilCertificate,
    MithrilResult,
};
use mithril_common::crypto_helper::{MKTree, MKTreeStoreInMemory};
use mithril_common::entities::{
    CardanoDbBeacon, CompressionAlgorithm, DigestLocation, Epoch, ProtocolMessage, ProtocolMessagePartKey,
    SignedEntityType,
};
use mithril_common::messages::{CardanoDatabaseSnapshotMessage, CertificateMessage, DigestsMessagePart};
use mithril_common::test::double::Dummy;

const TYPES: [&str; 3] = ["chunk", "primary", "secondary"];

// ───────────────────────────── the honest world ─────────────────────────────

#[derive(Clone, Debug, Serialize, Deserialize, PartialEq, Eq, Hash)]
pub struct Db {
    /// beacon immutable file number: the trios 0..=last are certified
    last: u64,
    /// the in-progress trio last+1 is present in the directory (it comes with the ancillary archive)
    next_trio: bool,
    /// the served list also holds the entries of trio last+1 (the aggregator is ahead of the beacon)
    list_beyond: bool,
    /// 00001.primary holds the same bytes as 00000.primary (two certified files with equal digests)
    dup: bool,
    /// the restored directory only holds the trios from this number on (a partial restoration)
    #[serde(default)]
    dir_from: u64,
}

fn std_name(n: u64, t: usize) -> String {
    format!("{n:05}.{}", TYPES[t])
}

fn honest_content(n: u64, t: usize, db: &Db) -> Vec<u8> {
    if n >= 20 {
        // databases with many trios (only their last trios are ever written to disk)
        return format!("{n}{}", b"cps"[t] as char).into_bytes();
    }
    let n_eff = if db.dup && n == 1 && t == 1 { 0 } else { n } as usize;
    let len = 4 + (n_eff * 3 + t) % 5;
    let mut v = vec![b'A' + n_eff as u8, b"cps"[t]];
    for i in 2..len {
        v.push(b'0' + ((n_eff * 7 + t * 3 + i) % 10) as u8);
    }
    v
}

/// bytes that no honest file holds (honest files start with an upper-case letter)
fn fresh_content(name: &str) -> Vec<u8> {
    let h = mc_core::hash64(name).to_le_bytes();
    vec![b'#', h[0], h[1], h[2], h[3]]
}

fn sha_hex(bytes: &[u8]) -> String {
    hex::encode(Sha256::digest(bytes))
}

/// harness-side reading of "this directory entry is an immutable file, number n": extension is one
/// of the three immutable kinds and the stem is a plain decimal number
fn imm_number(name: &str) -> Option<u64> {
    let (stem, ext) = name.rsplit_once('.')?;
    if !TYPES.contains(&ext) || stem.is_empty() || !stem.bytes().all(|b| b.is_ascii_digit()) {
        return None;
    }
    stem.parse().ok()
}

/// number carried by a served-list entry name (any extension) — used to build cases only
fn entry_number(name: &str) -> Option<u64> {
    let stem = name.rsplit_once('.').map(|x| x.0).unwrap_or(name);
    if stem.is_empty() || !stem.bytes().all(|b| b.is_ascii_digit()) {
        return None;
    }
    stem.parse().ok()
}

struct Honest {
    db: Db,
    /// the honest restored directory `immutable/`
    files: BTreeMap<String, Vec<u8>>,
    /// certified names in file order (number, name)
    names: Vec<String>,
    /// names of the in-progress trio
    next_names: Vec<String>,
    /// certified name -> hex SHA-256 of the certified bytes
    digest_of: BTreeMap<String, String>,
    /// digests of the in-progress trio
    next_digest_of: BTreeMap<String, String>,
    /// certified digests in file order = the signed leaf sequence
    digests: Vec<String>,
    digest_set: BTreeSet<String>,
    content_by_digest: BTreeMap<String, Vec<u8>>,
    root_hex: String,
    /// the digest list the honest aggregator publishes
    list: Vec<(String, String)>,
    certificate: CertificateMessage,
    snapshot: CardanoDatabaseSnapshotMessage,
}

impl Honest {
    fn new(db: &Db) -> Honest {
        let mut files = BTreeMap::new();
        let mut names = vec![];
        let mut next_names = vec![];
        let mut digest_of = BTreeMap::new();
        let mut next_digest_of = BTreeMap::new();
        let mut digests = vec![];
        let mut content_by_digest = BTreeMap::new();
        for n in 0..=db.last + 1 {
            for t in 0..3 {
                let name = std_name(n, t);
                let c = honest_content(n, t, db);
                let d = sha_hex(&c);
                content_by_digest.insert(d.clone(), c.clone());
                if n <= db.last {
                    names.push(name.clone());
                    digest_of.insert(name.clone(), d.clone());
                    digests.push(d);
                    if n >= db.dir_from {
                        files.insert(name, c);
                    }
                } else {
                    next_names.push(name.clone());
                    next_digest_of.insert(name.clone(), d);
                    if db.next_trio {
                        files.insert(name, c);
                    }
                }
            }
        }
        let tree: MKTree<MKTreeStoreInMemory> = MKTree::new(&digests).expect("honest tree");
        let root_hex = tree.compute_root().expect("honest root").to_hex();
        let mut list: Vec<(String, String)> = names.iter().map(|n| (n.clone(), digest_of[n].clone())).collect();
        if db.list_beyond {
            for n in &next_names {
                list.push((n.clone(), next_digest_of[n].clone()));
            }
        }
        let beacon = CardanoDbBeacon::new(7, db.last);
        let mut pm = ProtocolMessage::new();
        pm.set_message_part(ProtocolMessagePartKey::CardanoDatabaseMerkleRoot, root_hex.clone());
        pm.set_message_part(ProtocolMessagePartKey::NextAggregateVerificationKey, "next-avk-of-the-harness".to_string());
        pm.set_message_part(ProtocolMessagePartKey::CurrentEpoch, "7".to_string());
        let certificate = CertificateMessage {
            hash: "certificate-of-the-harness".to_string(),
            epoch: Epoch(7),
            signed_entity_type: SignedEntityType::CardanoDatabase(beacon.clone()).into(),
            signed_message: pm.compute_hash(),
            protocol_message: pm,
            ..CertificateMessage::dummy()
        };
        let snapshot = CardanoDatabaseSnapshotMessage {
            merkle_root: root_hex.clone(),
            beacon,
            certificate_hash: certificate.hash.clone(),
            digests: DigestsMessagePart {
                size_uncompressed: 4096,
                locations: vec![DigestLocation::CloudStorage {
                    uri: "http://mirror.invalid/digests.json".to_string(),
                    compression_algorithm: None,
                }],
            },
            ..CardanoDatabaseSnapshotMessage::dummy()
        };
        let digest_set = digests.iter().cloned().collect();
        Honest {
            db: db.clone(),
            files,
            names,
            next_names,
            digest_of,
            next_digest_of,
            digests,
            digest_set,
            content_by_digest,
            root_hex,
            list,
            certificate,
            snapshot,
        }
    }
}

// ───────────────────────────── tamperings ─────────────────────────────

#[derive(Clone, Debug, Serialize, Deserialize, PartialEq, Eq, Hash)]
enum DirOp {
    Flip { file: String, byte: usize },
    Truncate { file: String, len: usize },
    Append { file: String },
    /// write bytes that are not certified for any file (creates the file when absent)
    Fresh { file: String },
    Delete { file: String },
    Swap { a: String, b: String },
    /// copy the bytes of `from` over `to` (creates `to` when absent)
    Copy { from: String, to: String },
    Move { from: String, to: String },
    SwapTrio { a: u64, b: u64 },
    CopyTrio { from: u64, to: u64 },
    /// an extra directory `<db>/<parent>/immutable` holding the honest files; `first`: created before
    /// the real `immutable` directory (directory listing order on tmpfs follows creation)
    Decoy { parent: String, first: bool },
    /// make the directory agree, name by name, with the list the mirror serves
    ConformToList,
    /// `<db>/immutable/<file>` is a symbolic link to a file outside the database that holds
    /// uncertified bytes
    SymlinkForeign { file: String },
    /// ... a (relative) symbolic link to its sibling `to`: it reads as the bytes of another name
    SymlinkSibling { file: String, to: String },
    /// ... a symbolic link to a copy, outside the database, of the bytes certified for that name
    SymlinkOwnCopy { file: String },
    /// ... a directory
    DirectoryInPlace { file: String },
    /// the database directory is itself named `immutable`; `honest_at_root`: the honest immutable
    /// files are also dropped at its root (`<db>/00000.chunk` ...), beside `<db>/immutable/`
    DbNamedImmutable { honest_at_root: bool },
}

#[derive(Clone, Debug, PartialEq, Eq)]
enum Kind {
    LinkOutside,
    LinkSibling(String),
    Directory,
}

#[derive(Clone, Debug, Serialize, Deserialize, PartialEq, Eq, Hash)]
enum Dg {
    /// the honest digest of that (certified or in-progress) file
    Of(String),
    /// digest of bytes nobody certified
    Fresh(String),
    /// digest of what the directory currently holds under that name
    Dir(String),
    Text(String),
}

#[derive(Clone, Debug, Serialize, Deserialize, PartialEq, Eq, Hash)]
enum RawKind {
    NotJson,
    EmptyFile,
    EmptyArray,
    ObjectInsteadOfArray,
    DownloadFails,
    TwoFiles,
}

#[derive(Clone, Debug, Serialize, Deserialize, PartialEq, Eq, Hash)]
enum ListOp {
    Rename { from: String, to: String },
    Drop { name: String },
    Add { name: String, digest: Dg },
    SetDigest { name: String, digest: Dg },
    SwapDigests { a: String, b: String },
    Reverse,
    Rotate,
    Transpose { i: usize, j: usize },
    /// the mirror re-labels the signed digest sequence: `names` (sorted as the client sorts them)
    /// are attached, in order, to the honest digests
    Relabel { names: Vec<String> },
    /// the canonical names, attached to the signed digest sequence in the order of the names as
    /// STRINGS (differs from the order of the numbers beyond 99999)
    RelabelInStringOrder,
    /// every entry renamed to the canonical name of the trio `by` numbers further
    ShiftTrios { by: u64 },
    Raw(RawKind),
}

#[derive(Clone, Debug, Serialize, Deserialize, PartialEq, Eq, Hash)]
enum Op {
    Dir(DirOp),
    List(ListOp),
    /// the (unsigned) snapshot message announces another beacon than the certified one
    AnnounceBeacon(u64),
}

#[derive(Clone, Copy, Debug, Serialize, Deserialize, PartialEq, Eq, Hash)]
enum Rng {
    Full,
    From(u64),
    UpTo(u64),
    Range(u64, u64),
}

impl Rng {
    fn real(&self) -> ImmutableFileRange {
        match *self {
            Rng::Full => ImmutableFileRange::Full,
            Rng::From(a) => ImmutableFileRange::From(a),
            Rng::UpTo(b) => ImmutableFileRange::UpTo(b),
            Rng::Range(a, b) => ImmutableFileRange::Range(a, b),
        }
    }
    /// the numbers the caller asked for, as the API documents the four forms; None = not a range of
    /// this database
    fn reference(&self, last: u64) -> Option<(u64, u64)> {
        match *self {
            Rng::Full => Some((0, last)),
            Rng::From(a) if a <= last => Some((a, last)),
            Rng::UpTo(b) if b <= last => Some((0, b)),
            Rng::Range(a, b) if a <= b && b <= last => Some((a, b)),
            _ => None,
        }
    }
}

fn all_ranges(last: u64) -> Vec<Rng> {
    let mut v = vec![Rng::Full];
    for a in 0..=last {
        v.push(Rng::From(a));
    }
    for b in 0..=last {
        v.push(Rng::UpTo(b));
    }
    for a in 0..=last {
        for b in a..=last {
            v.push(Rng::Range(a, b));
        }
    }
    v
}

fn invalid_ranges(last: u64) -> Vec<Rng> {
    let mut v = vec![Rng::From(last + 1), Rng::UpTo(last + 1), Rng::Range(0, last + 1), Rng::Range(last + 1, last + 1)];
    if last >= 1 {
        v.push(Rng::Range(1, 0));
    }
    v
}

#[derive(Clone, Debug)]
struct State {
    dir: BTreeMap<String, Vec<u8>>,
    list: Vec<(String, String)>,
    raw: Option<RawKind>,
    decoys: Vec<(String, bool)>,
    /// entries of `immutable/` that are not regular files (`dir` holds what reading them yields)
    kinds: BTreeMap<String, Kind>,
    db_named_immutable: Option<bool>,
    /// beacon announced by the snapshot message
    announced: u64,
}

fn resolve(dg: &Dg, h: &Honest, st: &State) -> String {
    match dg {
        Dg::Of(n) => h.digest_of.get(n).or_else(|| h.next_digest_of.get(n)).cloned().unwrap_or_else(|| sha_hex(&fresh_content(n))),
        Dg::Fresh(n) => sha_hex(&fresh_content(n)),
        Dg::Dir(n) => st.dir.get(n).map(|c| sha_hex(c)).unwrap_or_else(|| sha_hex(&fresh_content(n))),
        Dg::Text(t) => t.clone(),
    }
}

fn apply(h: &Honest, ops: &[Op]) -> State {
    let mut st = State {
        dir: h.files.clone(),
        list: h.list.clone(),
        raw: None,
        decoys: vec![],
        kinds: BTreeMap::new(),
        db_named_immutable: None,
        announced: h.db.last,
    };
    for op in ops {
        match op {
            Op::Dir(d) => match d {
                DirOp::Flip { file, byte } => {
                    if let Some(c) = st.dir.get_mut(file)
                        && *byte < c.len()
                    {
                        c[*byte] ^= 0x01;
                    }
                }
                DirOp::Truncate { file, len } => {
                    if let Some(c) = st.dir.get_mut(file) {
                        c.truncate(*len);
                    }
                }
                DirOp::Append { file } => {
                    if let Some(c) = st.dir.get_mut(file) {
                        c.push(b'!');
                    }
                }
                DirOp::Fresh { file } => {
                    st.kinds.remove(file);
                    st.dir.insert(file.clone(), fresh_content(file));
                }
                DirOp::Delete { file } => {
                    st.kinds.remove(file);
                    st.dir.remove(file);
                }
                DirOp::Swap { a, b } => {
                    let (ca, cb) = (st.dir.remove(a), st.dir.remove(b));
                    if let Some(c) = cb {
                        st.dir.insert(a.clone(), c);
                    }
                    if let Some(c) = ca {
                        st.dir.insert(b.clone(), c);
                    }
                }
                DirOp::Copy { from, to } => {
                    if let Some(c) = st.dir.get(from).cloned() {
                        st.dir.insert(to.clone(), c);
                    }
                }
                DirOp::Move { from, to } => {
                    if let Some(c) = st.dir.remove(from) {
                        st.dir.insert(to.clone(), c);
                    }
                }
                DirOp::SwapTrio { a, b } => {
                    for t in 0..3 {
                        let (na, nb) = (std_name(*a, t), std_name(*b, t));
                        let (ca, cb) = (st.dir.remove(&na), st.dir.remove(&nb));
                        if let Some(c) = cb {
                            st.dir.insert(na, c);
                        }
                        if let Some(c) = ca {
                            st.dir.insert(nb, c);
                        }
                    }
                }
                DirOp::CopyTrio { from, to } => {
                    for t in 0..3 {
                        if let Some(c) = st.dir.get(&std_name(*from, t)).cloned() {
                            st.dir.insert(std_name(*to, t), c);
                        }
                    }
                }
                DirOp::Decoy { parent, first } => st.decoys.push((parent.clone(), *first)),
                DirOp::ConformToList => {
                    // last entry wins, as in any map built from the list
                    let served: BTreeMap<String, String> = st.list.iter().cloned().collect();
                    let top = h.db.last.max(st.announced);
                    st.dir.retain(|name, _| imm_number(name).is_none_or(|n| n > top));
                    for (name, dg) in &served {
                        if let Some(n) = imm_number(name)
                            && n <= top
                            && n >= h.db.dir_from
                            && let Some(c) = h.content_by_digest.get(dg)
                        {
                            st.dir.insert(name.clone(), c.clone());
                        }
                    }
                }
                DirOp::SymlinkForeign { file } => {
                    st.dir.insert(file.clone(), fresh_content(file));
                    st.kinds.insert(file.clone(), Kind::LinkOutside);
                }
                DirOp::SymlinkSibling { file, to } => {
                    if let Some(c) = st.dir.get(to).cloned() {
                        st.dir.insert(file.clone(), c);
                        st.kinds.insert(file.clone(), Kind::LinkSibling(to.clone()));
                    }
                }
                DirOp::SymlinkOwnCopy { file } => {
                    if st.dir.contains_key(file) {
                        st.kinds.insert(file.clone(), Kind::LinkOutside);
                    }
                }
                DirOp::DirectoryInPlace { file } => {
                    st.dir.remove(file);
                    st.kinds.insert(file.clone(), Kind::Directory);
                }
                DirOp::DbNamedImmutable { honest_at_root } => st.db_named_immutable = Some(*honest_at_root),
            },
            Op::List(l) => match l {
                ListOp::Rename { from, to } => {
                    for e in st.list.iter_mut() {
                        if &e.0 == from {
                            e.0 = to.clone();
                        }
                    }
                }
                ListOp::Drop { name } => st.list.retain(|e| &e.0 != name),
                ListOp::Add { name, digest } => {
                    let d = resolve(digest, h, &st);
                    st.list.push((name.clone(), d));
                }
                ListOp::SetDigest { name, digest } => {
                    let d = resolve(digest, h, &st);
                    for e in st.list.iter_mut() {
                        if &e.0 == name {
                            e.1 = d.clone();
                        }
                    }
                }
                ListOp::SwapDigests { a, b } => {
                    let ia = st.list.iter().position(|e| &e.0 == a);
                    let ib = st.list.iter().position(|e| &e.0 == b);
                    if let (Some(ia), Some(ib)) = (ia, ib) {
                        let (da, db) = (st.list[ia].1.clone(), st.list[ib].1.clone());
                        st.list[ia].1 = db;
                        st.list[ib].1 = da;
                    }
                }
                ListOp::Reverse => st.list.reverse(),
                ListOp::Rotate => {
                    if !st.list.is_empty() {
                        st.list.rotate_left(1);
                    }
                }
                ListOp::Transpose { i, j } => {
                    if *i < st.list.len() && *j < st.list.len() {
                        st.list.swap(*i, *j);
                    }
                }
                ListOp::Relabel { names } => {
                    let mut sorted = names.clone();
                    sorted.sort();
                    let mut out: Vec<(String, String)> = sorted.into_iter().zip(h.digests.iter().cloned()).collect();
                    out.extend(st.list.iter().filter(|e| entry_number(&e.0).is_none_or(|n| n > h.db.last)).cloned());
                    st.list = out;
                }
                ListOp::RelabelInStringOrder => {
                    let mut sorted = h.names.clone();
                    sorted.sort();
                    let mut out: Vec<(String, String)> = sorted.into_iter().zip(h.digests.iter().cloned()).collect();
                    out.extend(st.list.iter().filter(|e| entry_number(&e.0).is_none_or(|n| n > h.db.last)).cloned());
                    st.list = out;
                }
                ListOp::ShiftTrios { by } => {
                    for e in st.list.iter_mut() {
                        if let (Some(n), Some((_, ext))) = (entry_number(&e.0), e.0.rsplit_once('.')) {
                            e.0 = format!("{:05}.{ext}", n + by);
                        }
                    }
                }
                ListOp::Raw(k) => st.raw = Some(k.clone()),
            },
            Op::AnnounceBeacon(n) => st.announced = *n,
        }
    }
    st
}

fn list_json(list: &[(String, String)]) -> Vec<u8> {
    // the format of mithril-aggregator's DigestArtifactBuilder::create_digest_file
    let v: Vec<Value> = list.iter().map(|(n, d)| json!({"immutable_file_name": n, "digest": d})).collect();
    serde_json::to_vec(&v).unwrap()
}

// ───────────────────────────── environment doubles ─────────────────────────────

enum Payload {
    Files(Vec<(String, Vec<u8>)>),
    Fail,
}

/// the digest mirror: whatever the case says, written where the client asks for it
struct Mirror {
    payload: Mutex<Payload>,
    last_target: Mutex<Option<PathBuf>>,
    calls: AtomicU64,
    unexpected: AtomicU64,
}

#[async_trait]
impl FileDownloader for Mirror {
    async fn download_unpack(
        &self,
        _location: &FileDownloaderUri,
        _file_size: u64,
        target_dir: &Path,
        compression_algorithm: Option<CompressionAlgorithm>,
        download_event_type: DownloadEvent,
    ) -> mithril_common::StdResult<()> {
        self.calls.fetch_add(1, Ordering::Relaxed);
        if compression_algorithm.is_some() || !matches!(download_event_type, DownloadEvent::Digest { .. }) {
            self.unexpected.fetch_add(1, Ordering::Relaxed);
        }
        *self.last_target.lock().unwrap() = Some(target_dir.to_path_buf());
        match &*self.payload.lock().unwrap() {
            Payload::Fail => Err(anyhow::anyhow!("mirror unreachable")),
            Payload::Files(fs) => {
                std::fs::create_dir_all(target_dir)?;
                for (n, b) in fs {
                    std::fs::write(target_dir.join(n), b)?;
                }
                Ok(())
            }
        }
    }
}

/// the certificate chain is C03's business: here the certificate is taken as validated
struct ChainAlreadyValidated;

#[async_trait]
impl CertificateVerifier for ChainAlreadyValidated {
    async fn verify_chain(&self, _certificate: &MithrilCertificate) -> MithrilResult<()> {
        Ok(())
    }
}

struct Worker {
    client: Client,
    mirror: Arc<Mirror>,
    rt: tokio::runtime::Runtime,
    base: PathBuf,
}

fn new_worker(base: PathBuf) -> Worker {
    let mirror = Arc::new(Mirror {
        payload: Mutex::new(Payload::Fail),
        last_target: Mutex::new(None),
        calls: AtomicU64::new(0),
        unexpected: AtomicU64::new(0),
    });
    let client = ClientBuilder::new(AggregatorDiscoveryType::Url("http://127.0.0.1:9/".to_string()))
        .set_genesis_verification_key(GenesisVerificationKey::JsonHex("not-used-the-chain-is-taken-as-validated".to_string()))
        .with_certificate_verifier(Arc::new(ChainAlreadyValidated))
        .with_http_file_downloader(mirror.clone())
        .build()
        .expect("ClientBuilder::build");
    let rt = tokio::runtime::Builder::new_current_thread().enable_time().build().expect("tokio runtime");
    std::fs::create_dir_all(&base).expect("worker dir");
    Worker { client, mirror, rt, base }
}

fn materialize(w: &Worker, h: &Honest, st: &State) -> PathBuf {
    for d in ["db", "immutable", "side"] {
        let _ = std::fs::remove_dir_all(w.base.join(d));
    }
    let db = w.base.join(if st.db_named_immutable.is_some() { "immutable" } else { "db" });
    std::fs::create_dir_all(&db).expect("db dir");
    let side = w.base.join("side");
    let decoy = |parent: &str| {
        let d = db.join(parent).join("immutable");
        std::fs::create_dir_all(&d).expect("decoy dir");
        for (n, c) in &h.files {
            std::fs::write(d.join(n), c).expect("decoy file");
        }
    };
    for (p, first) in &st.decoys {
        if *first {
            decoy(p);
        }
    }
    if st.db_named_immutable == Some(true) {
        for (n, c) in &h.files {
            std::fs::write(db.join(n), c).expect("root file");
        }
    }
    let imm = db.join("immutable");
    std::fs::create_dir_all(&imm).expect("immutable dir");
    for (n, c) in &st.dir {
        match st.kinds.get(n) {
            None => std::fs::write(imm.join(n), c).expect("immutable file"),
            Some(Kind::LinkOutside) => {
                std::fs::create_dir_all(&side).expect("side dir");
                std::fs::write(side.join(n), c).expect("side file");
                std::os::unix::fs::symlink(side.join(n), imm.join(n)).expect("symlink");
            }
            Some(Kind::LinkSibling(to)) => std::os::unix::fs::symlink(to, imm.join(n)).expect("symlink"),
            Some(Kind::Directory) => {}
        }
    }
    for (n, k) in &st.kinds {
        if *k == Kind::Directory {
            std::fs::create_dir_all(imm.join(n)).expect("directory in place of a file");
        }
    }
    for (p, first) in &st.decoys {
        if !*first {
            decoy(p);
        }
    }
    db
}

fn set_mirror(w: &Worker, st: &State) {
    let body = list_json(&st.list);
    let p = match &st.raw {
        None => Payload::Files(vec![("digests.json".into(), body)]),
        Some(RawKind::NotJson) => Payload::Files(vec![("digests.json".into(), b"these are not digests".to_vec())]),
        Some(RawKind::EmptyFile) => Payload::Files(vec![("digests.json".into(), vec![])]),
        Some(RawKind::EmptyArray) => Payload::Files(vec![("digests.json".into(), b"[]".to_vec())]),
        Some(RawKind::ObjectInsteadOfArray) => {
            let m: serde_json::Map<String, Value> = st.list.iter().map(|(n, d)| (n.clone(), json!(d))).collect();
            Payload::Files(vec![("digests.json".into(), serde_json::to_vec(&m).unwrap())])
        }
        Some(RawKind::DownloadFails) => Payload::Fail,
        Some(RawKind::TwoFiles) => Payload::Files(vec![("digests.json".into(), body.clone()), ("digests-2.json".into(), body)]),
    };
    *w.mirror.payload.lock().unwrap() = p;
}

// ───────────────────────────── one case ─────────────────────────────

#[derive(Clone, Debug, Serialize, Deserialize)]
struct Case {
    db: Db,
    ops: Vec<Op>,
    #[serde(default)]
    range: Option<Rng>,
    #[serde(default)]
    allow_missing: Option<bool>,
}

fn describe(c: &Case) -> String {
    format!(
        "database of {} certified trio(s){}{}{}, tampering {}",
        c.db.last + 1,
        if c.db.next_trio { " + in-progress trio" } else { "" },
        if c.db.list_beyond { ", list ahead of beacon" } else { "" },
        if c.db.dup { ", two equal files" } else { "" },
        if c.ops.is_empty() { "none".to_string() } else { serde_json::to_string(&c.ops).unwrap() }
    )
}

/// the reference predicate for one accepted verification; None = the property holds
fn judge_accepted(
    h: &Honest,
    st: &State,
    retained: &BTreeMap<String, String>,
    (lo, hi): (u64, u64),
    allow_missing: bool,
) -> Option<(&'static str, String)> {
    if !allow_missing {
        for n in lo..=hi {
            for t in 0..3 {
                let name = std_name(n, t);
                if st.kinds.get(&name) == Some(&Kind::Directory) {
                    return Some((
                        "C10/non-regular-entry-in-place-of-immutable-file-not-verified",
                        format!("a directory stands where {name} should be: the file does not exist, gaps were not allowed, and verification succeeded"),
                    ));
                }
                if !st.dir.contains_key(&name) {
                    return Some((
                        "C10/missing-file-accepted",
                        format!("{name} is absent from the directory, gaps were not allowed, and verification succeeded"),
                    ));
                }
            }
        }
    }
    // every immutable file of the range must hold the bytes certified for its own name
    let mut uncertified_bytes = vec![];
    let mut wrong_name_vs_served = vec![];
    let mut name_unknown_to_served = vec![];
    let mut agrees_with_served_only = vec![];
    for (name, content) in &st.dir {
        let Some(n) = imm_number(name) else { continue };
        if n < lo || n > hi {
            continue;
        }
        let d = sha_hex(content);
        if h.digest_of.get(name) == Some(&d) {
            continue;
        }
        if !h.digest_set.contains(&d) {
            uncertified_bytes.push(name.clone());
        } else {
            match retained.get(name) {
                Some(v) if *v == d => agrees_with_served_only.push(name.clone()),
                Some(_) => wrong_name_vs_served.push(name.clone()),
                None => name_unknown_to_served.push(name.clone()),
            }
        }
    }
    let non_regular: Vec<&String> = uncertified_bytes
        .iter()
        .chain(&wrong_name_vs_served)
        .chain(&name_unknown_to_served)
        .chain(&agrees_with_served_only)
        .filter(|n| st.kinds.contains_key(*n))
        .collect();
    if !non_regular.is_empty() {
        return Some((
            "C10/non-regular-entry-in-place-of-immutable-file-not-verified",
            format!(
                "{non_regular:?} are symbolic links: reading them (what a Cardano node does) does not yield the bytes certified for their names, and verification succeeded"
            ),
        ));
    }
    let any_bad = !(uncertified_bytes.is_empty() && wrong_name_vs_served.is_empty() && name_unknown_to_served.is_empty() && agrees_with_served_only.is_empty());
    if any_bad && st.announced != h.db.last {
        return Some((
            "C10/announced-beacon-not-authenticated",
            format!(
                "the snapshot message announces beacon {} while the certificate signs the root of trios 0..={}; uncertified for their name: {:?}, and verification succeeded",
                st.announced,
                h.db.last,
                uncertified_bytes.iter().chain(&wrong_name_vs_served).chain(&name_unknown_to_served).chain(&agrees_with_served_only).collect::<Vec<_>>()
            ),
        ));
    }
    if !uncertified_bytes.is_empty() {
        let key = if st.db_named_immutable.is_some() {
            "C10/database-directory-named-immutable-digested-instead-of-its-child"
        } else if st.decoys.is_empty() {
            "C10/uncertified-content-accepted"
        } else {
            "C10/decoy-immutable-directory-verified"
        };
        return Some((key, format!("{uncertified_bytes:?} hold bytes that hash to no certified digest at all, and verification succeeded")));
    }
    if !wrong_name_vs_served.is_empty() {
        return Some((
            "C10/content-swapped-between-names",
            format!(
                "{wrong_name_vs_served:?} hold bytes certified for ANOTHER file name (their SHA-256 differs from the digest the verified list gives for that very name), and verification succeeded"
            ),
        ));
    }
    if !name_unknown_to_served.is_empty() {
        return Some((
            "C10/file-name-without-certified-digest-accepted",
            format!(
                "{name_unknown_to_served:?} are immutable files of the requested range whose names have no entry in the verified digest list; they hold a copy of some certified file, and verification succeeded"
            ),
        ));
    }
    if !agrees_with_served_only.is_empty() {
        // which retained names let the mirror re-attach the signed digests?
        let is_canonical = |k: &String| imm_number(k).is_some_and(|n| (0..3).any(|t| std_name(n, t) == *k));
        let odd: Vec<&String> = retained.keys().filter(|k| !is_canonical(k)).collect();
        let base_is_canonical = |k: &&String| {
            let b = k.trim_end_matches(['/', '.']).rsplit('/').next().unwrap_or("").to_string();
            is_canonical(&b)
        };
        let key = if odd.is_empty() {
            "C10/signed-leaves-ordered-by-name-string-not-by-number"
        } else if odd.iter().all(base_is_canonical) {
            "C10/served-name-with-directory-component-retained"
        } else {
            "C10/served-list-names-not-bound-to-signed-digests"
        };
        return Some((
            key,
            format!(
                "{agrees_with_served_only:?} hold bytes certified for another file; they agree with the SERVED list, which attaches the signed digest sequence to other names (retained names that are not canonical: {odd:?}) and still reproduces the signed root"
            ),
        ));
    }
    None
}

fn ranges_for(db: &Db, announced: u64, honest_case: bool) -> Vec<Rng> {
    if db.dir_from > 0 {
        // a partial restoration: the ranges inside what was restored
        let mut v = vec![Rng::From(db.dir_from), Rng::Range(db.dir_from, announced)];
        for n in db.dir_from..=announced {
            v.push(Rng::Range(n, n));
        }
        return v;
    }
    let mut ranges = all_ranges(announced);
    if honest_case {
        ranges.extend(invalid_ranges(announced));
    }
    ranges
}

fn run_case(w: &Worker, h: &Honest, case: &Case) -> Report {
    let mut rep = Report::new("exploration", "");
    let st = apply(h, &case.ops);
    let ranges = ranges_for(&h.db, st.announced, case.ops.is_empty());
    let mut snapshot = h.snapshot.clone();
    snapshot.beacon.immutable_file_number = st.announced;
    let snapshot = &snapshot;
    let db_dir = materialize(w, h, &st);
    set_mirror(w, &st);
    let honest_case = case.ops.is_empty();
    let cdb = w.client.cardano_database_v2();
    let replay_of = |r: Option<Rng>, a: Option<bool>| {
        serde_json::to_value(Case { db: case.db.clone(), ops: case.ops.clone(), range: r, allow_missing: a }).unwrap()
    };

    // step 1 — the digest list
    let dl = catch(|| w.rt.block_on(cdb.download_and_verify_digests(&h.certificate, snapshot)));
    let verified = match dl {
        Err(p) => {
            rep.eval();
            rep.outcome("digest-list:panic");
            rep.add_extra("panics_observed", 1);
            if honest_case {
                rep.violation(
                    "C10/honest-digest-list-rejected",
                    format!("download_and_verify_digests panicked ({p} at {}) on the honest list; {}", mc_core::last_panic_location(), describe(case)),
                    replay_of(None, None),
                );
            }
            return rep;
        }
        Ok(Err(e)) => {
            rep.eval();
            let msg = format!("{e:#}");
            rep.outcome(if msg.contains("does not match the computed message") { "digest-list:rejected(root not signed)" } else { "digest-list:rejected(unusable)" });
            rep.nontrivial(&("list-rejected", &case.db, &case.ops));
            rep.sample(json!({"case": replay_of(None, None), "outcome": format!("digest list rejected: {msg}")}));
            if honest_case {
                rep.violation(
                    if h.db.last >= 100_000 { "C10/signed-leaves-ordered-by-name-string-not-by-number" } else { "C10/honest-digest-list-rejected" },
                    format!("download_and_verify_digests refuses the honest list: {msg}; {}", describe(case)),
                    replay_of(None, None),
                );
            }
            return rep;
        }
        Ok(Ok(v)) => v,
    };
    rep.outcome("digest-list:accepted");
    // clause 1: what the client retained is the signed leaf sequence
    // (the root of the client's tree is the signed one and the retained digests are the signed ones;
    // in which order the client's map iterates over them is its own business)
    let mut retained: Vec<String> = verified.digests.values().cloned().collect();
    retained.sort();
    let mut signed_sorted = h.digests.clone();
    signed_sorted.sort();
    let tree_root = verified.merkle_tree.compute_root().map(|r| r.to_hex()).unwrap_or_default();
    if retained != signed_sorted || tree_root != h.root_hex {
        rep.eval();
        rep.violation(
            "C10/digest-list-not-reproducing-signed-root-accepted",
            format!(
                "download_and_verify_digests accepted a list whose retained digests {} (tree root {tree_root}) are not the signed sequence (root {}); {}",
                format!("{:?}", verified.digests).chars().take(600).collect::<String>(), h.root_hex, describe(case)
            ),
            replay_of(None, None),
        );
    }

    // step 2..4 — the directory, for every range and both settings of allow_missing
    for &r in &ranges {
        for allow in [false, true] {
            if case.range.is_some_and(|x| x != r) || case.allow_missing.is_some_and(|x| x != allow) {
                continue;
            }
            rep.eval();
            let reference = r.reference(st.announced);
            let res = catch(|| {
                w.rt.block_on(async {
                    let proof = cdb
                        .verify_cardano_database(&h.certificate, snapshot, &r.real(), allow, &db_dir, &verified)
                        .await?;
                    let msg = MessageBuilder::new().compute_cardano_database_message(&h.certificate, &proof).await;
                    Ok::<_, CardanoDatabaseVerificationError>(msg.map(|m| h.certificate.match_message(&m)))
                })
            });
            let (accepted, label): (bool, String) = match &res {
                Err(_) => {
                    rep.add_extra("panics_observed", 1);
                    (false, "panic".into())
                }
                Ok(Ok(Ok(true))) => (true, "accepted".into()),
                Ok(Ok(Ok(false))) => (false, "verified-but-message-differs".into()),
                Ok(Ok(Err(_))) => (false, "verified-but-message-not-computable".into()),
                Ok(Err(e)) => (
                    false,
                    match e {
                        CardanoDatabaseVerificationError::ImmutableFilesVerification(l) => {
                            let mut parts = vec![];
                            if !l.missing.is_empty() {
                                parts.push("missing");
                            }
                            if !l.tampered.is_empty() {
                                parts.push("tampered");
                            }
                            if !l.non_verifiable.is_empty() {
                                parts.push("non-verifiable");
                            }
                            if parts.is_empty() {
                                rep.add_extra("rejections_naming_no_file", 1);
                                "rejected(no file named)".to_string()
                            } else {
                                format!("rejected({})", parts.join("+"))
                            }
                        }
                        CardanoDatabaseVerificationError::DigestsComputation(_) => "rejected(digests computation)".into(),
                        CardanoDatabaseVerificationError::MerkleProofVerification(_) => {
                            rep.add_extra("rejections_naming_no_file", 1);
                            "rejected(merkle proof verification)".into()
                        }
                        CardanoDatabaseVerificationError::ImmutableFilesRangeCreation(_) => "rejected(range)".into(),
                    },
                ),
            };
            let Some(bounds) = reference else {
                // not a range of this database: no verdict, only an observation
                rep.outcome(&format!("invalid-range:{label}"));
                continue;
            };
            rep.nontrivial(&(&case.db, &case.ops, r, allow));
            if !accepted {
                rep.outcome(&label);
            }
            if accepted {
                let verdict = judge_accepted(h, &st, &verified.digests, bounds, allow);
                rep.outcome(match (&verdict, honest_case) {
                    (Some(_), _) => "accepted(uncertified content or name: reported)",
                    (None, true) => "accepted(untampered)",
                    (None, false) => "accepted(tampering harmless for this range)",
                });
                if let Some((key, what)) = verdict {
                    rep.violation(
                        key,
                        format!(
                            "{what}. Range {r:?} (numbers {}..={}), allow_missing={allow}; {}; directory now: {}",
                            bounds.0,
                            bounds.1,
                            describe(case),
                            dir_summary(h, &st)
                        ),
                        replay_of(Some(r), Some(allow)),
                    );
                } else if !honest_case && rep.samples.len() < 1 && !case.ops.is_empty() {
                    rep.sample(json!({"case": replay_of(Some(r), Some(allow)), "outcome": label}));
                }
            } else if honest_case {
                let detail = match &res {
                    Ok(Err(e)) => format!("{e}"),
                    Err(p) => format!("panic {p} at {}", mc_core::last_panic_location()),
                    _ => label.clone(),
                };
                let key = if h.db.dup { "C10/honest-database-with-equal-files-rejected" } else { "C10/honest-database-rejected" };
                rep.violation(
                    key,
                    format!("the untampered directory with the honest list is not accepted for range {r:?}, allow_missing={allow}: {label}: {detail}; {}", describe(case)),
                    replay_of(Some(r), Some(allow)),
                );
            } else if rep.samples.len() < 1 {
                rep.sample(json!({"case": replay_of(Some(r), Some(allow)), "outcome": label}));
            }
        }
    }
    rep
}

fn dir_summary(h: &Honest, st: &State) -> String {
    let mut parts = vec![];
    for (n, c) in &st.dir {
        let d = sha_hex(c);
        let what = if h.digest_of.get(n) == Some(&d) || h.next_digest_of.get(n) == Some(&d) {
            continue;
        } else if let Some((owner, _)) = h.digest_of.iter().find(|(_, v)| **v == d) {
            format!("{n}=bytes of {owner}")
        } else {
            format!("{n}=uncertified bytes {}", hex::encode(c))
        };
        parts.push(what);
    }
    for n in h.files.keys() {
        if !st.dir.contains_key(n) {
            parts.push(format!("{n} absent"));
        }
    }
    if parts.is_empty() { "as certified".into() } else { parts.join(", ") }
}

// ───────────────────────────── the enumerated space ─────────────────────────────

fn aliases(n: u64, t: usize) -> Vec<String> {
    vec![format!("{n}.{}", TYPES[t]), format!("{n:06}.{}", TYPES[t])]
}

fn dir_singles(h: &Honest, reduced: bool) -> Vec<DirOp> {
    let c = &h.names;
    let mut v = vec![];
    for f in c {
        let len = h.files[f].len();
        let bytes: Vec<usize> = if reduced { vec![0] } else { (0..len).collect() };
        for b in bytes {
            v.push(DirOp::Flip { file: f.clone(), byte: b });
        }
        v.push(DirOp::Truncate { file: f.clone(), len: len - 1 });
        if !reduced {
            v.push(DirOp::Truncate { file: f.clone(), len: len / 2 });
            v.push(DirOp::Append { file: f.clone() });
        }
        v.push(DirOp::Truncate { file: f.clone(), len: 0 });
        v.push(DirOp::Fresh { file: f.clone() });
        v.push(DirOp::Delete { file: f.clone() });
    }
    for (i, a) in c.iter().enumerate() {
        for (j, b) in c.iter().enumerate() {
            if i < j {
                v.push(DirOp::Swap { a: a.clone(), b: b.clone() });
            }
            if i != j {
                v.push(DirOp::Copy { from: a.clone(), to: b.clone() });
            }
        }
    }
    if h.db.next_trio && !reduced {
        for f in &h.next_names {
            for to in c {
                v.push(DirOp::Copy { from: f.clone(), to: to.clone() });
            }
        }
        for from in c.iter().take(1) {
            for f in &h.next_names {
                v.push(DirOp::Copy { from: from.clone(), to: f.clone() });
            }
        }
    }
    // files under names the list does not know: other spellings of a number of the range
    for n in 0..=h.db.last {
        for t in 0..3 {
            for (k, alias) in aliases(n, t).into_iter().enumerate() {
                if reduced && k > 0 {
                    continue;
                }
                let srcs: Vec<&String> = if reduced { vec![&c[0]] } else { c.iter().collect() };
                for from in srcs {
                    v.push(DirOp::Copy { from: from.clone(), to: alias.clone() });
                }
                v.push(DirOp::Fresh { file: alias.clone() });
                v.push(DirOp::Move { from: std_name(n, t), to: alias.clone() });
            }
        }
    }
    // beyond the beacon and not-immutable entries: outside the property's domain, must not disturb
    let beyond = std_name(h.db.last + 2, 0);
    v.push(DirOp::Fresh { file: beyond.clone() });
    v.push(DirOp::Copy { from: c[0].clone(), to: beyond });
    v.push(DirOp::Fresh { file: "README".into() });
    v.push(DirOp::Fresh { file: "00000.txt".into() });
    v.push(DirOp::Copy { from: c[0].clone(), to: "00000.chunk.bak".into() });
    for a in 0..=h.db.last {
        for b in 0..=h.db.last {
            if a < b {
                v.push(DirOp::SwapTrio { a, b });
            }
            if a != b {
                v.push(DirOp::CopyTrio { from: a, to: b });
            }
        }
    }
    if h.db.next_trio {
        v.push(DirOp::CopyTrio { from: h.db.last + 1, to: h.db.last });
    }
    if !reduced {
        // entries that are not regular files
        for (i, f) in c.iter().enumerate() {
            v.push(DirOp::SymlinkForeign { file: f.clone() });
            v.push(DirOp::SymlinkOwnCopy { file: f.clone() });
            v.push(DirOp::DirectoryInPlace { file: f.clone() });
            let other = &c[(i + 1) % c.len()];
            if other != f {
                v.push(DirOp::SymlinkSibling { file: f.clone(), to: other.clone() });
            }
            if h.db.next_trio {
                v.push(DirOp::SymlinkSibling { file: f.clone(), to: h.next_names[i % 3].clone() });
            }
        }
        for honest_at_root in [false, true] {
            v.push(DirOp::DbNamedImmutable { honest_at_root });
        }
    }
    v
}

fn list_singles(h: &Honest, reduced: bool) -> Vec<ListOp> {
    let c = &h.names;
    let mut v = vec![];
    for (i, f) in c.iter().enumerate() {
        let n = entry_number(f).unwrap();
        let t = i % 3;
        let other = &c[(i + 1) % c.len()];
        let mut tos = vec![
            format!("{n}.{}", TYPES[t]),
            format!("{n:05}.{}x", TYPES[t]),
            std_name(h.db.last + 2, t),
            format!("abc.{}", TYPES[t]),
        ];
        // names whose last path component is canonical
        tos.push(format!("x/{f}"));
        tos.push(format!("./{f}"));
        if !reduced {
            tos.push(format!("/{f}"));
            tos.push(format!("{f}/"));
            tos.push(format!("{f}/."));
            tos.push(format!("../{f}"));
            tos.push(format!("{n:06}.{}", TYPES[t]));
            tos.push(format!("{n:05}"));
            if other != f {
                tos.push(other.clone());
            }
        }
        for to in tos {
            v.push(ListOp::Rename { from: f.clone(), to });
        }
        v.push(ListOp::Drop { name: f.clone() });
        let others: Vec<&String> = if reduced { vec![other] } else { c.iter().filter(|x| *x != f).collect() };
        for o in others {
            if o != f {
                v.push(ListOp::SetDigest { name: f.clone(), digest: Dg::Of(o.clone()) });
            }
        }
        v.push(ListOp::SetDigest { name: f.clone(), digest: Dg::Fresh(f.clone()) });
        if !reduced {
            v.push(ListOp::SetDigest { name: f.clone(), digest: Dg::Text(String::new()) });
            v.push(ListOp::SetDigest { name: f.clone(), digest: Dg::Text("zz".into()) });
            v.push(ListOp::SetDigest { name: f.clone(), digest: Dg::Text(h.digest_of[f].to_uppercase()) });
            if h.db.next_trio || h.db.list_beyond {
                v.push(ListOp::SetDigest { name: f.clone(), digest: Dg::Of(h.next_names[t].clone()) });
            }
        }
        // a second entry under the same name
        v.push(ListOp::Add { name: f.clone(), digest: Dg::Fresh(f.clone()) });
        if !reduced {
            v.push(ListOp::Add { name: f.clone(), digest: Dg::Of(f.clone()) });
            if other != f {
                v.push(ListOp::Add { name: f.clone(), digest: Dg::Of(other.clone()) });
            }
        }
        // a foreign entry under another spelling of the number
        v.push(ListOp::Add { name: format!("{n}.{}", TYPES[t]), digest: Dg::Of(f.clone()) });
        if !reduced {
            v.push(ListOp::Add { name: format!("x/{f}"), digest: Dg::Of(f.clone()) });
            v.push(ListOp::Add { name: format!("./{f}"), digest: Dg::Fresh(f.clone()) });
        }
        if !reduced {
            v.push(ListOp::Add { name: format!("{n}.{}", TYPES[t]), digest: Dg::Fresh(f.clone()) });
            v.push(ListOp::Add { name: format!("{n:05}.{}x", TYPES[t]), digest: Dg::Fresh(f.clone()) });
        }
    }
    if h.db.list_beyond {
        for f in &h.next_names {
            v.push(ListOp::Drop { name: f.clone() });
            v.push(ListOp::SetDigest { name: f.clone(), digest: Dg::Fresh(f.clone()) });
        }
    }
    v.push(ListOp::Add { name: std_name(h.db.last + 2, 0), digest: Dg::Fresh("beyond".into()) });
    v.push(ListOp::Add { name: "abc.chunk".into(), digest: Dg::Fresh("abc".into()) });
    v.push(ListOp::Add { name: String::new(), digest: Dg::Fresh("empty".into()) });
    for (i, a) in c.iter().enumerate() {
        for (j, b) in c.iter().enumerate() {
            if i < j && (!reduced || j == i + 1) {
                v.push(ListOp::SwapDigests { a: a.clone(), b: b.clone() });
            }
        }
    }
    v.push(ListOp::ShiftTrios { by: 1 });
    v.push(ListOp::RelabelInStringOrder);
    v.push(ListOp::Reverse);
    v.push(ListOp::Rotate);
    let len = h.list.len();
    for i in 0..len {
        for j in i + 1..len {
            if !reduced || j == i + 1 {
                v.push(ListOp::Transpose { i, j });
            }
        }
    }
    for k in [RawKind::NotJson, RawKind::EmptyFile, RawKind::EmptyArray, RawKind::ObjectInsteadOfArray, RawKind::DownloadFails, RawKind::TwoFiles] {
        v.push(ListOp::Raw(k));
    }
    v
}

/// names a hostile mirror may attach to the signed digest sequence: the canonical ones plus other
/// spellings / other extensions that sort before, between and after them
fn relabel_pool(last: u64) -> Vec<String> {
    let mut v = vec![];
    for n in 0..=last {
        for t in 0..3 {
            v.push(std_name(n, t));
            v.push(format!("{n}.{}", TYPES[t]));
            // inert names: the last path component is canonical, no file can ever bear them
            v.push(format!("./{}", std_name(n, t)));
            v.push(format!("x/{}", std_name(n, t)));
        }
        v.push(format!("{n:05}.aaa"));
        v.push(format!("{n:05}.d"));
        v.push(format!("{n:05}.q"));
        v.push(format!("{n:05}.zzz"));
    }
    v
}

/// multi-step tamperings a hostile mirror would make consistently (directory and list together)
fn hostile_families(h: &Honest) -> Vec<Vec<Op>> {
    let c = &h.names;
    let mut v: Vec<Vec<Op>> = vec![];
    for f in c {
        v.push(vec![Op::Dir(DirOp::Fresh { file: f.clone() }), Op::List(ListOp::SetDigest { name: f.clone(), digest: Dg::Dir(f.clone()) })]);
        v.push(vec![Op::Dir(DirOp::Flip { file: f.clone(), byte: 0 }), Op::List(ListOp::SetDigest { name: f.clone(), digest: Dg::Dir(f.clone()) })]);
        v.push(vec![Op::Dir(DirOp::Delete { file: f.clone() }), Op::List(ListOp::Drop { name: f.clone() })]);
        for first in [true, false] {
            v.push(vec![Op::Dir(DirOp::Decoy { parent: "ledger".into(), first }), Op::Dir(DirOp::Fresh { file: f.clone() })]);
            v.push(vec![Op::Dir(DirOp::Decoy { parent: "ledger".into(), first }), Op::Dir(DirOp::Delete { file: f.clone() })]);
        }
    }
    for first in [true, false] {
        v.push(vec![Op::Dir(DirOp::Decoy { parent: "ledger".into(), first })]);
    }
    // the database directory is itself named `immutable`
    for honest_at_root in [true, false] {
        for f in c {
            v.push(vec![Op::Dir(DirOp::DbNamedImmutable { honest_at_root }), Op::Dir(DirOp::Fresh { file: f.clone() })]);
            v.push(vec![Op::Dir(DirOp::DbNamedImmutable { honest_at_root }), Op::Dir(DirOp::Delete { file: f.clone() })]);
        }
        v.push(vec![Op::Dir(DirOp::DbNamedImmutable { honest_at_root }), Op::Dir(DirOp::Decoy { parent: "ledger".into(), first: false })]);
    }
    // the snapshot message announces another beacon than the certified one (with the honest list,
    // with the list renamed to the next trios, with the directory conforming to it)
    let l = h.db.last;
    let mut announced = vec![l + 1, l + 2];
    if l >= 1 {
        announced.push(l - 1);
    }
    for a in announced {
        v.push(vec![Op::AnnounceBeacon(a)]);
        v.push(vec![Op::AnnounceBeacon(a), Op::Dir(DirOp::ConformToList)]);
        if a > l {
            let by = a - l;
            v.push(vec![Op::AnnounceBeacon(a), Op::List(ListOp::ShiftTrios { by })]);
            v.push(vec![Op::AnnounceBeacon(a), Op::List(ListOp::ShiftTrios { by }), Op::Dir(DirOp::ConformToList)]);
        }
        for f in c.iter().take(3) {
            v.push(vec![Op::AnnounceBeacon(a), Op::Dir(DirOp::Fresh { file: f.clone() })]);
        }
    }
    for (i, a) in c.iter().enumerate() {
        for (j, b) in c.iter().enumerate() {
            if i < j {
                v.push(vec![Op::Dir(DirOp::Swap { a: a.clone(), b: b.clone() }), Op::List(ListOp::SwapDigests { a: a.clone(), b: b.clone() })]);
            }
            if i != j {
                v.push(vec![Op::Dir(DirOp::Copy { from: a.clone(), to: b.clone() }), Op::List(ListOp::SetDigest { name: b.clone(), digest: Dg::Of(a.clone()) })]);
            }
        }
    }
    // re-labelled lists: every choice of names from the pool for one trio, every "drop one canonical
    // name, insert one foreign name" shift for larger databases; with the honest directory and with
    // the directory the mirror would ship along with such a list
    let pool = relabel_pool(h.db.last);
    let k = c.len();
    let mut relabelings: Vec<Vec<String>> = vec![];
    if h.db.last == 0 {
        for mask in mc_core::subsets(pool.len()) {
            if mask.count_ones() as usize == k {
                relabelings.push(pool.iter().enumerate().filter(|(i, _)| mask >> i & 1 == 1).map(|(_, n)| n.clone()).collect());
            }
        }
    } else {
        for drop in c {
            for ins in pool.iter().filter(|p| !c.contains(p)) {
                let mut names: Vec<String> = c.iter().filter(|x| *x != drop).cloned().collect();
                names.push(ins.clone());
                relabelings.push(names);
            }
        }
    }
    for names in relabelings {
        let mut sorted = names.clone();
        sorted.sort();
        if sorted == *c {
            continue;
        }
        v.push(vec![Op::List(ListOp::Relabel { names: names.clone() })]);
        v.push(vec![Op::List(ListOp::Relabel { names }), Op::Dir(DirOp::ConformToList)]);
    }
    v
}

/// the database of more than 99999 trios: the honest case, and the list whose canonical names carry
/// the signed digests in the order of the names as strings, with the directory conforming to it
fn cases_for_many_trios(db: &Db) -> Vec<Case> {
    let mk = |ops: Vec<Op>| Case { db: db.clone(), ops, range: None, allow_missing: None };
    vec![
        mk(vec![]),
        mk(vec![Op::List(ListOp::RelabelInStringOrder)]),
        mk(vec![Op::List(ListOp::RelabelInStringOrder), Op::Dir(DirOp::ConformToList)]),
        mk(vec![Op::Dir(DirOp::Swap { a: std_name(db.last - 1, 0), b: std_name(db.last, 0) })]),
    ]
}

fn cases_for(db: &Db, h: &Honest, depth2: bool) -> Vec<Case> {
    let mk = |ops: Vec<Op>| Case { db: db.clone(), ops, range: None, allow_missing: None };
    let mut v = vec![mk(vec![])];
    for d in dir_singles(h, false) {
        v.push(mk(vec![Op::Dir(d)]));
    }
    for l in list_singles(h, false) {
        v.push(mk(vec![Op::List(l)]));
    }
    if !db.dup {
        for f in hostile_families(h) {
            v.push(mk(f));
        }
    }
    if depth2 {
        let ds = dir_singles(h, true);
        let ls = list_singles(h, true);
        for (i, a) in ds.iter().enumerate() {
            for b in ds.iter().skip(i + 1) {
                v.push(mk(vec![Op::Dir(a.clone()), Op::Dir(b.clone())]));
                // the order matters for copy/swap chains
                if matches!(a, DirOp::Copy { .. } | DirOp::Swap { .. } | DirOp::Move { .. }) || matches!(b, DirOp::Copy { .. } | DirOp::Swap { .. } | DirOp::Move { .. }) {
                    v.push(mk(vec![Op::Dir(b.clone()), Op::Dir(a.clone())]));
                }
            }
        }
        for a in &ds {
            for b in &ls {
                v.push(mk(vec![Op::Dir(a.clone()), Op::List(b.clone())]));
            }
        }
        for (i, a) in ls.iter().enumerate() {
            for b in ls.iter().skip(i + 1) {
                v.push(mk(vec![Op::List(a.clone()), Op::List(b.clone())]));
            }
        }
    }
    v
}

// ───────────────────────────── start-up self-check ─────────────────────────────

/// the harness' own digests and root must be what the real digester (the one signers and the
/// aggregator run) produces on the untampered directory
fn self_check(w: &Worker, h: &Honest) -> Result<(), String> {
    let st = apply(h, &[]);
    let db_dir = materialize(w, h, &st);
    let logger = slog::Logger::root(slog::Discard, slog::o!());
    let digester = CardanoImmutableDigester::new(None, logger);
    let beacon = h.snapshot.beacon.clone();
    let (tree, entries) = w.rt.block_on(async {
        let tree = digester.compute_merkle_tree(&db_dir, &beacon).await.map_err(|e| format!("compute_merkle_tree: {e:?}"))?;
        let entries =
            digester.compute_digests_for_range(&db_dir, &(0..=h.db.last)).await.map_err(|e| format!("compute_digests_for_range: {e:?}"))?;
        Ok::<_, String>((tree, entries))
    })?;
    let root = tree.compute_root().map_err(|e| format!("{e:?}"))?.to_hex();
    if root != h.root_hex {
        return Err(format!("harness root {} differs from the real digester's root {root} for {:?}", h.root_hex, h.db));
    }
    let real: Vec<(String, String)> = entries.entries.iter().map(|(f, d)| (f.filename.clone(), d.clone())).collect();
    let mine: Vec<(String, String)> = h.names.iter().map(|n| (n.clone(), h.digest_of[n].clone())).collect();
    if real != mine {
        return Err(format!("harness digests {mine:?} differ from the real digester's {real:?}"));
    }
    Ok(())
}

// ───────────────────────────── driver ─────────────────────────────

struct Pool {
    free: Mutex<Vec<Worker>>,
}

impl Pool {
    fn with<T>(&self, f: impl FnOnce(&Worker) -> T) -> T {
        let w = self.free.lock().unwrap().pop().expect("one worker per thread");
        let out = f(&w);
        self.free.lock().unwrap().push(w);
        out
    }
}

pub fn run(ctx: &Ctx) -> ! {
    let scratch = ctx.scratch();
    // the client puts the downloaded digest file under std::env::temp_dir(): keep it on our tmpfs.
    // Done before any thread exists.
    let tmp = scratch.join("tmp");
    std::fs::create_dir_all(&tmp).expect("tmp dir");
    unsafe {
        std::env::set_var("TMPDIR", &tmp);
    }

    let mut rep = Report::new(
        "exploration",
        "every database of the size lattice x every tampering of the restored directory and of the served digest list \
         (all single structural deviations, the hostile-mirror families that change both consistently; thorough: all pairs \
         from the reduced alphabets) x every valid range (Full, From, UpTo, Range) x allow_missing on/off is pushed through \
         the real client (download_and_verify_digests, verify_cardano_database, compute_cardano_database_message, \
         match_message); a case is non-trivial when the digest list step was decided on a tampered or honest list and, if \
         accepted, the directory step ran for a valid range; distinct = distinct (database, tampering, range, allow_missing)",
    );
    let threads = ctx.threads().max(1);

    // one client per worker thread, each with its own mirror, runtime, directory and digest temp dir
    let mut workers = vec![];
    let mut seen_tmp: BTreeSet<PathBuf> = BTreeSet::new();
    let probe_db = Db { last: 0, next_trio: true, list_beyond: false, dup: false, dir_from: 0 };
    let probe_h = Honest::new(&probe_db);
    for i in 0..threads {
        let mut tries = 0;
        loop {
            let w = new_worker(scratch.join(format!("w{i}")));
            set_mirror(&w, &apply(&probe_h, &[]));
            // only where the client wants the digest file matters here, not what it makes of it
            let res = catch(|| w.rt.block_on(w.client.cardano_database_v2().download_and_verify_digests(&probe_h.certificate, &probe_h.snapshot)));
            let target = w.mirror.last_target.lock().unwrap().clone();
            match target {
                Some(t) if t.starts_with(&tmp) && seen_tmp.insert(t.clone()) => {
                    workers.push(w);
                    break;
                }
                // two clients built within the same microsecond share a temp dir name: rebuild
                Some(_) if tries < 20 => tries += 1,
                t => {
                    rep.machinery_error(format!(
                        "cannot set up worker {i}: digest target {t:?} (expected a fresh directory under {}), probe result {:?}",
                        tmp.display(),
                        res.map(|r| r.map(|_| ()).map_err(|e| format!("{e:#}")))
                    ));
                    rep.finish(ctx);
                }
            }
        }
    }
    let pool = Pool { free: Mutex::new(workers) };

    // replay of one stored case
    if let Some(path) = &ctx.replay {
        let v = mc_core::load_replay(path);
        let case: Case = match serde_json::from_value(v) {
            Ok(c) => c,
            Err(e) => {
                rep.machinery_error(format!("replay file does not hold a C10 case: {e}"));
                rep.finish(ctx);
            }
        };
        let h = Honest::new(&case.db);
        let r = pool.with(|w| run_case(w, &h, &case));
        rep.merge(r);
        let honest = Case { db: case.db.clone(), ops: vec![], range: None, allow_missing: None };
        let r = pool.with(|w| run_case(w, &h, &honest));
        rep.merge(r);
        rep.finish(ctx);
    }

    // the database lattice
    let (max_last, depth2_max_last): (u64, Option<u64>) = ctx.tier.pick((2, None), (3, Some(2)));
    let mut dbs = vec![];
    for last in 0..=max_last {
        for (next_trio, list_beyond) in [(false, false), (true, false), (true, true), (false, true)] {
            dbs.push(Db { last, next_trio, list_beyond, dup: false, dir_from: 0 });
        }
    }
    dbs.push(Db { last: 1, next_trio: true, list_beyond: true, dup: true, dir_from: 0 });
    if max_last >= 2 {
        dbs.push(Db { last: 2, next_trio: true, list_beyond: false, dup: true, dir_from: 0 });
    }
    if ctx.tier == mc_core::Tier::Thorough {
        // 100001 trios: names of six digits sort, as strings, before names of five digits. Only the
        // last two trios are restored (a partial restoration), the list and the tree are complete.
        dbs.push(Db { last: 100_000, next_trio: false, list_beyond: false, dup: false, dir_from: 99_999 });
    }
    let honests: Vec<Honest> = dbs.iter().map(Honest::new).collect();

    // self-check of the harness' independent digests/root against the real digester
    // (not fatal: when the tree under test changes the digester, the harness' own digests remain
    // the reference for "the certified file" and the client's verdicts below are judged against
    // them; the difference is recorded in the evidence)
    let mut self_check_differences = vec![];
    for h in honests.iter().filter(|h| h.db.dir_from == 0) {
        if let Err(e) = pool.with(|w| self_check(w, h)) {
            self_check_differences.push(e.chars().take(400).collect::<String>());
        }
    }
    if self_check_differences.is_empty() {
        rep.extra("self_check", json!(format!("independent SHA-256 digests and MKTree root equal CardanoImmutableDigester::compute_merkle_tree / compute_digests_for_range on {} untampered directories", honests.len())));
    } else {
        eprintln!("[C10] the real digester disagrees with the independent SHA-256 reference on {} untampered directories; verdicts are judged against the reference", self_check_differences.len());
        rep.extra("self_check", json!({"real_digester_differs_from_independent_reference_on": self_check_differences.len(), "first": self_check_differences.first()}));
    }

    let mut work: Vec<(usize, Case)> = vec![];
    let mut per_db = vec![];
    for (i, h) in honests.iter().enumerate() {
        let depth2 = depth2_max_last.is_some_and(|m| h.db.last <= m) && h.db.next_trio && !h.db.list_beyond && !h.db.dup;
        let cs = if h.db.dir_from > 0 { cases_for_many_trios(&h.db) } else { cases_for(&h.db, h, depth2) };
        per_db.push(json!({"db": h.db, "tamperings": cs.len(), "pairs_included": depth2, "valid_ranges": ranges_for(&h.db, h.db.last, false).len()}));
        for c in cs {
            work.push((i, c));
        }
    }
    // VERIF_SEED permutes the order of execution only
    if ctx.seed != 0 {
        work.sort_by_key(|(i, c)| mc_core::mix(ctx.seed, mc_core::hash64(&(i, &c.ops))));
    }
    rep.extra("databases", json!(per_db));
    rep.extra("tamperings_total", json!(work.len()));
    rep.extra(
        "bounds",
        json!({
            "certified_trios": format!("1..={}", max_last + 1),
            "file_sizes_bytes": "4..=8",
            "simultaneous_deviations": if depth2_max_last.is_some() { "1, hostile-mirror families, and all pairs (reduced alphabets) for databases of <= 3 trios" } else { "1 and hostile-mirror families" },
        }),
    );

    let parts = par_map(&work, threads, |_, (i, case)| {
        let h = &honests[*i];
        pool.with(|w| run_case(w, h, case))
    });
    // samples: evenly spaced over the enumeration instead of its first few members
    let mut all_samples = vec![];
    for mut p in parts {
        all_samples.append(&mut p.samples);
        rep.merge(p);
    }
    let step = (all_samples.len() / rep.max_samples).max(1);
    for s in all_samples.into_iter().step_by(step) {
        rep.sample(s);
    }
    let unexpected: u64 = pool.free.lock().unwrap().iter().map(|w| w.mirror.unexpected.load(Ordering::Relaxed)).sum();
    if unexpected > 0 {
        rep.machinery_error(format!("the mirror double was asked {unexpected} times for something that is not the plain digest file"));
    }
    let calls: u64 = pool.free.lock().unwrap().iter().map(|w| w.mirror.calls.load(Ordering::Relaxed)).sum();
    rep.extra("digest_downloads_served", json!(calls));
    rep.assume("the certificate handed to the client is the validated one (chain validation is C03); its signed message is ProtocolMessage::compute_hash over parts that include the honest Merkle root");
    rep.assume("MKTree / SHA-256 are collision free on the enumerated values (C09 covers the tree); 'the list reproduces the signed root' is judged as: the digest sequence the client retained equals the signed sequence");
    rep.assume("an 'immutable file of the range' is a directory entry of <db>/immutable with extension chunk|primary|secondary whose stem is a plain decimal number inside the range; other entries carry no obligation");
    rep.assume("beyond the letter of the quantifier, one unsigned field of the snapshot message (the announced beacon, +1/+2/-1) is tampered in a dedicated family; ranges are then read against the announced beacon and files numbered above the certified beacon count as uncertified");
    rep.assume("a symbolic link in place of an immutable file is judged by the bytes that reading it yields (what a Cardano node gets); a directory in its place is an absent file");
    rep.assume("directories live on tmpfs; the client's digest temp dir is redirected there through TMPDIR");
    rep.finish(ctx)
}
