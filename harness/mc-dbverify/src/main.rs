//! mc-dbverify: serves C10 (see /verif/DESIGN.md §4)
mod c10;

fn main() {
    let ctx = mc_core::Ctx::from_args();
    mc_core::quiet_panics();
    match ctx.property.as_str() {
        "C10" => c10::run(&ctx),
        other => {
            eprintln!("mc-dbverify does not serve {other}");
            std::process::exit(2);
        }
    }
}
