//! Seam B: the client's `MithrilCertificateVerifier::verify_chain` (mithril-client, feature
//! `unstable`) with the real in-memory verifier cache and a harness `CertificateAggregatorRequest`
//! as the untrusted provider. The only memory between calls is the cache, so a state is the cache
//! content; a transition is one real `verify_chain` call (start certificate, provider behaviour).

use std::collections::{BTreeMap, BTreeSet};
use std::sync::{Arc, Mutex};

use async_trait::async_trait;
use chrono::TimeDelta;
use serde_json::{Value, json};

use mc_core::{Report, catch, hash64, par_map};
use mithril_client::certificate_client::{
    CertificateAggregatorRequest, CertificateVerifier, CertificateVerifierCache, MemoryCertificateVerifierCache,
    MithrilCertificateVerifier,
};
use mithril_client::feedback::{FeedbackReceiver, FeedbackSender, MithrilEvent};
use mithril_client::{MithrilCertificate, MithrilCertificateListItem, MithrilResult};
use mithril_common::entities::{Certificate, ProtocolMessagePartKey};

use crate::oracle::{NodeFacts, node_facts};
use crate::pool::{Origin, World, rehash};
use crate::seam_a::{ChainDefect, Found, block_on, chain_defects, found, logger};

pub const KEY_CACHE: &str = "C03/client-cache-filled-before-parent-validated";
pub const KEY_WRONG_START: &str = "C03/client-returns-certificate-with-another-hash-than-requested";
pub const KEY_CACHE_HIT: &str = "C03/client-cache-hit-skips-check-of-served-certificate";

pub struct MemberB {
    pub cert: Certificate,
    pub msg: MithrilCertificate,
    pub origin: Origin,
    pub honest_base: bool,
}

pub struct PoolB {
    pub genesis_verifier: mithril_common::crypto_helper::GenesisVerifier,
    pub members: Vec<MemberB>,
    pub messages: Arc<Vec<MithrilCertificate>>,
    pub facts: Vec<NodeFacts>,
    pub chain_defect: Vec<Option<ChainDefect>>,
    /// hash field -> default ("honest") answer
    pub default_answer: Arc<BTreeMap<String, usize>>,
    /// all distinct hash fields (cache keys that can ever exist)
    pub hashes: Vec<String>,
}

impl PoolB {
    pub fn label(&self, i: usize) -> String {
        let o = &self.members[i].origin;
        format!("{}[{}]{}", o.chain, o.pos, o.mutation)
    }
    pub fn find(&self, label: &str) -> Option<usize> {
        (0..self.members.len()).find(|i| self.label(*i) == label)
    }
}

/// Pool for the client explorer: honest chains, the adversarial chain, and for every epoch
/// boundary the adversarial chain grafted onto the honest one (with the tampered copies of the
/// honest parent the adversary needs), plus links re-targeted to the following epoch.
pub fn build_pool(w: &World, honest_chains: &[&str], segments: bool, threads: usize) -> PoolB {
    let a = w.chain("A");
    let mut out: Vec<(Certificate, Origin, bool)> = vec![];
    let mut seen = BTreeSet::new();
    let mut push = |out: &mut Vec<(Certificate, Origin, bool)>, c: Certificate, chain: &str, pos: usize, m: String, hb: bool| {
        let key = (c.hash.clone(), c.try_compute_hash().unwrap_or_default());
        if seen.insert(key) {
            out.push((c, Origin { chain: chain.to_string(), pos, mutation: m }, hb));
        }
    };
    for (pos, c) in a.certs.iter().enumerate() {
        push(&mut out, c.clone(), "A", pos, String::new(), false);
    }
    for hname in honest_chains {
        let h = w.chain(hname);
        for (pos, c) in h.certs.iter().enumerate() {
            push(&mut out, c.clone(), hname, pos, String::new(), true);
        }
        // first certificate of each epoch of the honest chain
        let mut first_of_epoch: BTreeMap<u64, usize> = BTreeMap::new();
        for (pos, c) in h.certs.iter().enumerate() {
            first_of_epoch.entry(c.epoch.0).or_insert(pos);
        }
        // grafts: adversarial certificate of epoch e chained to the honest certificate of epoch e-1
        for (apos, ac) in a.certs.iter().enumerate().skip(1) {
            let e = ac.epoch.0;
            let Some(&hpos) = first_of_epoch.get(&(e - 1)) else { continue };
            let hp = &h.certs[hpos];
            // the honest parent altered to commit to the adversary's key and parameters
            let mut t = hp.clone();
            t.protocol_message
                .set_message_part(ProtocolMessagePartKey::NextAggregateVerificationKey, w.parties[a.owner[apos].unwrap()].avk_hex());
            t.protocol_message.set_message_part(
                ProtocolMessagePartKey::NextProtocolParameters,
                ac.metadata.protocol_parameters.compute_hash(),
            );
            t.signed_message = t.protocol_message.compute_hash();
            // ... served under the honest parent's hash (nothing recomputed)
            push(&mut out, t.clone(), hname, hpos, format!("~commits-to:=A[{apos}],hash-kept"), false);
            // ... and with its hash recomputed (the signature cannot be: the adversary lacks the keys)
            let t2 = rehash(t);
            push(&mut out, t2.clone(), hname, hpos, format!("~commits-to:=A[{apos}]"), false);
            for (parent_hash, tag) in [(hp.hash.clone(), format!("{hname}[{hpos}]")), (t2.hash.clone(), format!("({hname}[{hpos}]~commits-to:=A[{apos}])"))] {
                let mut prev = parent_hash;
                for (jpos, jc) in a.certs.iter().enumerate().skip(apos) {
                    let mut g = jc.clone();
                    g.previous_hash = prev.clone();
                    let g = rehash(g);
                    prev = g.hash.clone();
                    push(&mut out, g, "A", jpos, format!("~grafted-at-A[{apos}]-onto:={tag}"), false);
                }
            }
        }
        // adversarial segments of length 2 that cross an epoch boundary, chained to every genuine
        // non-genesis certificate (every hash a warm cache can hold), whatever its epoch
        for (hpos, hc) in h.certs.iter().enumerate().skip(1).filter(|_| segments) {
            for apos in 1..a.certs.len().saturating_sub(1) {
                let mut lower = a.certs[apos].clone();
                lower.previous_hash = hc.hash.clone();
                let lower = rehash(lower);
                let mut upper = a.certs[apos + 1].clone();
                upper.previous_hash = lower.hash.clone();
                let tag = format!("~segment-A[{apos}..{}]-onto:={hname}[{hpos}]", apos + 1);
                push(&mut out, lower, "A", apos, tag.clone(), false);
                push(&mut out, rehash(upper), "A", apos + 1, tag, false);
            }
        }
        // genesis-epoch graft: rewritten unsigned fields of the genesis certificate + an
        // adversary-signed certificate of the genesis epoch chained to it + the adversarial chain on top
        for (cert, chain, pos, m) in crate::pool::genesis_epoch_graft(w, hname).members {
            push(&mut out, cert, &chain, pos, m, false);
        }
        // links re-targeted to the following epoch
        for (pos, c) in h.certs.iter().enumerate().skip(1) {
            if let Some(&npos) = first_of_epoch.get(&(c.epoch.0 + 1)) {
                let mut n = c.clone();
                n.previous_hash = h.certs[npos].hash.clone();
                push(&mut out, rehash(n), hname, pos, format!("~prev:={hname}[{npos}]"), false);
            }
        }
    }
    let members: Vec<MemberB> = out
        .into_iter()
        .map(|(c, origin, honest_base)| {
            let msg: MithrilCertificate = c.clone().try_into().expect("certificate message");
            // what the client will actually see: the certificate rebuilt from the message
            let cert: Certificate = msg.clone().try_into().expect("certificate from message");
            MemberB { cert, msg, origin, honest_base }
        })
        .collect();
    let idx: Vec<usize> = (0..members.len()).collect();
    let facts: Vec<NodeFacts> = par_map(&idx, threads, |_, i| node_facts(&members[*i].cert, &w.genesis_verifier));
    let certs: Vec<&Certificate> = members.iter().map(|m| &m.cert).collect();
    let chain_defect = chain_defects(&certs, &facts);
    let mut default_answer = BTreeMap::new();
    for (i, m) in members.iter().enumerate() {
        if facts[i].hash_ok || !default_answer.contains_key(&m.cert.hash) {
            default_answer.insert(m.cert.hash.clone(), i);
        }
    }
    let hashes: Vec<String> = members.iter().map(|m| m.cert.hash.clone()).collect::<BTreeSet<_>>().into_iter().collect();
    let messages = Arc::new(members.iter().map(|m| m.msg.clone()).collect::<Vec<_>>());
    PoolB { genesis_verifier: w.genesis_verifier.clone(), members, messages, facts, chain_defect, default_answer: Arc::new(default_answer), hashes }
}

#[derive(Clone, Copy, Debug, PartialEq, Eq, Hash, PartialOrd, Ord)]
pub enum Ans {
    Member(usize),
    /// the content of a pool member served under the hash that was requested (its `hash` field
    /// overwritten, nothing recomputed): one certificate disguised as another
    Disguised(usize),
    NotFound,
    Error,
}

/// (request index within the call, answer)
pub type Deviation = (usize, Ans);

#[derive(Clone, Debug, PartialEq, Eq, Hash)]
pub struct Call {
    pub start: usize,
    pub devs: Vec<Deviation>,
}

pub type Cache = Vec<(String, String)>;

struct Provider {
    messages: Arc<Vec<MithrilCertificate>>,
    default_answer: Arc<BTreeMap<String, usize>>,
    devs: Vec<Deviation>,
    log: Mutex<Vec<(String, Ans)>>,
}

#[async_trait]
impl CertificateAggregatorRequest for Provider {
    async fn list_latest(&self) -> MithrilResult<Vec<MithrilCertificateListItem>> {
        Ok(vec![])
    }
    async fn get_by_hash(&self, hash: &str) -> MithrilResult<Option<MithrilCertificate>> {
        let mut log = self.log.lock().unwrap();
        let r = log.len();
        let ans = match self.devs.iter().find(|d| d.0 == r) {
            Some((_, a)) => *a,
            None => self.default_answer.get(hash).map(|i| Ans::Member(*i)).unwrap_or(Ans::NotFound),
        };
        log.push((hash.to_string(), ans));
        match ans {
            Ans::Member(i) => Ok(Some(self.messages[i].clone())),
            Ans::Disguised(i) => {
                let mut m = self.messages[i].clone();
                m.hash = hash.to_string();
                Ok(Some(m))
            }
            Ans::NotFound => Ok(None),
            Ans::Error => Err(anyhow::anyhow!("aggregator unreachable")),
        }
    }
}

#[derive(Default)]
struct Recorder {
    events: Mutex<Vec<(bool, String)>>,
}

#[async_trait]
impl FeedbackReceiver for Recorder {
    async fn handle_event(&self, event: MithrilEvent) {
        match event {
            MithrilEvent::CertificateValidated { certificate_hash, .. } => {
                self.events.lock().unwrap().push((false, certificate_hash))
            }
            MithrilEvent::CertificateFetchedFromCache { certificate_hash, .. } => {
                self.events.lock().unwrap().push((true, certificate_hash))
            }
            _ => {}
        }
    }
}

pub struct CallResult {
    pub ok: bool,
    pub error: String,
    pub panicked: bool,
    /// (requested hash, answer given)
    pub requests: Vec<(String, Ans)>,
    /// (taken from cache?, certificate hash) in order
    pub events: Vec<(bool, String)>,
    pub cache_after: Cache,
}

/// one real `verify_chain` call on a fresh verifier whose cache holds `cache`
pub fn run_call(pool: &PoolB, vkey_hex: &str, cache: &Cache, call: &Call) -> CallResult {
    let provider = Arc::new(Provider {
        messages: pool.messages.clone(),
        default_answer: pool.default_answer.clone(),
        devs: call.devs.clone(),
        log: Mutex::new(vec![]),
    });
    let recorder = Arc::new(Recorder::default());
    let mem_cache = Arc::new(MemoryCertificateVerifierCache::new(TimeDelta::days(3650)));
    let start = pool.members[call.start].msg.clone();
    let r = catch(|| {
        block_on(async {
            for (k, v) in cache {
                mem_cache.store_validated_certificate(k, v).await.expect("cache seed");
            }
            let receivers: Vec<Arc<dyn FeedbackReceiver>> = vec![recorder.clone()];
            let verifier = MithrilCertificateVerifier::new(
                provider.clone(),
                vkey_hex,
                FeedbackSender::new(&receivers),
                Some(mem_cache.clone() as Arc<dyn CertificateVerifierCache>),
                logger(),
            )
            .expect("client verifier");
            verifier.verify_chain(&start).await
        })
    });
    let cache_after: Cache = block_on(async {
        let mut v = vec![];
        for h in &pool.hashes {
            if let Some(p) = mem_cache.get_previous_hash(h).await.expect("cache read") {
                v.push((h.clone(), p));
            }
        }
        v
    });
    let (ok, error, panicked) = match r {
        Ok(Ok(())) => (true, String::new(), false),
        Ok(Err(e)) => (false, format!("{e:#}"), false),
        Err(p) => (false, p, true),
    };
    let requests = provider.log.lock().unwrap().clone();
    let events = recorder.events.lock().unwrap().clone();
    CallResult { ok, error, panicked, requests, events, cache_after }
}

#[derive(Clone, Copy, Debug)]
pub struct Bounds {
    /// verify_chain calls per history
    pub max_calls: usize,
    /// provider deviations (answers differing from the honest one) per history
    pub max_devs: usize,
    /// deviations may also serve any pool member's content under the requested hash
    pub disguised_answers: bool,
}

fn ans_label(pool: &PoolB, a: Ans) -> Value {
    match a {
        Ans::Member(i) => json!(pool.label(i)),
        Ans::Disguised(i) => json!(format!("<under-the-requested-hash>{}", pool.label(i))),
        Ans::NotFound => json!("<not-found>"),
        Ans::Error => json!("<error>"),
    }
}

pub fn history_json(pool: &PoolB, h: &[Call]) -> Value {
    json!(h
        .iter()
        .map(|c| json!({
            "verify_chain": pool.label(c.start),
            "provider_deviations": c.devs.iter().map(|(r, a)| json!({"request": r, "answer": ans_label(pool, *a)})).collect::<Vec<_>>(),
        }))
        .collect::<Vec<_>>())
}

pub fn history_from_json(pool: &PoolB, v: &Value) -> Option<Vec<Call>> {
    let mut out = vec![];
    for c in v.as_array()? {
        let start = pool.find(c["verify_chain"].as_str()?)?;
        let mut devs = vec![];
        for d in c["provider_deviations"].as_array()? {
            let r = d["request"].as_u64()? as usize;
            let a = match d["answer"].as_str()? {
                "<not-found>" => Ans::NotFound,
                "<error>" => Ans::Error,
                l if l.starts_with("<under-the-requested-hash>") => {
                    Ans::Disguised(pool.find(&l["<under-the-requested-hash>".len()..])?)
                }
                l => Ans::Member(pool.find(l)?),
            };
            devs.push((r, a));
        }
        out.push(Call { start, devs });
    }
    Some(out)
}

/// judge one executed call
pub fn judge(pool: &PoolB, res: &CallResult, call: &Call, cache_was_empty: bool) -> Option<(String, String)> {
    let label = pool.label(call.start);
    if res.ok {
        let d = pool.chain_defect[call.start].as_ref()?;
        let from_cache: Vec<&str> = res.events.iter().filter(|e| e.0).map(|e| e.1.as_str()).collect();
        // the defective element (certificate `at`, or the link it carries) was never looked at in
        // this call, because a certificate above it on the chain (or itself) was taken from the
        // verifier cache: the cache vouched for a chain that was never validated down to genesis
        let at_hash = pool.members[d.at].cert.hash.as_str();
        let at_validated_here = res.events.iter().any(|e| !e.0 && e.1 == at_hash);
        // ... unless the common verifier itself accepts the defective element when it is shown the
        // real (hash-resolved) previous certificate: then the cache only repeated its verdict
        let verifier_accepts_defect = {
            let at = &pool.members[d.at].cert;
            let answer = if d.is_node {
                pool.default_answer.get(&at.previous_hash).map(|i| &pool.members[*i].cert)
            } else {
                d.parent.map(|i| &pool.members[i].cert)
            };
            let (out, _) = crate::seam_a::step(&pool.genesis_verifier, at, answer);
            matches!(out, crate::seam_a::StepOutcome::Link { .. } | crate::seam_a::StepOutcome::Terminal)
        };
        let skipped_by_cache = !at_validated_here
            && !verifier_accepts_defect
            && d.path.iter().any(|i| from_cache.contains(&pool.members[*i].cert.hash.as_str()));
        // the link of a certificate validated in this call was judged against a served previous
        // certificate whose own check was then skipped because its hash field is a cache key
        let validated_here = res.events.iter().any(|e| !e.0 && e.1 == pool.members[d.at].cert.hash);
        let parent_hash = pool.members[d.at].cert.previous_hash.as_str();
        let served_content_is_not_the_hashed_one = res.requests.iter().any(|(h, a)| {
            h == parent_hash
                && match a {
                    Ans::Member(i) => !pool.facts[*i].hash_ok,
                    Ans::Disguised(i) => !(pool.facts[*i].hash_ok && pool.members[*i].cert.hash == *h),
                    _ => false,
                }
        });
        let judged_against_unchecked_answer =
            !d.is_node && validated_here && from_cache.contains(&parent_hash) && served_content_is_not_the_hashed_one;
        let key = if skipped_by_cache {
            KEY_CACHE.to_string()
        } else if judged_against_unchecked_answer {
            KEY_CACHE_HIT.to_string()
        } else {
            d.key.clone()
        };
        let short = |h: &str| h.get(..8).unwrap_or(h).to_string();
        return Some((
            key,
            format!(
                "verify_chain({label}) = Ok, but the hash-linked chain of that certificate is invalid: {}. In this call the real code validated {:?} and took {:?} from the verifier cache; hash-linked chain: {:?}",
                d.text,
                res.events.iter().filter(|e| !e.0).map(|e| short(&e.1)).collect::<Vec<_>>(),
                from_cache.iter().map(|h| short(h)).collect::<Vec<_>>(),
                d.path.iter().map(|i| pool.label(*i)).collect::<Vec<_>>(),
            ),
        ));
    }
    if cache_was_empty && call.devs.is_empty() && pool.members[call.start].honest_base {
        return Some((
            "C03/honest-chain-rejected-by-client".into(),
            format!("verify_chain({label}) failed with an empty cache and an honest provider: {}", res.error),
        ));
    }
    None
}

pub struct SeamBResult {
    pub rep: Report,
    pub found: Found,
    pub states: u64,
    pub calls: u64,
}

/// re-run a whole history from an empty cache (used to confirm violations and for --replay)
pub fn run_history(pool: &PoolB, vkey_hex: &str, history: &[Call]) -> (Vec<CallResult>, Cache) {
    let mut cache: Cache = vec![];
    let mut out = vec![];
    for c in history {
        let r = run_call(pool, vkey_hex, &cache, c);
        cache = r.cache_after.clone();
        out.push(r);
    }
    (out, cache)
}

struct StateInfo {
    cache: Cache,
    devs_used: usize,
    history: Vec<Call>,
}

/// all runs of `verify_chain(start)` from `cache` with at most `budget` provider deviations
fn expand_state(
    pool: &PoolB,
    vkey_hex: &str,
    st: &StateInfo,
    start: usize,
    budget: usize,
    disguised_answers: bool,
    rep: &mut Report,
    fnd: &mut Found,
) -> Vec<(Cache, usize, Call)> {
    let mut successors = vec![];
    let n = pool.members.len();
    let mut alternatives: Vec<Ans> = (0..n).map(Ans::Member).collect();
    if disguised_answers {
        // contents that are themselves hash-consistent certificates (a disguised tampered copy
        // adds nothing: the content never matches the hash it is served under anyway)
        alternatives.extend((0..n).filter(|i| pool.facts[*i].hash_ok).map(Ans::Disguised));
    }
    alternatives.push(Ans::NotFound);
    alternatives.push(Ans::Error);
    {
        // depth-first over deviation prefixes
        let mut stack: Vec<Vec<Deviation>> = vec![vec![]];
        while let Some(devs) = stack.pop() {
            let call = Call { start, devs: devs.clone() };
            let res = run_call(pool, vkey_hex, &st.cache, &call);
            rep.eval();
            rep.add_extra("B_verify_chain_calls", 1);
            rep.add_extra("B_certificates_validated_by_real_code", res.events.iter().filter(|e| !e.0).count() as u64);
            rep.add_extra("B_certificates_skipped_through_cache", res.events.iter().filter(|e| e.0).count() as u64);
            if res.panicked {
                rep.add_extra("panics_observed", 1);
            }
            let validated = res.events.iter().filter(|e| !e.0).count();
            let hits = res.events.iter().filter(|e| e.0).count();
            if validated >= 2 || hits >= 1 {
                rep.nontrivial(&("B", hash64(&st.cache), start, &devs));
            }
            rep.outcome(match (res.ok, hits > 0) {
                (true, false) => "B:chain-accepted",
                (true, true) => "B:chain-accepted-using-cache",
                (false, false) => "B:chain-rejected",
                (false, true) => "B:chain-rejected-after-cache-hit",
            });
            if let Some((key, what)) = judge(pool, &res, &call, st.cache.is_empty()) {
                let mut history = st.history.clone();
                history.push(call.clone());
                found(fnd, &key, what, json!({"seam": "B", "history": history_json(pool, &history)}));
            }
            if rep.samples.len() < 2 && res.ok && hits > 0 {
                let mut history = st.history.clone();
                history.push(call.clone());
                rep.sample(json!({"seam": "B", "history": history_json(pool, &history), "outcome": "accepted using the cache"}));
            }
            successors.push((res.cache_after.clone(), st.devs_used + devs.len(), call));
            if devs.len() < budget {
                let from = devs.last().map(|d| d.0 + 1).unwrap_or(0);
                for r in from..res.requests.len() {
                    let given = res.requests[r].1;
                    for alt in &alternatives {
                        if *alt == given {
                            continue;
                        }
                        // a member that already claims the requested hash is not disguised
                        if matches!(alt, Ans::Disguised(i) if pool.members[*i].cert.hash == res.requests[r].0) {
                            continue;
                        }
                        let mut d = devs.clone();
                        d.push((r, *alt));
                        stack.push(d);
                    }
                }
            }
        }
    }
    successors
}

pub fn explore(pool: &PoolB, w: &World, bounds: &Bounds, threads: usize) -> SeamBResult {
    let vkey = w.genesis_vkey_hex.as_str();
    let mut rep = Report::new("model_checking", "");
    let mut all_found: Found = vec![];
    // known states: cache -> least number of deviations it was reached with
    let mut known: BTreeMap<Cache, usize> = BTreeMap::new();
    known.insert(vec![], 0);
    let mut frontier = vec![StateInfo { cache: vec![], devs_used: 0, history: vec![] }];
    let mut calls = 0u64;
    let mut per_depth = vec![];
    for depth in 1..=bounds.max_calls {
        let budget_total = bounds.max_devs;
        let work: Vec<(usize, usize)> =
            (0..frontier.len()).flat_map(|s| (0..pool.members.len()).map(move |c| (s, c))).collect();
        let parts = par_map(&work, threads, |_, &(si, start)| {
            let st = &frontier[si];
            let mut r = Report::new("model_checking", "");
            let mut f: Found = vec![];
            let budget = budget_total.saturating_sub(st.devs_used);
            let succ = expand_state(pool, vkey, st, start, budget, bounds.disguised_answers, &mut r, &mut f);
            (r, f, succ)
        });
        let mut next: Vec<StateInfo> = vec![];
        let mut depth_calls = 0u64;
        for (&(si, _), (r, f, succ)) in work.iter().zip(parts) {
            let st = &frontier[si];
            depth_calls += r.evaluations;
            rep.merge(r);
            all_found.extend(f);
            for (cache, devs_used, call) in succ {
                let better = match known.get(&cache) {
                    None => true,
                    Some(&d) => devs_used < d,
                };
                if better {
                    known.insert(cache.clone(), devs_used);
                    let mut history = st.history.clone();
                    history.push(call);
                    next.retain(|s| s.cache != cache);
                    next.push(StateInfo { cache, devs_used, history });
                }
            }
        }
        calls += depth_calls;
        // the shortcut "re-create the cache through its public API" is validated on the first and the
        // last new state of every depth: replaying the whole history from an empty cache must give
        // exactly the same cache content
        for st in next.first().into_iter().chain(next.last()) {
            let (_, cache) = run_history(pool, vkey, &st.history);
            if cache != st.cache {
                rep.machinery_error(format!("replay divergence: history {} does not reproduce its cache state", history_json(pool, &st.history)));
            }
        }
        per_depth.push(json!({"calls_in_history": depth, "states_expanded": frontier.len(), "verify_chain_calls": depth_calls, "new_cache_states": next.len()}));
        frontier = next;
        if frontier.is_empty() {
            break;
        }
    }
    rep.extra("B_depths", json!(per_depth));
    rep.extra("B_distinct_cache_states", json!(known.len()));
    SeamBResult { rep, found: all_found, states: known.len() as u64, calls }
}


// ------------------------------------------------------------------------------------------------
// Entry point: `CertificateClient::verify_chain(hash)` — the caller names a hash, the (untrusted)
// provider answers the very first request.
// ------------------------------------------------------------------------------------------------

pub const NO_SUCH_HASH: &str = "ffffffffffffffffffffffffffffffffffffffffffffffffffffffffffffffff";

fn requested_label(pool: &PoolB, hash: &str) -> String {
    match pool.default_answer.get(hash) {
        Some(i) => format!("hash-of:{}", pool.label(*i)),
        None => "<hash-of-no-certificate>".to_string(),
    }
}

pub fn requested_from_label(pool: &PoolB, label: &str) -> Option<String> {
    if label == "<hash-of-no-certificate>" {
        return Some(NO_SUCH_HASH.to_string());
    }
    pool.find(label.strip_prefix("hash-of:")?).map(|i| pool.members[i].cert.hash.clone())
}

pub struct EntryResult {
    /// Ok(hash field of the returned certificate)
    pub returned: Result<String, String>,
    pub requests: Vec<(String, Ans)>,
}

/// one real `CertificateClient::verify_chain(requested)` with an empty cache; `first` replaces the
/// honest answer to the first request when given
pub fn run_entry(pool: &PoolB, vkey_hex: &str, requested: &str, first: Option<Ans>) -> EntryResult {
    let provider = Arc::new(Provider {
        messages: pool.messages.clone(),
        default_answer: pool.default_answer.clone(),
        devs: first.map(|a| vec![(0, a)]).unwrap_or_default(),
        log: Mutex::new(vec![]),
    });
    let r = catch(|| {
        block_on(async {
            let cache = Arc::new(MemoryCertificateVerifierCache::new(TimeDelta::days(3650)));
            let verifier = MithrilCertificateVerifier::new(
                provider.clone(),
                vkey_hex,
                FeedbackSender::new(&[]),
                Some(cache as Arc<dyn CertificateVerifierCache>),
                logger(),
            )
            .expect("client verifier");
            let client = mithril_client::certificate_client::CertificateClient::new(
                provider.clone(),
                Arc::new(verifier) as Arc<dyn CertificateVerifier>,
                logger(),
            );
            client.verify_chain(requested).await
        })
    });
    let returned = match r {
        Ok(Ok(c)) => Ok(c.hash),
        Ok(Err(e)) => Err(format!("{e:#}")),
        Err(p) => Err(format!("panic: {p}")),
    };
    EntryResult { returned, requests: provider.log.lock().unwrap().clone() }
}

/// judge one entry-point call: Ok(c) => c is the certificate that was asked for, and its chain is valid
pub fn judge_entry(pool: &PoolB, requested: &str, res: &EntryResult) -> Option<(String, String)> {
    let Ok(returned_hash) = &res.returned else { return None };
    let served = match res.requests.first() {
        Some((_, Ans::Member(i))) | Some((_, Ans::Disguised(i))) => *i,
        _ => return Some(("C03/client-returns-certificate-nobody-served".into(), "verify_chain returned a certificate although the first request was not answered with one".into())),
    };
    let what = format!(
        "CertificateClient::verify_chain({}) with the first request answered by {}",
        requested_label(pool, requested),
        ans_label(pool, res.requests[0].1)
    );
    if returned_hash != requested {
        return Some((
            KEY_WRONG_START.into(),
            format!("{what} returned Ok(certificate) whose hash {returned_hash} is not the requested hash {requested}: the chain that was verified is not the chain of the certificate the caller named"),
        ));
    }
    let disguised = matches!(res.requests[0].1, Ans::Disguised(i) if pool.members[i].cert.hash != requested);
    if disguised {
        return Some(("C03/certificate-accepted:hash-does-not-match-content".into(), format!("{what} returned Ok although the served content does not have the requested hash")));
    }
    pool.chain_defect[served].as_ref().map(|d| (d.key.clone(), format!("{what} returned Ok, but the hash-linked chain of that certificate is invalid: {}", d.text)))
}

pub fn entry_json(pool: &PoolB, requested: &str, first: Option<Ans>) -> Value {
    json!({"seam": "B-entry", "pool_b": pool.members.len(), "requested": requested_label(pool, requested), "first_answer": first.map(|a| ans_label(pool, a))})
}

pub fn entry_first_from_json(pool: &PoolB, v: &Value) -> Option<Option<Ans>> {
    if v.is_null() {
        return Some(None);
    }
    Some(Some(match v.as_str()? {
        "<not-found>" => Ans::NotFound,
        "<error>" => Ans::Error,
        l if l.starts_with("<under-the-requested-hash>") => Ans::Disguised(pool.find(&l["<under-the-requested-hash>".len()..])?),
        l => Ans::Member(pool.find(l)?),
    }))
}

/// every requested hash (every hash field of the pool and a hash of no certificate) x every answer to
/// the first request (honest, any member, any hash-consistent member's content under the requested
/// hash, not found); everything else served honestly, empty cache
pub fn entry_point_sweep(pool: &PoolB, w: &World, threads: usize) -> (Report, Found) {
    let vkey = w.genesis_vkey_hex.as_str();
    let mut hashes: Vec<String> = pool.hashes.clone();
    hashes.push(NO_SUCH_HASH.to_string());
    let n = pool.members.len();
    let parts = par_map(&hashes, threads, |_, h| {
        let mut rep = Report::new("model_checking", "");
        let mut fnd: Found = vec![];
        let mut firsts: Vec<Option<Ans>> = vec![None];
        firsts.extend((0..n).map(|i| Some(Ans::Member(i))));
        firsts.extend((0..n).filter(|i| pool.facts[*i].hash_ok && pool.members[*i].cert.hash != *h).map(|i| Some(Ans::Disguised(i))));
        firsts.push(Some(Ans::NotFound));
        for first in firsts {
            // the honest answer given as a deviation is the same call
            if let Some(Ans::Member(i)) = first
                && pool.default_answer.get(h) == Some(&i)
            {
                continue;
            }
            let res = run_entry(pool, vkey, h, first);
            rep.eval();
            rep.add_extra("B_entry_point_calls", 1);
            match &res.returned {
                Ok(rh) if rh == h => rep.outcome("B-entry:requested-certificate-accepted"),
                Ok(_) => rep.outcome("B-entry:another-certificate-accepted"),
                Err(_) => rep.outcome("B-entry:rejected"),
            }
            if res.returned.is_ok() {
                rep.nontrivial(&("B-entry", h, first));
            }
            if let Some((key, what)) = judge_entry(pool, h, &res) {
                found(&mut fnd, &key, what, entry_json(pool, h, first));
            } else if first.is_none()
                && res.returned.is_err()
                && pool.default_answer.get(h).is_some_and(|i| pool.members[*i].honest_base)
            {
                found(&mut fnd, "C03/honest-chain-rejected-by-client", format!("CertificateClient::verify_chain({}) failed with an honest provider: {:?}", requested_label(pool, h), res.returned), entry_json(pool, h, first));
            }
        }
        (rep, fnd)
    });
    let mut rep = Report::new("model_checking", "");
    let mut all: Found = vec![];
    for (r, f) in parts {
        rep.merge(r);
        all.extend(f);
    }
    (rep, all)
}
