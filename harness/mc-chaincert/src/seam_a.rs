//! Seam A: `MithrilCertificateVerifier::verify_certificate` (mithril-common) driven with a harness
//! `CertificateRetriever` that answers the one request of a step with a certificate chosen by the
//! explorer. The verifier keeps no memory between steps, so a state is "the certificate under
//! verification" and a transition is one real `verify_certificate(c)` call with one provider answer.

use std::collections::{BTreeMap, BTreeSet};
use std::sync::{Arc, Mutex};

use async_trait::async_trait;
use serde_json::json;

use mc_core::{Report, catch, par_map};
use mithril_common::certificate_chain::{
    CertificateRetriever, CertificateRetrieverError, CertificateVerifier, MithrilCertificateVerifier,
};
use mithril_common::crypto_helper::GenesisVerifier;
use mithril_common::entities::Certificate;

use crate::oracle::{ANCHORED_ONLY_IN_UNSIGNED_GENESIS_FIELDS, NodeFacts, is_pure_forward_epoch_link, link_defect, node_facts};
use crate::pool::Pool;

pub const KEY_FORWARD: &str = "C03/forward-epoch-link-accepted";
pub const KEY_GENESIS_FIELDS: &str = "C03/genesis-epoch-certificate-anchored-only-in-unsigned-genesis-fields";

/// provider double: answers every request with the certificate the explorer put in the slot
pub struct SlotRetriever {
    pub slot: Mutex<Option<Certificate>>,
    pub requests: Mutex<Vec<String>>,
}

#[async_trait]
impl CertificateRetriever for SlotRetriever {
    async fn get_certificate_details(&self, hash: &str) -> Result<Certificate, CertificateRetrieverError> {
        self.requests.lock().unwrap().push(hash.to_string());
        match self.slot.lock().unwrap().clone() {
            Some(c) => Ok(c),
            None => Err(CertificateRetrieverError(anyhow::anyhow!("certificate not found"))),
        }
    }
}

/// provider double: answers by hash field from a table (the "honest" provider over a pool)
pub struct TableRetriever {
    pub table: BTreeMap<String, Certificate>,
}

#[async_trait]
impl CertificateRetriever for TableRetriever {
    async fn get_certificate_details(&self, hash: &str) -> Result<Certificate, CertificateRetrieverError> {
        self.table
            .get(hash)
            .cloned()
            .ok_or_else(|| CertificateRetrieverError(anyhow::anyhow!("certificate not found")))
    }
}

pub fn logger() -> slog::Logger {
    slog::Logger::root(slog::Discard, slog::o!())
}

pub fn block_on<F: std::future::Future>(f: F) -> F::Output {
    thread_local! {
        static RT: tokio::runtime::Runtime =
            tokio::runtime::Builder::new_current_thread().enable_time().build().expect("runtime");
    }
    RT.with(|rt| rt.block_on(f))
}

#[derive(Clone, Debug, PartialEq)]
pub enum StepOutcome {
    /// Ok(Some(previous)) — the previous certificate returned is the provider's answer
    Link { returned_hash: String },
    /// Ok(None)
    Terminal,
    Rejected(String),
    Panicked(String),
}

/// one real step
pub fn step(genesis: &GenesisVerifier, c: &Certificate, answer: Option<&Certificate>) -> (StepOutcome, usize) {
    let retriever = Arc::new(SlotRetriever { slot: Mutex::new(answer.cloned()), requests: Mutex::new(vec![]) });
    let verifier = MithrilCertificateVerifier::new(logger(), retriever.clone(), Arc::new(genesis.clone()));
    let r = catch(|| block_on(verifier.verify_certificate(c)));
    let nreq = retriever.requests.lock().unwrap().len();
    let out = match r {
        Err(p) => StepOutcome::Panicked(p),
        Ok(Err(e)) => StepOutcome::Rejected(format!("{e:#}")),
        Ok(Ok(None)) => StepOutcome::Terminal,
        Ok(Ok(Some(p))) => StepOutcome::Link { returned_hash: p.hash },
    };
    (out, nreq)
}

pub type Found = Vec<mc_core::Violation>;

pub fn found(v: &mut Found, key: &str, what: String, replay: serde_json::Value) {
    v.push(mc_core::Violation { key: key.to_string(), what, replay });
}

pub struct SeamAResult {
    pub rep: Report,
    pub found: Found,
    pub facts: Vec<NodeFacts>,
    /// accepted edges (c, answer) and accepted terminals
    pub accepted_edges: Vec<(usize, usize)>,
    pub accepted_terminals: Vec<usize>,
}

/// judge one executed step against the property; returns a violation (key, text) if any
pub fn judge_step(
    pool: &Pool,
    facts: &[NodeFacts],
    ci: usize,
    ai: Option<usize>,
    out: &StepOutcome,
) -> Option<(String, String)> {
    let c = &pool.members[ci].cert;
    let f = &facts[ci];
    match out {
        StepOutcome::Rejected(_) | StepOutcome::Panicked(_) => None,
        StepOutcome::Terminal => {
            if !f.is_genesis {
                return Some((
                    "C03/standard-certificate-accepted-as-chain-end".into(),
                    format!("verify_certificate({}) returned Ok(None) for a certificate that is not a genesis certificate", pool.label(ci)),
                ));
            }
            f.first_defect().map(|d| {
                (
                    format!("C03/genesis-accepted:{d}"),
                    format!("verify_certificate({}) accepted a genesis certificate with defect '{d}' ({f:?})", pool.label(ci)),
                )
            })
        }
        StepOutcome::Link { returned_hash } => {
            let Some(ai) = ai else {
                return Some((
                    "C03/link-accepted-without-answer".into(),
                    format!("verify_certificate({}) returned a previous certificate although the provider had none", pool.label(ci)),
                ));
            };
            let a = &pool.members[ai].cert;
            let ctx = format!("verify_certificate({}) with provider answer {} accepted", pool.label(ci), pool.label(ai));
            if f.is_genesis {
                return Some(("C03/genesis-followed-a-link".into(), format!("{ctx} a link out of a genesis certificate")));
            }
            if returned_hash != &a.hash {
                return Some(("C03/returned-certificate-is-not-the-answer".into(), format!("{ctx} but returned hash {returned_hash}")));
            }
            if let Some(d) = f.first_defect() {
                return Some((format!("C03/certificate-accepted:{d}"), format!("{ctx} although the certificate itself has defect '{d}' ({f:?})")));
            }
            if a.hash != c.previous_hash {
                return Some((
                    "C03/served-for-wrong-hash-accepted".into(),
                    format!("{ctx} although the answer's hash {} is not the previous_hash {} of the certificate", a.hash, c.previous_hash),
                ));
            }
            match link_defect(c, a) {
                None => None,
                Some("link-to-following-epoch") if is_pure_forward_epoch_link(c, a) => Some((
                    KEY_FORWARD.into(),
                    format!(
                        "{ctx} a link from epoch {} to a certificate of the FOLLOWING epoch {} (the property allows the same or the immediately preceding epoch only)",
                        c.epoch.0, a.epoch.0
                    ),
                )),
                Some(ANCHORED_ONLY_IN_UNSIGNED_GENESIS_FIELDS) => Some((
                    KEY_GENESIS_FIELDS.into(),
                    format!(
                        "{ctx} a link, inside epoch {}, to a genesis certificate whose aggregate key / parameter FIELDS equal the certificate's while its genesis-signed protocol message commits to another key or other parameters: nothing signed by the genesis key vouches for the certificate's signer set",
                        c.epoch.0
                    ),
                )),
                Some(d) => Some((format!("C03/link-accepted:{d}"), format!("{ctx} an invalid link: {d} (epochs {} -> {})", c.epoch.0, a.epoch.0))),
            }
        }
    }
}

pub fn explore(
    pool: &Pool,
    genesis: &GenesisVerifier,
    full_cross_rows: &BTreeSet<usize>,
    threads: usize,
) -> SeamAResult {
    let n = pool.members.len();
    let idx: Vec<usize> = (0..n).collect();
    let facts: Vec<NodeFacts> = par_map(&idx, threads, |_, i| node_facts(&pool.members[*i].cert, genesis));
    // hash field -> members claiming it
    let mut by_hash: BTreeMap<&str, Vec<usize>> = BTreeMap::new();
    for (i, m) in pool.members.iter().enumerate() {
        by_hash.entry(m.cert.hash.as_str()).or_default().push(i);
    }
    let base: Vec<usize> = (0..n).filter(|i| pool.members[*i].base).collect();

    if std::env::var("C03_PLAN").is_ok() {
        let planned: usize = (0..n)
            .map(|ci| {
                if full_cross_rows.contains(&ci) { n + 1 } else { base.len() + 1 + by_hash.get(pool.members[ci].cert.previous_hash.as_str()).map(|v| v.len()).unwrap_or(0) }
            })
            .sum();
        eprintln!("[C03] plan: seam A rows={} full-cross rows={} steps<={}", n, full_cross_rows.len(), planned);
    }
    struct Part {
        rep: Report,
        found: Found,
        edges: Vec<(usize, usize)>,
        terminal: bool,
    }
    let parts: Vec<Part> = par_map(&idx, threads, |_, &ci| {
        let mut rep = Report::new("model_checking", "");
        let c = &pool.members[ci].cert;
        let mut answers: BTreeSet<Option<usize>> = BTreeSet::new();
        answers.insert(None);
        if full_cross_rows.contains(&ci) {
            answers.extend((0..n).map(Some));
        } else {
            answers.extend(base.iter().map(|b| Some(*b)));
            if let Some(v) = by_hash.get(c.previous_hash.as_str()) {
                answers.extend(v.iter().map(|a| Some(*a)));
            }
        }
        let mut edges = vec![];
        let mut fnd: Found = vec![];
        let mut terminal = false;
        for ai in answers {
            rep.eval();
            let a = ai.map(|i| &pool.members[i].cert);
            let (out, nreq) = step(genesis, c, a);
            // a pair reaches the chaining rule when the certificate is sound on its own and the
            // answer claims the requested hash
            if facts[ci].ok() && !facts[ci].is_genesis && a.is_some_and(|a| a.hash == c.previous_hash) {
                rep.nontrivial(&("A", ci, ai));
            }
            match &out {
                StepOutcome::Link { .. } => {
                    rep.outcome("A:link-accepted");
                    if let Some(ai) = ai {
                        edges.push((ci, ai));
                    }
                }
                StepOutcome::Terminal => {
                    rep.outcome("A:genesis-accepted");
                    terminal = true;
                    if nreq == 0 {
                        rep.nontrivial(&("A-genesis", ci));
                    }
                }
                StepOutcome::Rejected(_) => rep.outcome("A:rejected"),
                StepOutcome::Panicked(_) => {
                    rep.outcome("A:panic(=rejected)");
                    rep.add_extra("panics_observed", 1);
                }
            }
            if let Some((key, what)) = judge_step(pool, &facts, ci, ai, &out) {
                found(&mut fnd, &key, what, json!({"seam": "A", "certificate": pool.label(ci), "answer": ai.map(|i| pool.label(i))}));
            }
            if rep.samples.is_empty() && matches!(out, StepOutcome::Link { .. }) && !pool.members[ci].base {
                rep.sample(json!({"seam": "A", "certificate": pool.label(ci), "answer": ai.map(|i| pool.label(i)), "outcome": "link accepted"}));
            }
        }
        Part { rep, found: fnd, edges, terminal }
    });
    let mut rep = Report::new("model_checking", "");
    let mut all_found: Found = vec![];
    let mut accepted_edges = vec![];
    let mut accepted_terminals = vec![];
    for (ci, p) in parts.into_iter().enumerate() {
        rep.merge(p.rep);
        all_found.extend(p.found);
        accepted_edges.extend(p.edges);
        if p.terminal {
            accepted_terminals.push(ci);
        }
    }
    SeamAResult { rep, found: all_found, facts, accepted_edges, accepted_terminals }
}

/// Graph clause: the accepted-edge graph has no cycle, and every path of accepted edges ends, if it
/// ends in an accepted terminal, in a valid genesis certificate (finite-steps clause).
pub fn check_graph(pool: &Pool, res: &mut SeamAResult) {
    let n = pool.members.len();
    let mut succ: Vec<Vec<usize>> = vec![vec![]; n];
    for (c, a) in &res.accepted_edges {
        succ[*c].push(*a);
    }
    // iterative DFS, colours 0 white / 1 grey / 2 black
    let mut colour = vec![0u8; n];
    let mut cyc: Option<Vec<usize>> = None;
    for s in 0..n {
        if colour[s] != 0 || cyc.is_some() {
            continue;
        }
        let mut stack: Vec<(usize, usize)> = vec![(s, 0)];
        colour[s] = 1;
        while let Some((v, k)) = stack.pop() {
            if k < succ[v].len() {
                stack.push((v, k + 1));
                let u = succ[v][k];
                if colour[u] == 1 {
                    let mut path: Vec<usize> = stack.iter().map(|x| x.0).collect();
                    path.push(u);
                    cyc = Some(path);
                    break;
                }
                if colour[u] == 0 {
                    colour[u] = 1;
                    stack.push((u, 0));
                }
            } else {
                colour[v] = 2;
            }
        }
    }
    if let Some(path) = cyc {
        found(
            &mut res.found,
            "C03/accepted-links-form-a-cycle",
            format!("accepted links form a cycle: {:?}", path.iter().map(|i| pool.label(*i)).collect::<Vec<_>>()),
            json!({"seam": "A-graph", "cycle": path.iter().map(|i| pool.label(*i)).collect::<Vec<_>>()}),
        );
    }
    res.rep.extra("A_accepted_links", json!(res.accepted_edges.len()));
    res.rep.extra("A_accepted_genesis_certificates", json!(res.accepted_terminals.len()));
}

/// the real `verify_certificate_chain` loop of mithril-common with a provider that answers by hash
/// field, started from every pool member; `Ok` must imply a valid hash-linked chain
pub fn chains_by_hash(
    pool: &Pool,
    genesis: &GenesisVerifier,
    chain_defect: &[Option<ChainDefect>],
    honest_base: &[bool],
    threads: usize,
) -> (Report, Found) {
    // prefer, for each hash field, the member whose content really has that hash
    let mut table: BTreeMap<String, Certificate> = BTreeMap::new();
    for m in &pool.members {
        let real = m.cert.try_compute_hash().map(|h| h == m.cert.hash).unwrap_or(false);
        if real || !table.contains_key(&m.cert.hash) {
            table.insert(m.cert.hash.clone(), m.cert.clone());
        }
    }
    let retriever = Arc::new(TableRetriever { table });
    let idx: Vec<usize> = (0..pool.members.len()).collect();
    let parts = par_map(&idx, threads, |_, &ci| {
        let mut rep = Report::new("model_checking", "");
        let mut fnd: Found = vec![];
        rep.eval();
        let verifier = MithrilCertificateVerifier::new(logger(), retriever.clone(), Arc::new(genesis.clone()));
        let c = pool.members[ci].cert.clone();
        let r = catch(|| block_on(verifier.verify_certificate_chain(c)));
        match r {
            Ok(Ok(())) => {
                rep.outcome("A-chain:accepted");
                rep.nontrivial(&("A-chain", ci));
                if let Some(d) = &chain_defect[ci] {
                    found(
                        &mut fnd,
                        &d.key,
                        format!("verify_certificate_chain({}) = Ok with an honest-by-hash provider, but its hash-linked chain is invalid: {}", pool.label(ci), d.text),
                        json!({"seam": "A-chain", "certificate": pool.label(ci)}),
                    );
                }
            }
            Ok(Err(_)) => {
                rep.outcome("A-chain:rejected");
                if chain_defect[ci].is_none() && !honest_base[ci] {
                    rep.add_extra("A_chain_valid_by_the_text_but_rejected", 1);
                }
                if chain_defect[ci].is_none() && honest_base[ci] {
                    found(
                        &mut fnd,
                        "C03/valid-chain-rejected",
                        format!("verify_certificate_chain({}) failed although every certificate and link down to the genesis certificate is valid", pool.label(ci)),
                        json!({"seam": "A-chain", "certificate": pool.label(ci)}),
                    );
                }
            }
            Err(_) => rep.outcome("A-chain:panic(=rejected)"),
        }
        (rep, fnd)
    });
    let mut rep = Report::new("model_checking", "");
    let mut all: Found = vec![];
    for (p, f) in parts {
        rep.merge(p);
        all.extend(f);
    }
    (rep, all)
}

/// First defect met when following the hash-linked chain of a certificate.
#[derive(Clone, Debug)]
pub struct ChainDefect {
    /// classifier key naming the kind of defect (same keys as the step judgement)
    pub key: String,
    pub text: String,
    /// member at which the defect sits: the defective certificate, or the child of the defective link
    pub at: usize,
    /// the defect is the certificate `at` itself (false: its link to the previous certificate)
    pub is_node: bool,
    /// members from the start down to `at` (inclusive)
    pub path: Vec<usize>,
    /// for a link defect: the member the link resolves to
    pub parent: Option<usize>,
}

/// Reference: is the hash-linked chain from each member valid down to a valid genesis? Links are
/// resolved to the unique member whose *recomputed* hash equals the link.
pub fn chain_defects(certs: &[&Certificate], facts: &[NodeFacts]) -> Vec<Option<ChainDefect>> {
    let mut real: BTreeMap<&str, usize> = BTreeMap::new();
    for (i, c) in certs.iter().enumerate() {
        if facts[i].hash_ok {
            real.entry(c.hash.as_str()).or_insert(i);
        }
    }
    let n = certs.len();
    (0..n)
        .map(|start| {
            let mut cur = start;
            let mut path = vec![];
            for _ in 0..=n {
                path.push(cur);
                let f = &facts[cur];
                let c = certs[cur];
                let here = if cur == start { "the certificate itself".to_string() } else { format!("certificate {} (epoch {}) {} step(s) down the chain", &c.hash[..8.min(c.hash.len())], c.epoch.0, path.len() - 1) };
                if let Some(d) = f.first_defect() {
                    let key = if f.is_genesis { format!("C03/genesis-accepted:{d}") } else { format!("C03/certificate-accepted:{d}") };
                    return Some(ChainDefect { key, text: format!("{d} at {here}"), at: cur, is_node: true, path, parent: None });
                }
                if f.is_genesis {
                    return None;
                }
                let Some(&p) = real.get(c.previous_hash.as_str()) else {
                    return Some(ChainDefect {
                        key: "C03/link-accepted:dangling".into(),
                        text: format!("no certificate has the hash {} that {here} links to", c.previous_hash.get(..8).unwrap_or("")),
                        at: cur,
                        is_node: false,
                        path,
                        parent: None,
                    });
                };
                if let Some(d) = link_defect(c, certs[p]) {
                    let text = format!("{d}: link of {here} to a certificate of epoch {}", certs[p].epoch.0);
                    let key = if d == "link-to-following-epoch" && is_pure_forward_epoch_link(c, certs[p]) {
                        KEY_FORWARD.to_string()
                    } else if d == ANCHORED_ONLY_IN_UNSIGNED_GENESIS_FIELDS {
                        KEY_GENESIS_FIELDS.to_string()
                    } else {
                        format!("C03/link-accepted:{d}")
                    };
                    return Some(ChainDefect { key, text, at: cur, is_node: false, path, parent: Some(p) });
                }
                cur = p;
            }
            Some(ChainDefect { key: "C03/accepted-links-form-a-cycle".into(), text: "no genesis certificate is ever reached".into(), at: start, is_node: false, path, parent: None })
        })
        .collect()
}
