//! The finite universe of certificates the C03 explorers quantify over.
//!
//! * honest chains built by the project's own `CertificateChainBuilder` (signer sets changing per
//!   epoch; identical signers in every epoch so that aggregate keys repeat),
//! * an honest chain with protocol parameters changing per epoch and an adversarial, internally
//!   consistent chain under the adversary's own genesis key and own signer keys (both built here
//!   with the public STM / genesis API),
//! * grafts of the adversarial chain onto the honest one, and
//! * every structural mutation of every base certificate (single field, with and without
//!   recomputed hash, re-targeted links, re-signed variants).
//!
//! Nothing here decides what is valid: that is `oracle.rs`.

use std::collections::BTreeMap;

use chrono::{DateTime, Utc};
use rand_chacha::ChaCha20Rng;
use rand_core::SeedableRng;

use mithril_common::certificate_chain::CertificateGenesisProducer;
use mithril_common::crypto_helper::{
    GenesisEd25519Signer, GenesisSigner, GenesisVerifier, PROTOCOL_VERSION, ProtocolAggregateVerificationKey,
    ProtocolAggregateVerificationKeyForConcatenation, ProtocolClerk, ProtocolSigner,
};
use mithril_common::entities::{
    CardanoDbBeacon, Certificate, CertificateMetadata, CertificateSignature, Epoch, ProtocolMessage,
    ProtocolMessagePartKey, ProtocolParameters, SignedEntityType, StakeDistributionParty, SupportedEra,
};
use mithril_common::test::builder::{
    CertificateChainBuilder, CertificateChainBuilderContext, CertificateChainingMethod, MithrilFixture,
    MithrilFixtureBuilder,
};
use mithril_stm::{
    AggregateSignatureType, AncillaryGenesisData, AncillaryProofInput, Initializer, KeyRegistration,
    MithrilMembershipDigest, RegistrationEntry,
};

type D = MithrilMembershipDigest;

pub fn fixed_time() -> DateTime<Utc> {
    DateTime::parse_from_rfc3339("2024-01-02T03:04:05Z").unwrap().with_timezone(&Utc)
}

/// A signer set able to produce multi-signatures: the "keys" of one epoch of one chain.
pub struct Party {
    pub name: String,
    pub signers: Vec<ProtocolSigner>,
    pub clerk: ProtocolClerk,
    pub avk: ProtocolAggregateVerificationKey,
    pub params: ProtocolParameters,
    pub parties: Vec<StakeDistributionParty>,
}

impl Party {
    /// own keys from a seeded RNG through the public STM API (no KES certification involved:
    /// the certificate verifier never sees individual keys, only the aggregate key)
    pub fn from_seed(name: &str, n: usize, params: &ProtocolParameters, seed: u8) -> Party {
        let mut rng = ChaCha20Rng::from_seed([seed; 32]);
        let stm_params: mithril_stm::Parameters = params.clone().into();
        let mut reg = KeyRegistration::initialize();
        let mut inits = vec![];
        let mut parties = vec![];
        for i in 0..n {
            let stake = 100 + 37 * (i as u64) + seed as u64;
            let init = Initializer::new(stm_params, stake, &mut rng);
            let entry =
                RegistrationEntry::new(init.get_verification_key_proof_of_possession_for_concatenation(), init.stake)
                    .expect("registration entry");
            reg.register_by_entry(&entry).expect("register");
            parties.push(StakeDistributionParty { party_id: format!("{name}-{i}"), stake });
            inits.push(init);
        }
        let closed = reg.close_registration(&stm_params).expect("close registration");
        let signers: Vec<ProtocolSigner> =
            inits.into_iter().map(|i| i.try_create_signer::<D>(&closed).expect("signer")).collect();
        let clerk = ProtocolClerk::new_clerk_from_signer(&signers[0]);
        let avk = clerk.compute_aggregate_verification_key();
        Party { name: name.to_string(), signers, clerk, avk, params: params.clone(), parties }
    }

    /// the signer set of a project fixture (same deterministic fixture the chain builder uses)
    pub fn from_fixture(name: &str, fixture: &MithrilFixture) -> Party {
        let signers: Vec<ProtocolSigner> =
            fixture.signers_fixture().iter().map(|s| s.protocol_signer.clone()).collect();
        let clerk = ProtocolClerk::new_clerk_from_signer(&signers[0]);
        let avk = clerk.compute_aggregate_verification_key();
        Party {
            name: name.to_string(),
            signers,
            clerk,
            avk,
            params: fixture.protocol_parameters(),
            parties: fixture.stake_distribution_parties(),
        }
    }

    pub fn avk_hex(&self) -> String {
        let k: ProtocolAggregateVerificationKeyForConcatenation =
            self.avk.to_concatenation_aggregate_verification_key().to_owned().into();
        k.to_json_hex().expect("avk hex")
    }

    pub fn avk_concat(&self) -> ProtocolAggregateVerificationKeyForConcatenation {
        self.avk.to_concatenation_aggregate_verification_key().to_owned().into()
    }

    /// multi-signature of this signer set over `signed_message`
    pub fn sign(&self, signed_message: &str, entity: SignedEntityType) -> CertificateSignature {
        let sigs: Vec<_> = self
            .signers
            .iter()
            .filter_map(|s| s.create_single_signature(signed_message.as_bytes()).ok())
            .collect();
        let input = AncillaryProofInput::new(None, AncillaryGenesisData::new());
        let (msig, _out) = self
            .clerk
            .aggregate_signatures_with_type(&sigs, signed_message.as_bytes(), AggregateSignatureType::Concatenation, input)
            .unwrap_or_else(|e| panic!("party {} cannot reach the quorum: {e}", self.name));
        CertificateSignature::MultiSignature(entity, msig.into())
    }
}

pub fn protocol_message(
    next_avk_hex: Option<&str>,
    next_params_hash: Option<&str>,
    signed_epoch: Option<&str>,
    digest: Option<&str>,
) -> ProtocolMessage {
    let mut pm = ProtocolMessage::new();
    if let Some(v) = next_avk_hex {
        pm.set_message_part(ProtocolMessagePartKey::NextAggregateVerificationKey, v.to_string());
    }
    if let Some(v) = next_params_hash {
        pm.set_message_part(ProtocolMessagePartKey::NextProtocolParameters, v.to_string());
    }
    if let Some(v) = signed_epoch {
        pm.set_message_part(ProtocolMessagePartKey::CurrentEpoch, v.to_string());
    }
    if let Some(v) = digest {
        pm.set_message_part(ProtocolMessagePartKey::SnapshotDigest, v.to_string());
    }
    pm
}

/// a standard certificate signed by `party` over `pm`
pub fn standard_certificate(party: &Party, epoch: u64, pm: ProtocolMessage, previous_hash: &str, idx: u64) -> Certificate {
    let signed_message = pm.compute_hash();
    let entity = SignedEntityType::CardanoDatabase(CardanoDbBeacon::new(epoch, idx));
    let signature = party.sign(&signed_message, entity);
    let metadata = CertificateMetadata::new(
        "devnet",
        PROTOCOL_VERSION.to_string(),
        party.params.clone(),
        fixed_time(),
        fixed_time(),
        party.parties.clone(),
    );
    Certificate::try_new(previous_hash.to_string(), Epoch(epoch), metadata, pm, party.avk.clone(), signature, None, None)
        .expect("certificate")
}

/// a genesis certificate for `epoch` committing to `next` as the first signing key set
pub fn genesis_certificate(signer: &GenesisSigner, next: &Party, epoch: u64) -> Certificate {
    let producer = CertificateGenesisProducer::new();
    let era = SupportedEra::Pythagoras;
    let pm = producer
        .create_genesis_protocol_message(&next.params, &next.avk, &Epoch(epoch), era)
        .expect("genesis protocol message");
    let mut rng = ChaCha20Rng::from_seed([0u8; 32]);
    let sig = match signer.sign(&pm, era, &mut rng).expect("genesis signature") {
        CertificateSignature::GenesisSignature(s) => s,
        _ => unreachable!("Pythagoras genesis signature is Ed25519 only"),
    };
    let mut c = producer
        .create_legacy_genesis_certificate(next.params.clone(), "devnet", Epoch(epoch), next.avk.clone(), sig, era)
        .expect("genesis certificate");
    c.metadata.initiated_at = fixed_time();
    c.metadata.sealed_at = fixed_time();
    c.hash = c.try_compute_hash().unwrap();
    c
}

pub fn rehash(mut c: Certificate) -> Certificate {
    c.hash = c.try_compute_hash().expect("hash");
    c
}

/// Where a pool member comes from (only for reports and for choosing what to mutate).
#[derive(Clone, Debug)]
pub struct Origin {
    pub chain: String,
    /// index of the base certificate inside its chain (0 = genesis)
    pub pos: usize,
    pub mutation: String,
}

pub struct Member {
    pub cert: Certificate,
    pub origin: Origin,
    pub base: bool,
}

pub struct BaseChain {
    pub name: String,
    /// genesis first
    pub certs: Vec<Certificate>,
    /// the signer set able to sign for certificate i (None for genesis)
    pub owner: Vec<Option<usize>>,
    pub honest: bool,
    /// own chains only: the signer set of every epoch (the one of the genesis epoch signs nothing
    /// in the base chain)
    pub party_of_epoch: BTreeMap<u64, usize>,
}

pub struct World {
    pub parties: Vec<Party>,
    pub chains: Vec<BaseChain>,
    pub genesis_verifier: GenesisVerifier,
    pub adversary_genesis_verifier: GenesisVerifier,
    pub genesis_vkey_hex: String,
}

pub struct WorldCfg {
    /// epochs after the genesis epoch
    pub epochs: u64,
    /// certificates per epoch in the multi-certificate chains
    pub per_epoch: u64,
    pub with_h3: bool,
}

pub fn base_params() -> ProtocolParameters {
    ProtocolParameters { k: 3, m: 30, phi_f: 0.9 }
}

fn builder_signers_h1(epoch: u64) -> usize {
    2 + (epoch % 3) as usize
}

impl World {
    pub fn build(cfg: &WorldCfg) -> World {
        let params = base_params();
        let mut parties: Vec<Party> = vec![];
        let mut chains = vec![];
        let last_epoch = 1 + cfg.epochs;

        // ---- H1: project builder, signer set changes every epoch, several certificates per epoch,
        //          every certificate chained to the first of its epoch ("master")
        fn gp(mut c: Certificate, _: &CertificateChainBuilderContext, _: &GenesisSigner) -> Certificate {
            c.metadata.initiated_at = fixed_time();
            c.metadata.sealed_at = fixed_time();
            c
        }
        let total_h1 = 1 + cfg.epochs * cfg.per_epoch;
        let h1 = CertificateChainBuilder::new()
            .with_total_certificates(total_h1)
            .with_certificates_per_epoch(cfg.per_epoch)
            .with_protocol_parameters(params.clone().into())
            .with_total_signers_per_epoch_processor(&|e| builder_signers_h1(*e))
            .with_genesis_certificate_processor(&gp)
            .build();
        let genesis_verifier = h1.genesis_verifier.clone();
        let mut fixture_party: BTreeMap<usize, usize> = BTreeMap::new();
        let mut party_for_n = |n: usize, parties: &mut Vec<Party>| -> usize {
            *fixture_party.entry(n).or_insert_with(|| {
                let f = MithrilFixtureBuilder::default()
                    .with_protocol_parameters(params.clone())
                    .with_signers(n)
                    .build();
                parties.push(Party::from_fixture(&format!("fixture{n}"), &f));
                parties.len() - 1
            })
        };
        {
            let certs = h1.reversed_chain();
            let owner = certs
                .iter()
                .map(|c| if c.is_genesis() { None } else { Some(party_for_n(builder_signers_h1(*c.epoch), &mut parties)) })
                .collect();
            chains.push(BaseChain { name: "H1".into(), certs, owner, honest: true, party_of_epoch: BTreeMap::new() });
        }

        // ---- H2: project builder, identical signers in every epoch (aggregate keys repeat),
        //          one certificate per epoch, sequential chaining
        let h2 = CertificateChainBuilder::new()
            .with_total_certificates(1 + cfg.epochs)
            .with_certificates_per_epoch(1)
            .with_protocol_parameters(params.clone().into())
            .with_total_signers_per_epoch_processor(&|_| 3)
            .with_certificate_chaining_method(CertificateChainingMethod::Sequential)
            .with_genesis_certificate_processor(&gp)
            .build();
        {
            let certs = h2.reversed_chain();
            let owner = certs
                .iter()
                .map(|c| if c.is_genesis() { None } else { Some(party_for_n(3, &mut parties)) })
                .collect();
            chains.push(BaseChain { name: "H2".into(), certs, owner, honest: true, party_of_epoch: BTreeMap::new() });
        }

        // ---- own chains: parties with their own keys
        let honest_genesis_signer = GenesisSigner::create_deterministic_signer();
        let adversary_genesis_signer =
            GenesisSigner::from_ed25519(GenesisEd25519Signer::create_test_signer(ChaCha20Rng::from_seed([0xAD; 32])));
        let adversary_genesis_verifier = adversary_genesis_signer.create_verifier();

        let own_chain = |name: &str,
                             honest: bool,
                             gsigner: &GenesisSigner,
                             params_of: &dyn Fn(u64) -> ProtocolParameters,
                             seed0: u8,
                             per_epoch: u64,
                             parties: &mut Vec<Party>| {
            // party of epoch e signs the certificates of epoch e; epochs 1..=last_epoch+1
            let mut idx_of: BTreeMap<u64, usize> = BTreeMap::new();
            for e in 1..=last_epoch + 1 {
                let p = Party::from_seed(&format!("{name}-e{e}"), 3, &params_of(e), seed0.wrapping_add(e as u8));
                parties.push(p);
                idx_of.insert(e, parties.len() - 1);
            }
            let mut certs: Vec<Certificate> = vec![];
            let mut owner = vec![];
            // genesis at epoch 1 commits to the party of epoch 2
            let g = genesis_certificate(gsigner, &parties[idx_of[&2]], 1);
            certs.push(g);
            owner.push(None);
            let mut master_prev = certs[0].hash.clone();
            let mut n = 1u64;
            for e in 2..=last_epoch {
                let me = &parties[idx_of[&e]];
                let next = &parties[idx_of[&(e + 1)]];
                let mut master_this = String::new();
                for j in 0..per_epoch {
                    let pm = protocol_message(
                        Some(&next.avk_hex()),
                        Some(&next.params.compute_hash()),
                        Some(&e.to_string()),
                        Some(&format!("digest-{name}-{n}")),
                    );
                    let prev = if j == 0 { master_prev.clone() } else { master_this.clone() };
                    let c = standard_certificate(me, e, pm, &prev, n);
                    if j == 0 {
                        master_this = c.hash.clone();
                    }
                    certs.push(c);
                    owner.push(Some(idx_of[&e]));
                    n += 1;
                }
                master_prev = master_this;
            }
            BaseChain { name: name.to_string(), certs, owner, honest, party_of_epoch: idx_of }
        };

        // ---- A: adversary — own genesis key, own signer keys, same epochs and same parameters
        let a = own_chain("A", false, &adversary_genesis_signer, &|_| base_params(), 0x40, 1, &mut parties);
        chains.push(a);
        // ---- H3: honest genesis key, own signer keys, protocol parameters change every epoch
        if cfg.with_h3 {
            let h3 = own_chain(
                "H3",
                true,
                &honest_genesis_signer,
                &|e| ProtocolParameters { k: 2 + (e % 2), m: 30 + e, phi_f: 0.9 },
                0x80,
                1,
                &mut parties,
            );
            chains.push(h3);
        }

        let genesis_vkey_hex: String = genesis_verifier.to_ed25519_verification_key().try_into().expect("vkey hex");
        World { parties, chains, genesis_verifier, adversary_genesis_verifier, genesis_vkey_hex }
    }

    pub fn chain(&self, name: &str) -> &BaseChain {
        self.chains.iter().find(|c| c.name == name).expect("chain")
    }
}

/// Two coordinated edits around the genesis certificate `g` of an honest chain: the adversary
/// rewrites the fields of `g` that the genesis signature does not cover (aggregate key, protocol
/// parameters; hash recomputed, signature and signed protocol message untouched) and chains to it,
/// inside the genesis epoch, a certificate multi-signed by its own signer set.
pub struct GenesisEpochGraft {
    /// (certificate, chain label, position label, mutation label)
    pub members: Vec<(Certificate, String, usize, String)>,
}

pub fn genesis_epoch_graft(w: &World, honest_chain: &str) -> GenesisEpochGraft {
    let h = w.chain(honest_chain);
    let a = w.chain("A");
    let g = &h.certs[0];
    let e = g.epoch.0;
    let own = &w.parties[a.party_of_epoch[&e]];
    let next = &w.parties[a.party_of_epoch[&(e + 1)]];
    let mut kept = g.clone();
    kept.aggregate_verification_key = own.avk_concat();
    kept.metadata.protocol_parameters = own.params.clone();
    let rewritten = rehash(kept.clone());
    let pm = |tag: &str| {
        protocol_message(
            Some(&next.avk_hex()),
            Some(&next.params.compute_hash()),
            Some(&e.to_string()),
            Some(&format!("digest-genesis-epoch-{honest_chain}-{tag}")),
        )
    };
    let child = standard_certificate(own, e, pm("a"), &rewritten.hash, 900);
    let child_real_hash = standard_certificate(own, e, pm("b"), &g.hash, 901);
    let fields = format!("{honest_chain}[0]~key-fields:=A-e{e}");
    let mut members = vec![
        (rewritten, honest_chain.to_string(), 0, format!("~key-fields:=A-e{e}")),
        (kept, honest_chain.to_string(), 0, format!("~key-fields:=A-e{e},hash-kept")),
        (child.clone(), format!("A-e{e}"), 0, format!("~child-of:=({fields})")),
        (child_real_hash, format!("A-e{e}"), 0, format!("~child-of:={honest_chain}[0]")),
    ];
    // the rest of the adversarial chain on top of the genesis-epoch certificate
    let mut prev = child.hash.clone();
    for (pos, c) in a.certs.iter().enumerate().skip(1) {
        let mut n = c.clone();
        n.previous_hash = prev.clone();
        let n = rehash(n);
        prev = n.hash.clone();
        members.push((n, "A".to_string(), pos, format!("~grafted-onto:=(A-e{e}[0]~child-of:=({fields}))")));
    }
    GenesisEpochGraft { members }
}

/// re-sign `c` with `party` over a new protocol message (everything else kept, hash recomputed)
pub fn resign(c: &Certificate, party: &Party, pm: ProtocolMessage) -> Certificate {
    let mut n = c.clone();
    n.signed_message = pm.compute_hash();
    n.protocol_message = pm;
    n.signature = party.sign(&n.signed_message, c.signed_entity_type());
    rehash(n)
}

// ------------------------------------------------------------------------------------------------
// Pool for seam A: base certificates and all their structural mutations
// ------------------------------------------------------------------------------------------------

pub struct Pool {
    pub members: Vec<Member>,
}

impl Pool {
    pub fn label(&self, i: usize) -> String {
        let o = &self.members[i].origin;
        format!("{}[{}]{}", o.chain, o.pos, o.mutation)
    }
    pub fn find(&self, label: &str) -> Option<usize> {
        (0..self.members.len()).find(|i| self.label(*i) == label)
    }
    fn push(&mut self, seen: &mut std::collections::HashSet<(String, String)>, cert: Certificate, chain: &str, pos: usize, mutation: String, base: bool) -> bool {
        let key = (cert.hash.clone(), cert.try_compute_hash().unwrap_or_default());
        if !seen.insert(key) {
            return false;
        }
        self.members.push(Member { cert, origin: Origin { chain: chain.to_string(), pos, mutation }, base });
        true
    }
}

pub struct MutationCfg {
    /// re-target previous_hash to base certificates whose epoch differs by at most this much
    pub retarget_epoch_radius: u64,
    /// swap aggregate keys / signatures with base certificates whose epoch differs by at most this
    pub swap_epoch_radius: u64,
    /// children re-targeted to recomputed-hash mutants of their parent
    pub second_order: bool,
}

fn avk_key(k: &ProtocolAggregateVerificationKeyForConcatenation) -> String {
    k.to_json_hex().unwrap_or_default()
}

pub fn seam_a_pool(w: &World, cfg: &MutationCfg) -> Pool {
    let mut pool = Pool { members: vec![] };
    let mut seen = std::collections::HashSet::new();
    // base
    struct B<'a> {
        chain: &'a BaseChain,
        pos: usize,
    }
    let mut base: Vec<B> = vec![];
    for ch in &w.chains {
        for (pos, c) in ch.certs.iter().enumerate() {
            pool.push(&mut seen, c.clone(), &ch.name, pos, String::new(), true);
            base.push(B { chain: ch, pos });
        }
    }
    let honest_genesis = w.chains.iter().find(|c| c.honest).unwrap().certs[0].clone();
    let near = |a: &Certificate, b: &Certificate, r: u64| a.epoch.0.abs_diff(b.epoch.0) <= r;

    // parent-side mutants with a recomputed hash, remembered for the second-order step
    let mut parent_mutants: Vec<(usize /*base idx*/, Certificate, String)> = vec![];

    for (bi, b) in base.iter().enumerate() {
        let c = &b.chain.certs[b.pos];
        let owner = b.chain.owner[b.pos].map(|i| &w.parties[i]);
        let chain = b.chain.name.as_str();
        let mut add = |pool: &mut Pool, cert: Certificate, m: String, parent_side: bool| {
            if pool.push(&mut seen, cert.clone(), chain, b.pos, m.clone(), false) && parent_side {
                parent_mutants.push((bi, cert, m));
            }
        };
        // M1 re-targeted links (hash recomputed: the multi-signature does not cover previous_hash)
        for (ti, t) in base.iter().enumerate() {
            let tc = &t.chain.certs[t.pos];
            if ti == bi || tc.hash == c.previous_hash || !near(c, tc, cfg.retarget_epoch_radius) {
                continue;
            }
            let mut n = c.clone();
            n.previous_hash = tc.hash.clone();
            add(&mut pool, rehash(n), format!("~prev:={}[{}]", t.chain.name, t.pos), false);
        }
        // M2 self loop (hash kept: a recomputed one cannot loop), dropped link, dangling link
        {
            let mut n = c.clone();
            n.previous_hash = c.hash.clone();
            add(&mut pool, n, "~prev:=own-hash,hash-kept".into(), false);
            if !c.previous_hash.is_empty() {
                let mut n = c.clone();
                n.previous_hash = String::new();
                add(&mut pool, rehash(n), "~prev:=empty".into(), false);
            }
            let mut n = c.clone();
            n.previous_hash = "00".repeat(32);
            add(&mut pool, rehash(n), "~prev:=dangling".into(), false);
        }
        // M3 epoch field +-1, with / without recomputed hash, and with the signed epoch re-signed
        for d in [-1i64, 1] {
            let ne = c.epoch.0 as i64 + d;
            if ne < 0 {
                continue;
            }
            let mut n = c.clone();
            n.epoch = Epoch(ne as u64);
            add(&mut pool, n.clone(), format!("~epoch{d:+},hash-kept"), false);
            add(&mut pool, rehash(n.clone()), format!("~epoch{d:+}"), true);
            if let Some(party) = owner {
                let mut pm = c.protocol_message.clone();
                pm.set_message_part(ProtocolMessagePartKey::CurrentEpoch, ne.to_string());
                add(&mut pool, resign(&n, party, pm), format!("~epoch{d:+},signed-epoch-too,re-signed"), true);
            }
        }
        // M4 aggregate key replaced, M5 parameters replaced, M6 signature replaced
        let mut avks_seen = std::collections::BTreeSet::new();
        let mut params_seen: Vec<ProtocolParameters> = vec![];
        let mut first_kept = true;
        for t in base.iter() {
            let tc = &t.chain.certs[t.pos];
            if !near(c, tc, cfg.swap_epoch_radius) {
                continue;
            }
            if avk_key(&tc.aggregate_verification_key) != avk_key(&c.aggregate_verification_key)
                && avks_seen.insert(avk_key(&tc.aggregate_verification_key))
            {
                let mut n = c.clone();
                n.aggregate_verification_key = tc.aggregate_verification_key.clone();
                if first_kept {
                    add(&mut pool, n.clone(), format!("~avk:={}[{}],hash-kept", t.chain.name, t.pos), false);
                }
                add(&mut pool, rehash(n), format!("~avk:={}[{}]", t.chain.name, t.pos), true);
            }
            if tc.metadata.protocol_parameters != c.metadata.protocol_parameters
                && !params_seen.contains(&tc.metadata.protocol_parameters)
            {
                params_seen.push(tc.metadata.protocol_parameters.clone());
                let mut n = c.clone();
                n.metadata.protocol_parameters = tc.metadata.protocol_parameters.clone();
                if first_kept {
                    add(&mut pool, n.clone(), format!("~params:={}[{}],hash-kept", t.chain.name, t.pos), false);
                }
                add(&mut pool, rehash(n), format!("~params:={}[{}]", t.chain.name, t.pos), true);
            }
            first_kept = false;
        }
        // an artificial parameter set that no certificate uses
        {
            let mut n = c.clone();
            n.metadata.protocol_parameters.k += 1;
            add(&mut pool, rehash(n), "~params:=k+1".into(), true);
        }
        for t in base.iter() {
            let tc = &t.chain.certs[t.pos];
            // signatures of: same chain neighbours, same epoch in other chains, the honest genesis
            let neighbour = std::ptr::eq(t.chain, b.chain) && t.pos.abs_diff(b.pos) == 1;
            let same_epoch_other = !std::ptr::eq(t.chain, b.chain) && tc.epoch == c.epoch;
            if !(neighbour || same_epoch_other) {
                continue;
            }
            let mut n = c.clone();
            n.signature = tc.signature.clone();
            add(&mut pool, rehash(n.clone()), format!("~sig:={}[{}]", t.chain.name, t.pos), false);
            // the whole signed statement of the other certificate (message, signed message, signature)
            n.protocol_message = tc.protocol_message.clone();
            n.signed_message = tc.signed_message.clone();
            add(&mut pool, rehash(n.clone()), format!("~statement:={}[{}]", t.chain.name, t.pos), true);
            // ... and its key and parameters too: a copy of t placed at c's position in the chain
            n.aggregate_verification_key = tc.aggregate_verification_key.clone();
            n.metadata.protocol_parameters = tc.metadata.protocol_parameters.clone();
            n.metadata.signers = tc.metadata.signers.clone();
            add(&mut pool, rehash(n), format!("~statement+key:={}[{}]", t.chain.name, t.pos), true);
        }
        {
            // signed_message replaced alone
            let mut n = c.clone();
            n.signed_message = honest_genesis.signed_message.clone();
            add(&mut pool, rehash(n), "~signed-message:=other".into(), false);
        }
        // M7 signed commitments altered: next aggregate key / next parameters / removed parts
        let mut next_seen = std::collections::BTreeSet::new();
        for t in base.iter() {
            let tc = &t.chain.certs[t.pos];
            if std::ptr::eq(t.chain, b.chain) || !near(c, tc, 1) || tc.is_genesis() {
                continue;
            }
            let x = avk_key(&tc.aggregate_verification_key);
            if Some(&x) == c.protocol_message.get_message_part(&ProtocolMessagePartKey::NextAggregateVerificationKey)
                || !next_seen.insert(x.clone())
            {
                continue;
            }
            let mut pm = c.protocol_message.clone();
            pm.set_message_part(ProtocolMessagePartKey::NextAggregateVerificationKey, x.clone());
            pm.set_message_part(
                ProtocolMessagePartKey::NextProtocolParameters,
                tc.metadata.protocol_parameters.compute_hash(),
            );
            let tag = format!("{}[{}]", t.chain.name, t.pos);
            // (a) content altered, nothing recomputed: the tampered parent served under the same hash
            let mut n = c.clone();
            n.protocol_message = pm.clone();
            add(&mut pool, n.clone(), format!("~next-key:={tag},hash-kept"), false);
            // (b) hash recomputed, signed message stale
            add(&mut pool, rehash(n.clone()), format!("~next-key:={tag},signed-message-stale"), true);
            // (c) signed message recomputed, signature stale
            n.signed_message = pm.compute_hash();
            add(&mut pool, rehash(n.clone()), format!("~next-key:={tag},signature-stale"), true);
            // (d) re-signed by the certificate's own signer set (internally consistent)
            if let Some(party) = owner {
                add(&mut pool, resign(c, party, pm.clone()), format!("~next-key:={tag},re-signed"), true);
            }
        }
        if let Some(party) = owner {
            for (part, name) in [
                (ProtocolMessagePartKey::NextAggregateVerificationKey, "next-key"),
                (ProtocolMessagePartKey::NextProtocolParameters, "next-params"),
                (ProtocolMessagePartKey::CurrentEpoch, "current-epoch"),
            ] {
                let mut pm = c.protocol_message.clone();
                pm.message_parts.remove(&part);
                add(&mut pool, resign(c, party, pm), format!("~{name}-removed,re-signed"), true);
            }
            let mut pm = c.protocol_message.clone();
            pm.set_message_part(ProtocolMessagePartKey::NextProtocolParameters, "ff".repeat(32));
            add(&mut pool, resign(c, party, pm), "~next-params:=other,re-signed".into(), true);
        }
    }

    // genesis-epoch grafts (two coordinated edits) on every honest chain
    for ch in w.chains.iter().filter(|c| c.honest) {
        for (cert, chain, pos, m) in genesis_epoch_graft(w, &ch.name).members {
            pool.push(&mut seen, cert, &chain, pos, m, false);
        }
    }

    // second order: every base child of p re-targeted to every recomputed-hash mutant p' of p
    if cfg.second_order {
        for (bi, pm, m) in &parent_mutants {
            let p = &base[*bi].chain.certs[base[*bi].pos];
            if pm.hash == p.hash {
                continue;
            }
            for b in base.iter() {
                let c = &b.chain.certs[b.pos];
                if c.previous_hash != p.hash {
                    continue;
                }
                let mut n = c.clone();
                n.previous_hash = pm.hash.clone();
                let label = format!("~prev:=({}[{}]{})", base[*bi].chain.name, base[*bi].pos, m);
                pool.push(&mut seen, rehash(n), &b.chain.name, b.pos, label, false);
            }
        }
    }
    pool
}
