//! mc-chaincert: serves C03 (see /verif/DESIGN.md §4)
mod c03;
mod oracle;
mod pool;
mod seam_a;
mod seam_b;

fn main() {
    let ctx = mc_core::Ctx::from_args();
    mc_core::quiet_panics();
    match ctx.property.as_str() {
        "C03" => c03::run(&ctx),
        other => {
            eprintln!("mc-chaincert does not serve {other}");
            std::process::exit(2);
        }
    }
}
