//! Independent restatement of C03: what a valid certificate, a valid genesis certificate and a
//! valid link are, read field by field from the certificates. Nothing of
//! `certificate_chain::certificate_verifier` or `Epoch::has_gap_with` is used here.
//!
//! Trusted (subjects of other properties): `Certificate::try_compute_hash` and
//! `ProtocolMessage::compute_hash` (C04), the STM aggregate-signature verification (C01), Ed25519.

use mithril_common::crypto_helper::{GenesisVerifier, ProtocolAggregateVerificationKeyForConcatenation};
use mithril_common::entities::{Certificate, CertificateSignature, ProtocolMessagePartKey};

/// Facts about one certificate taken alone.
#[derive(Clone, Debug, PartialEq, Eq, Hash)]
pub struct NodeFacts {
    pub is_genesis: bool,
    /// recomputed hash == hash field
    pub hash_ok: bool,
    /// signed_message == digest(protocol_message)
    pub message_ok: bool,
    /// the signed protocol message contains the certificate's epoch
    pub epoch_ok: bool,
    /// standard: multi-signature valid for signed_message under the certificate's own aggregate key
    /// and parameters; genesis: Ed25519 signature valid under the configured genesis key
    pub signature_ok: bool,
}

impl NodeFacts {
    pub fn ok(&self) -> bool {
        self.hash_ok && self.message_ok && self.epoch_ok && self.signature_ok
    }
    pub fn first_defect(&self) -> Option<&'static str> {
        if !self.hash_ok {
            Some("hash-does-not-match-content")
        } else if !self.message_ok {
            Some("signed-message-is-not-digest-of-protocol-message")
        } else if !self.signature_ok {
            Some(if self.is_genesis { "genesis-signature-invalid" } else { "multi-signature-invalid" })
        } else if !self.epoch_ok {
            Some("epoch-not-in-signed-message")
        } else {
            None
        }
    }
}

pub fn node_facts(c: &Certificate, genesis: &GenesisVerifier) -> NodeFacts {
    let hash_ok = c.try_compute_hash().map(|h| h == c.hash).unwrap_or(false);
    let message_ok = c.protocol_message.compute_hash() == c.signed_message;
    let epoch_ok = c
        .protocol_message
        .get_message_part(&ProtocolMessagePartKey::CurrentEpoch)
        .map(|s| *s == format!("{}", c.epoch.0))
        .unwrap_or(false);
    let (is_genesis, signature_ok) = match &c.signature {
        CertificateSignature::GenesisSignature(sig) => {
            (true, genesis.to_ed25519_verification_key().verify(c.signed_message.as_bytes(), sig).is_ok())
        }
        CertificateSignature::MultiSignature(_, msig) => {
            let avk = c.create_aggregate_verification_key();
            let params: mithril_stm::Parameters = c.metadata.protocol_parameters.clone().into();
            let ancillary = c.ancillary_verifier_data.clone().map(|d| d.into_inner());
            let r = mc_core::catch(|| msig.verify(c.signed_message.as_bytes(), &avk, &params, ancillary, None).is_ok());
            (false, r.unwrap_or(false))
        }
    };
    NodeFacts { is_genesis, hash_ok, message_ok, epoch_ok, signature_ok }
}

fn avk_bytes(k: &ProtocolAggregateVerificationKeyForConcatenation) -> Option<String> {
    k.to_json_hex().ok()
}

pub const ANCHORED_ONLY_IN_UNSIGNED_GENESIS_FIELDS: &str = "anchored-only-in-unsigned-genesis-fields";

/// does the signed protocol message of `p` commit to exactly the key and parameters of `c`?
fn commitment_defect(p: &Certificate, c: &Certificate) -> Option<&'static str> {
    let committed_avk = p
        .protocol_message
        .get_message_part(&ProtocolMessagePartKey::NextAggregateVerificationKey)
        .and_then(|s| ProtocolAggregateVerificationKeyForConcatenation::try_from(s.as_str()).ok())
        .and_then(|k| avk_bytes(&k));
    if committed_avk.is_none() || committed_avk != avk_bytes(&c.aggregate_verification_key) {
        return Some("previous-epoch-does-not-commit-to-aggregate-key");
    }
    let committed_params = p.protocol_message.get_message_part(&ProtocolMessagePartKey::NextProtocolParameters);
    if committed_params != Some(&c.metadata.protocol_parameters.compute_hash()) {
        return Some("previous-epoch-does-not-commit-to-parameters");
    }
    None
}

fn commits_to(p: &Certificate, c: &Certificate) -> bool {
    commitment_defect(p, c).is_none()
}

/// Why the link c → p is not one of the two allowed kinds (None = valid link).
/// Only the chaining rule is judged here; the hash p is reached by and p's own integrity are
/// judged separately.
pub fn link_defect(c: &Certificate, p: &Certificate) -> Option<&'static str> {
    let (ce, pe) = (c.epoch.0, p.epoch.0);
    if pe == ce {
        // A genesis certificate's own key / parameter fields are covered by its hash but not by the
        // genesis signature (only its signed protocol message is). A certificate of the genesis
        // epoch is anchored in the genesis key only through that signed message: the link is judged
        // by the commitment alone (deliberately weaker than the text when the unsigned fields differ
        // but the signed commitment matches).
        let p_is_genesis = matches!(p.signature, CertificateSignature::GenesisSignature(_));
        if p_is_genesis && commits_to(p, c) {
            return None;
        }
        // same epoch: same aggregate key and same parameters carried by both certificates
        if avk_bytes(&c.aggregate_verification_key) != avk_bytes(&p.aggregate_verification_key)
            || avk_bytes(&c.aggregate_verification_key).is_none()
        {
            return Some("same-epoch-different-aggregate-key");
        }
        if c.metadata.protocol_parameters != p.metadata.protocol_parameters {
            return Some("same-epoch-different-parameters");
        }
        if p_is_genesis {
            return Some(ANCHORED_ONLY_IN_UNSIGNED_GENESIS_FIELDS);
        }
        None
    } else if pe.checked_add(1) == Some(ce) {
        // immediately preceding epoch: p's signed message commits to exactly c's key and parameters
        commitment_defect(p, c)
    } else if ce.checked_add(1) == Some(pe) {
        Some("link-to-following-epoch")
    } else {
        Some("epoch-gap")
    }
}

/// would the link be fine if the epoch direction were ignored (p one epoch AFTER c, and p commits
/// to c's key and parameters)? used to tell the `abs_diff` finding from other causes
pub fn is_pure_forward_epoch_link(c: &Certificate, p: &Certificate) -> bool {
    if c.epoch.0.checked_add(1) != Some(p.epoch.0) {
        return false;
    }
    let mut shifted = c.clone();
    shifted.epoch = mithril_common::entities::Epoch(p.epoch.0 + 1);
    link_defect(&shifted, p).is_none()
}
