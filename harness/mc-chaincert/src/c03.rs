//! C03 — certificate chain verification accepts only chains anchored in the genesis key.
//!
//! Two explorers over real code (see seam_a.rs / seam_b.rs), one oracle (oracle.rs), one finite
//! universe of certificates (pool.rs).

use std::collections::BTreeSet;

use mc_core::{Ctx, Report};
use mithril_common::entities::Certificate;
use serde_json::json;

use crate::pool::{MutationCfg, World, WorldCfg, seam_a_pool};
use crate::seam_b::Bounds;
use crate::{seam_a, seam_b};

const RULE: &str = "Seam A (states = certificates): for every certificate c of a finite pool (the certificates of four chains - two \
built by the project's CertificateChainBuilder, one honest with parameters changing per epoch, one adversarial under its own genesis key \
and signer keys - plus every structural mutation of each: re-targeted / dropped / dangling / self links, epoch +-1, swapped aggregate key, \
parameters, signature, signed statement, altered or removed signed commitments, each with and without recomputed hash and, where keys allow, \
re-signed; plus children re-targeted to the recomputed mutants of their parent) the real verify_certificate(c) is executed once per provider \
answer: every pool member claiming the requested hash, every base certificate, 'not found' (the whole pool for base rows and, thorough, for \
re-targeted rows of chains H2 and A); then the real verify_certificate_chain from every member with a provider answering by hash. A pair is \
non-trivial when c is sound on its own and the answer claims the requested hash, i.e. when the chaining rule itself decides. \
Seam B (states = cache contents): every history of client verify_chain calls - any pool member as start, provider deviating from the honest \
answer at a bounded number of requests by serving any pool member, 'not found' or an error - on the real client verifier with the real \
in-memory cache, explored breadth-first over distinct cache contents; a call is non-trivial when at least two certificates were validated or \
the cache was used. distinct = distinct (certificate, answer) pairs / chain starts / (cache state, start, deviations) triples";

pub fn run(ctx: &Ctx) -> ! {
    let threads = ctx.threads();
    let mut rep = Report::new("model_checking", RULE);
    let quick = ctx.tier == mc_core::Tier::Quick;
    let world_cfg = WorldCfg { epochs: ctx.tier.pick(2, 4), per_epoch: 2, with_h3: true };
    let w = World::build(&world_cfg);
    let mut_cfg = MutationCfg { retarget_epoch_radius: ctx.tier.pick(1, 2), swap_epoch_radius: 1, second_order: true };
    let pool = seam_a_pool(&w, &mut_cfg);
    // seam B works on its own, smaller world (one certificate per epoch)
    // quick: 3 epochs, histories of <= 2 calls with <= 1 provider deviation
    // thorough: 4 epochs, <= 3 calls with <= 1 deviation; and on the 3-epoch pool <= 2 calls with <= 2 deviations
    let wb_small = World::build(&WorldCfg { epochs: 2, per_epoch: 1, with_h3: false });
    let wb_large = World::build(&WorldCfg { epochs: 3, per_epoch: 1, with_h3: false });
    let honest_b: Vec<&str> = vec!["H2"];
    let pool_b_small = seam_b::build_pool(&wb_small, &honest_b, true, threads);
    let pool_b_large = seam_b::build_pool(&wb_large, &honest_b, true, threads);
    // the deep plain plan of the thorough tier runs without the length-2 segments
    let pool_b_large_plain = seam_b::build_pool(&wb_large, &honest_b, false, threads);
    let plans: Vec<(&World, &seam_b::PoolB, Bounds)> = if quick {
        vec![(&wb_small, &pool_b_small, Bounds { max_calls: 2, max_devs: 1, disguised_answers: true })]
    } else {
        vec![
            (&wb_large, &pool_b_large_plain, Bounds { max_calls: 3, max_devs: 1, disguised_answers: false }),
            (&wb_large, &pool_b_large, Bounds { max_calls: 2, max_devs: 1, disguised_answers: true }),
            (&wb_small, &pool_b_small, Bounds { max_calls: 2, max_devs: 2, disguised_answers: false }),
        ]
    };
    rep.extra(
        "bounds",
        json!({
            "A_epochs_after_genesis": world_cfg.epochs, "A_chains": w.chains.iter().map(|c| format!("{}({} certificates)", c.name, c.certs.len())).collect::<Vec<_>>(),
            "A_pool": pool.members.len(), "A_retarget_epoch_radius": mut_cfg.retarget_epoch_radius,
            "B_honest_chains": honest_b,
            "B_histories": plans.iter().map(|(_, p, b)| format!("pool of {} certificates: <= {} verify_chain calls, <= {} provider deviations{}", p.members.len(), b.max_calls, b.max_devs, if b.disguised_answers { " (any member, any member's content under the requested hash, not-found, error)" } else { " (any member, not-found, error)" })).collect::<Vec<_>>(),
        }),
    );

    if let Some(path) = &ctx.replay {
        let v = mc_core::load_replay(path);
        let large = v["pool_b"].as_u64() == Some(pool_b_large.members.len() as u64);
        if v["pool_b"].as_u64() == Some(pool_b_large_plain.members.len() as u64) {
            replay(ctx, rep, &v, &pool, &w, &pool_b_large_plain, &wb_large);
        } else if large {
            replay(ctx, rep, &v, &pool, &w, &pool_b_large, &wb_large);
        } else {
            replay(ctx, rep, &v, &pool, &w, &pool_b_small, &wb_small);
        }
    }

    eprintln!("[C03] pools built at {:.1}s cpu {:.1}s (A {} members, B {}/{} members)", ctx.elapsed_s(), cpu_s(), pool.members.len(), pool_b_small.members.len(), pool_b_large.members.len());
    // ---------------- seam A
    let full_rows: BTreeSet<usize> = (0..pool.members.len())
        .filter(|i| {
            let m = &pool.members[*i];
            m.base
                || (!quick
                    && (m.origin.chain == "H2" || m.origin.chain == "A")
                    && m.origin.mutation.starts_with("~prev:=")
                    && !m.origin.mutation.starts_with("~prev:=("))
        })
        .collect();
    let mut a = seam_a::explore(&pool, &w.genesis_verifier, &full_rows, threads);
    eprintln!("[C03] seam A pairs done at {:.1}s cpu {:.1}s ({} steps)", ctx.elapsed_s(), cpu_s(), a.rep.evaluations);
    seam_a::check_graph(&pool, &mut a);
    // completeness on the honest chains: every real link and genesis accepted
    for ch in w.chains.iter().filter(|c| c.honest) {
        for (pos, c) in ch.certs.iter().enumerate() {
            let ci = pool.find(&format!("{}[{}]", ch.name, pos)).expect("base member");
            let ok = if c.is_genesis() {
                a.accepted_terminals.contains(&ci)
            } else {
                let pi = (0..pool.members.len()).find(|i| pool.members[*i].base && pool.members[*i].cert.hash == c.previous_hash);
                pi.is_some_and(|pi| a.accepted_edges.contains(&(ci, pi)))
            };
            if !ok {
                seam_a::found(
                    &mut a.found,
                    "C03/honest-link-rejected",
                    format!("verify_certificate({}) with its true previous certificate was not accepted", pool.label(ci)),
                    json!({"seam": "A", "certificate": pool.label(ci), "answer": null}),
                );
            }
        }
    }
    // the adversarial chain is internally consistent: under ITS genesis key every link is accepted
    {
        let ach = w.chain("A");
        for (pos, c) in ach.certs.iter().enumerate() {
            let answer = ach.certs.iter().find(|p| p.hash == c.previous_hash);
            let (out, _) = seam_a::step(&w.adversary_genesis_verifier, c, answer);
            a.rep.eval();
            if matches!(out, seam_a::StepOutcome::Rejected(_) | seam_a::StepOutcome::Panicked(_)) {
                a.rep.machinery_error(format!("adversarial chain is not internally consistent at A[{pos}]: {out:?}"));
            }
        }
    }
    let certs: Vec<&Certificate> = pool.members.iter().map(|m| &m.cert).collect();
    let chain_defect = seam_a::chain_defects(&certs, &a.facts);
    let honest_base: Vec<bool> = pool
        .members
        .iter()
        .map(|m| m.base && w.chains.iter().any(|c| c.honest && c.name == m.origin.chain))
        .collect();
    let (ac, ac_found) = seam_a::chains_by_hash(&pool, &w.genesis_verifier, &chain_defect, &honest_base, threads);
    let a_transitions = a.rep.evaluations + ac.evaluations;
    let mut all_found: seam_a::Found = vec![];
    all_found.extend(a.found);
    all_found.extend(ac_found);
    rep.merge(a.rep);
    rep.merge(ac);
    rep.extra("A_pool_members_sound_on_their_own", json!(a.facts.iter().filter(|f| f.ok()).count()));
    rep.extra("A_pool_members_with_valid_chain", json!(chain_defect.iter().filter(|d| d.is_none()).count()));

    eprintln!("[C03] seam A done at {:.1}s cpu {:.1}s", ctx.elapsed_s(), cpu_s());
    // ---------------- seam B
    let mut b_states = 0u64;
    let mut b_calls = 0u64;
    let mut b_found: Vec<(usize, mc_core::Violation)> = vec![];
    for (pi, (wb, pool_b, b)) in plans.iter().enumerate() {
        let r = seam_b::explore(pool_b, wb, b, threads);
        b_states += r.states;
        b_calls += r.calls;
        let mut part = r.rep;
        // keep the per-bound breakdown under distinct names
        let tag = format!("B[pool{},{}calls,{}devs{}]", pool_b.members.len(), b.max_calls, b.max_devs, if b.disguised_answers { ",disguised" } else { "" });
        for k in ["B_depths", "B_distinct_cache_states"] {
            if let Some(v) = part.extras.remove(k) {
                part.extras.insert(format!("{tag}_{k}"), v);
            }
        }
        rep.merge(part);
        for mut v in r.found {
            v.replay["pool_b"] = json!(pool_b.members.len());
            // every seam-B violation is re-run from an empty cache through its whole history before it is reported
            match seam_b::history_from_json(pool_b, &v.replay["history"]) {
                None => rep.machinery_errors.push(format!("cannot parse own history for {}", v.key)),
                Some(h) => {
                    if b_found.iter().filter(|(p, x)| *p == pi && x.key == v.key).count() < 40 {
                        let (results, _) = seam_b::run_history(pool_b, &wb.genesis_vkey_hex, &h);
                        if !results.last().is_some_and(|r| r.ok) {
                            rep.machinery_errors.push(format!("replay divergence: history for {} does not end in Ok when re-run from an empty cache", v.key));
                        }
                    }
                }
            }
            b_found.push((pi, v));
        }
        eprintln!("[C03] seam B plan {tag} done at {:.1}s cpu {:.1}s", ctx.elapsed_s(), cpu_s());
    }
    all_found.extend(b_found.into_iter().map(|x| x.1));
    // entry point: CertificateClient::verify_chain(hash), first request answered by the provider
    let entry_pool: &seam_b::PoolB = if quick { &pool_b_small } else { &pool_b_large };
    let entry_world: &World = if quick { &wb_small } else { &wb_large };
    let (entry_rep, entry_found) = seam_b::entry_point_sweep(entry_pool, entry_world, threads);
    b_calls += entry_rep.evaluations;
    rep.merge(entry_rep);
    all_found.extend(entry_found);
    eprintln!("[C03] seam B entry point done at {:.1}s cpu {:.1}s", ctx.elapsed_s(), cpu_s());
    rep.extra("B_pool_members_with_valid_chain", json!(plans.iter().map(|(_, p, _)| p.chain_defect.iter().filter(|d| d.is_none()).count()).collect::<Vec<_>>()));
    // smallest counterexample of every key first (only the first few per key are written out)
    all_found.sort_by(|x, y| {
        let size = |v: &mc_core::Violation| v.replay.to_string().len();
        (x.key.as_str(), size(x), x.replay.to_string()).cmp(&(y.key.as_str(), size(y), y.replay.to_string()))
    });
    all_found.dedup_by(|x, y| x.key == y.key && x.replay == y.replay);
    for v in all_found {
        rep.push_violation(v);
    }

    rep.states = Some(pool.members.len() as u64 + b_states);
    rep.transitions = Some(a_transitions + b_calls);
    rep.traces_validated = Some(a_transitions + b_calls);
    rep.sample(json!({"seam": "A", "pool_member_examples": (0..pool.members.len()).step_by((pool.members.len() / 5).max(1)).map(|i| pool.label(i)).collect::<Vec<_>>()}));
    rep.sample(json!({"seam": "B", "pool": (0..plans[0].1.members.len()).map(|i| plans[0].1.label(i)).collect::<Vec<_>>()}));
    rep.assume("certificate hash and protocol-message digest computation are trusted (subject of C04); STM aggregate-signature verification and Ed25519 are trusted (C01): the oracle calls them directly on each certificate");
    rep.assume("the universe is a finite pool: chains of at most 5 epochs, one adversarial key set, Concatenation proofs only (feature future_snark off)");
    rep.assume("seam A answers: all pool members claiming the requested hash, all base certificates and 'not found' for every row; the full pool for base rows (and, thorough, for re-targeted rows)");
    rep.assume("seam B cache states are re-created through the public store_validated_certificate API instead of replaying the history; every reported violation is re-run through its whole history from an empty cache");
    rep.assume("a genesis certificate's own aggregate-key / parameter fields are not covered by the genesis signature: a same-epoch link to a genesis certificate is judged by the commitment in its signed protocol message alone (weaker than the text when the unsigned fields differ but the signed commitment matches; accepted with equal fields but another commitment is the finding genesis-epoch-certificate-anchored-only-in-unsigned-genesis-fields)");
    rep.finish(ctx)
}

fn cpu_s() -> f64 {
    // user+system CPU seconds of this process (wall time is meaningless on a shared machine)
    let Ok(stat) = std::fs::read_to_string("/proc/self/stat") else { return 0.0 };
    let after = stat.rsplit(')').next().unwrap_or("");
    let f: Vec<&str> = after.split_whitespace().collect();
    let ticks: f64 = f.get(11).and_then(|x| x.parse::<f64>().ok()).unwrap_or(0.0) + f.get(12).and_then(|x| x.parse::<f64>().ok()).unwrap_or(0.0);
    ticks / 100.0
}

fn replay(ctx: &Ctx, mut rep: Report, v: &serde_json::Value, pool: &crate::pool::Pool, w: &World, pool_b: &seam_b::PoolB, wb: &World) -> ! {
    rep.nontrivial(&0);
    rep.nontrivial(&1);
    match v["seam"].as_str().unwrap_or("") {
        "A" | "A-chain" | "A-graph" => {
            let facts: Vec<_> = pool.members.iter().map(|m| crate::oracle::node_facts(&m.cert, &w.genesis_verifier)).collect();
            let Some(ci) = v["certificate"].as_str().and_then(|l| pool.find(l)) else {
                rep.machinery_error("replay: unknown certificate label".into());
                rep.finish(ctx)
            };
            if v["seam"] == "A" {
                let ai = v["answer"].as_str().and_then(|l| pool.find(l));
                let (out, _) = seam_a::step(&w.genesis_verifier, &pool.members[ci].cert, ai.map(|i| &pool.members[i].cert));
                rep.eval();
                eprintln!("replay: verify_certificate({}) with answer {:?} -> {:?}", pool.label(ci), ai.map(|i| pool.label(i)), out);
                if let Some((key, what)) = seam_a::judge_step(pool, &facts, ci, ai, &out) {
                    rep.violation(&key, what, v.clone());
                }
            } else {
                let certs: Vec<&Certificate> = pool.members.iter().map(|m| &m.cert).collect();
                let cd = seam_a::chain_defects(&certs, &facts);
                let hb = vec![false; pool.members.len()];
                let (r, f) = seam_a::chains_by_hash(pool, &w.genesis_verifier, &cd, &hb, 1);
                rep.evaluations += r.evaluations;
                // keep only the violation of the replayed certificate
                for x in f.into_iter().filter(|x| x.replay["certificate"] == v["certificate"]) {
                    rep.push_violation(x);
                }
            }
        }
        "B-entry" => {
            let requested = v["requested"].as_str().and_then(|l| seam_b::requested_from_label(pool_b, l));
            let first = seam_b::entry_first_from_json(pool_b, &v["first_answer"]);
            let (Some(requested), Some(first)) = (requested, first) else {
                rep.machinery_error("replay: cannot parse entry-point case".into());
                rep.finish(ctx)
            };
            let res = seam_b::run_entry(pool_b, &wb.genesis_vkey_hex, &requested, first);
            rep.eval();
            eprintln!("replay: CertificateClient::verify_chain({requested}) first answer {first:?} -> {:?} | requests={:?}", res.returned, res.requests.iter().map(|(h, a)| (h.get(..8).unwrap_or("").to_string(), *a)).collect::<Vec<_>>());
            if let Some((key, what)) = seam_b::judge_entry(pool_b, &requested, &res) {
                rep.violation(&key, what, v.clone());
            }
        }
        "B" => {
            let Some(h) = seam_b::history_from_json(pool_b, &v["history"]) else {
                rep.machinery_error("replay: cannot parse history".into());
                rep.finish(ctx)
            };
            let (results, cache) = seam_b::run_history(pool_b, &wb.genesis_vkey_hex, &h);
            for (c, r) in h.iter().zip(&results) {
                rep.eval();
                eprintln!(
                    "replay: verify_chain({}) deviations={:?} -> ok={} {} | requests={:?} | events(cache?,hash)={:?}",
                    pool_b.label(c.start),
                    c.devs,
                    r.ok,
                    r.error,
                    r.requests.iter().map(|(h, a)| (h.get(..8).unwrap_or("").to_string(), *a)).collect::<Vec<_>>(),
                    r.events.iter().map(|(b, h)| (*b, h[..8].to_string())).collect::<Vec<_>>()
                );
            }
            eprintln!("replay: cache at the end: {} entries", cache.len());
            if let (Some(c), Some(r)) = (h.last(), results.last()) {
                if let Some((key, what)) = seam_b::judge(pool_b, r, c, h.len() == 1) {
                    rep.violation(&key, what, v.clone());
                }
            }
        }
        other => rep.machinery_error(format!("replay: unknown seam '{other}'")),
    }
    rep.finish(ctx)
}
