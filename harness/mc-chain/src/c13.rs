//! C13 — imported chain data converges to the canonical chain under any roll-backs.
//!
//! Explicit-state exploration by replay: a state is an event history over
//! {Advance, Fork, ArmFork, Import, Restart, Reconnect, Prune}; every history is replayed on a
//! fresh instance of the real signer-side stack (see sut.rs) against the harness node (node.rs).
//! Oracle (differential, no re-implementation of the importer): after every `Import(t)` the
//! tables must equal those of a fresh node that imports the current canonical chain once up to t,
//! and the root both signable builders give for every beacon b <= t must equal the root of a
//! fresh node that imported exactly up to b.

use std::collections::HashMap;
use std::path::{Path, PathBuf};
use std::sync::atomic::{AtomicU64, Ordering};
use std::sync::{Arc, Mutex};

use mc_core::explore::{Explorer, RunResult, standard_edits};
use mc_core::{Ctx, Report, Violation, hash64};
use serde::{Deserialize, Serialize};
use serde_json::json;

use crate::node::{Blk, Served, Server};
use crate::sut::{Cfg, CrashPoint, Sut, Tables, new_db, read_tables, remove_db};

pub const MAX_LEN: usize = 50;
const RANGE: u64 = 15;

#[derive(Clone, Copy, Debug, PartialEq, Eq, Serialize, Deserialize)]
pub enum ForkTo {
    /// one block below the tip
    TipMinus1,
    /// the last block of the highest complete block range below the tip (14, 29, 44)
    Boundary,
    /// one below (13, 28, 43): inside a range whose root may be stored
    BoundaryMinus1,
    /// the first block of the next range (15, 30, 45)
    BoundaryPlus1,
    /// the lowest block the node has stored
    FirstStored,
    /// the block below it (Origin if there is none)
    BeforeFirstStored,
}
const FORK_TOS: [ForkTo; 6] =
    [ForkTo::TipMinus1, ForkTo::Boundary, ForkTo::BoundaryMinus1, ForkTo::BoundaryPlus1, ForkTo::FirstStored, ForkTo::BeforeFirstStored];

#[derive(Clone, Copy, Debug, PartialEq, Eq, Serialize, Deserialize)]
pub enum Target {
    Tip,
    TipMinus5,
    Abs(u64),
}
/// around the block-range boundaries: last block of a range (14, 29, 44), one below (28, 43), first block of the
/// next range (30, 45), the middle of a range (24)
const TARGETS: [Target; 10] = [
    Target::Tip,
    Target::TipMinus5,
    Target::Abs(14),
    Target::Abs(24),
    Target::Abs(28),
    Target::Abs(29),
    Target::Abs(30),
    Target::Abs(43),
    Target::Abs(44),
    Target::Abs(45),
];
const QUICK_TARGETS: usize = 7;

#[derive(Clone, Copy, Debug, PartialEq, Eq, Serialize, Deserialize)]
pub enum Ev {
    /// the node's chain grows by n blocks
    Advance(u64),
    /// the node switches to a fork that keeps the blocks up to the given point and is one block
    /// longer than the chain it replaces
    Fork(ForkTo),
    /// the node will switch to a fork `depth` blocks below the client's read pointer once the next
    /// scan has rolled two blocks forward (a roll-back in the middle of an import)
    ArmFork(u64),
    /// the signer computes the protocol message for this beacon (import up to it, then roots)
    Import(Target),
    /// new signer process on the same database (the importer's last polled point is lost)
    Restart,
    /// the connection to the node is lost, the signer process goes on
    Reconnect,
    /// `ChainDataPruner::prune(keep)` as `ChainDataImporterWithPruner` calls it after an import
    Prune(u64),
    /// the signer starts the import for the beacon at the tip and the process dies inside
    /// `CardanoChainDataImporter::import` at the given point (blocks committed, range-root steps not
    /// yet run / half run); a new process is started on the same database
    CrashImport(CrashPoint),
    /// the import for the beacon at the tip loses its connection to the node after four blocks were
    /// rolled forward (chain-sync time-out or reset: the reader errors and reconnects); same process
    TimeoutImport,
}

#[derive(Clone, Copy, PartialEq)]
pub enum Mode {
    /// prefix-closed exploration: the root oracle runs after the last event only; a history whose
    /// proper prefix already diverged is pruned
    Bfs,
    /// free-standing histories: all oracles after every import, inapplicable events are skipped
    Ball,
}

// counters over all replays (deterministic: the set of replays is)
static N_IMPORTS: AtomicU64 = AtomicU64::new(0);
static N_IMPORTS_NO_SCAN: AtomicU64 = AtomicU64::new(0);
static N_IMPORTS_INCREMENTAL: AtomicU64 = AtomicU64::new(0);
static N_ROLLBACKS_APPLIED: AtomicU64 = AtomicU64::new(0);
static N_ROLLBACKS_ECHO: AtomicU64 = AtomicU64::new(0);
static N_IMPORT_ERRORS: AtomicU64 = AtomicU64::new(0);
static N_NODE_TIMEOUTS: AtomicU64 = AtomicU64::new(0);
static N_MIDSCAN_FORKS: AtomicU64 = AtomicU64::new(0);
static N_ROOT_COMPARISONS: AtomicU64 = AtomicU64::new(0);
static N_TABLE_COMPARISONS: AtomicU64 = AtomicU64::new(0);
static N_SHADOW_MISMATCH: AtomicU64 = AtomicU64::new(0);
/// shortest counterexample seen per classifier key: (history length, history, violation)
static SHORTEST: Mutex<Option<std::collections::BTreeMap<String, (usize, String, Violation)>>> = Mutex::new(None);

fn remember_shortest(v: &Violation) {
    let h = v.replay["history"].as_array().map(|a| a.len()).unwrap_or(usize::MAX);
    let hs = v.replay["history"].to_string();
    let mut g = SHORTEST.lock().unwrap();
    let m = g.get_or_insert_with(Default::default);
    match m.get(&v.key) {
        Some((l, s, _)) if (*l, s.as_str()) <= (h, hs.as_str()) => {}
        _ => {
            m.insert(v.key.clone(), (h, hs, v.clone()));
        }
    }
}
static N_INTERSECT_NOT_FOUND: AtomicU64 = AtomicU64::new(0);
static N_INTERSECT_NOT_SENT: AtomicU64 = AtomicU64::new(0);
static N_CRASHED_IMPORTS: AtomicU64 = AtomicU64::new(0);

/// What a fresh node holds and answers after importing `chain` once up to `imported_to`.
pub struct Fresh {
    pub tables: Tables,
    pub sign_blocks: Result<String, String>,
    pub sign_legacy: Option<Result<String, String>>,
}

pub struct FreshCache {
    scratch: PathBuf,
    map: Mutex<HashMap<(u64, u64, Cfg), Arc<Fresh>>>,
}

impl FreshCache {
    pub fn new(scratch: &Path) -> FreshCache {
        FreshCache { scratch: scratch.to_path_buf(), map: Mutex::new(HashMap::new()) }
    }
    pub fn len(&self) -> usize {
        self.map.lock().unwrap().len()
    }
    async fn get(&self, chain: &[Blk], imported_to: u64, cfg: Cfg) -> Arc<Fresh> {
        // the streamer reads at most two blocks beyond its target
        let visible = chain.len().min(imported_to as usize + 2);
        let key = (hash64(&chain[..visible]), imported_to, cfg);
        if let Some(f) = self.map.lock().unwrap().get(&key) {
            return f.clone();
        }
        let db = new_db(&self.scratch);
        let mut server = Server::new(MAX_LEN);
        server.chain = chain.to_vec();
        let server = Arc::new(Mutex::new(server));
        let sut = Sut::start(&db, server, cfg);
        let sign_blocks = sut.sign_blocks(imported_to).await;
        let sign_legacy = if (imported_to + 1) % RANGE == 0 { Some(sut.sign_legacy(imported_to).await) } else { None };
        let tables = read_tables(&db);
        drop(sut);
        remove_db(&db);
        let f = Arc::new(Fresh { tables, sign_blocks, sign_legacy });
        self.map.lock().unwrap().entry(key).or_insert(f).clone()
    }
}

fn same(a: &Result<String, String>, b: &Result<String, String>) -> bool {
    match (a, b) {
        (Ok(x), Ok(y)) => x == y,
        (Err(_), Err(_)) => true,
        _ => false,
    }
}

fn short(r: &Result<String, String>) -> String {
    match r {
        Ok(s) => s.chars().take(12).collect(),
        Err(e) => format!("error({})", e.chars().take(60).collect::<String>()),
    }
}

fn rle(blocks: impl Iterator<Item = (u64, u32)>) -> String {
    let mut out = String::new();
    let mut run: Option<(u64, u64, u32)> = None;
    for (n, b) in blocks {
        match run {
            Some((s, e, br)) if br == b && e + 1 == n => run = Some((s, n, br)),
            Some((s, e, br)) => {
                out.push_str(&format!("{s}-{e}@{br} "));
                run = Some((n, n, b));
            }
            None => run = Some((n, n, b)),
        }
    }
    if let Some((s, e, br)) = run {
        out.push_str(&format!("{s}-{e}@{br}"));
    }
    out
}

fn branch_of_hash(h: &str) -> u32 {
    // hash layout of node::Blk: B1 | number(8) | branch(4) | filler
    hex::decode(h).ok().filter(|b| b.len() >= 13).map(|b| u32::from_be_bytes([b[9], b[10], b[11], b[12]])).unwrap_or(u32::MAX)
}

fn describe_tables(t: &Tables) -> serde_json::Value {
    json!({
        "blocks": rle(t.blocks.iter().map(|b| (b.0, branch_of_hash(&b.2)))),
        "transactions": t.txs.len(),
        "block_range_roots": t.roots.iter().map(|r| format!("[{},{}) {}", r.0, r.1, &r.2[..r.2.len().min(10)])).collect::<Vec<_>>(),
        "legacy_block_range_roots": t.legacy_roots.iter().map(|r| format!("[{},{}) {}", r.0, r.1, &r.2[..r.2.len().min(10)])).collect::<Vec<_>>(),
    })
}

fn first_diff<T: PartialEq + std::fmt::Debug>(name: &str, node: &[T], fresh: &[T]) -> Option<String> {
    if node == fresh {
        return None;
    }
    let i = node.iter().zip(fresh.iter()).position(|(a, b)| a != b).unwrap_or(node.len().min(fresh.len()));
    Some(format!("{name}: node has {} rows, fresh import {}; first difference at row {i}: node {:?} / fresh {:?}", node.len(), fresh.len(), node.get(i), fresh.get(i)))
}

#[derive(Clone, Debug, PartialEq)]
enum Lpp {
    None,
    Point(u64, String),
    Unknown(u64),
}

struct Run<'a> {
    cfg: Cfg,
    mode: Mode,
    fresh: &'a FreshCache,
    db: PathBuf,
    server: Arc<Mutex<Server>>,
    sut: Option<Sut>,
    lpp: Lpp,
    crashed_in_last_import: bool,
    /// the importer proper ran through all its steps in the most recent import attempt and returned Ok
    last_import_completed: bool,
    rolled_into_pruned_range: bool,
    /// lowest point of the forks the node switched to since the importer last talked to it
    undelivered_fork_floor: Option<u64>,
    pruned: bool,
    incremental_imports: u32,
    rollbacks_applied: u32,
    violations: Vec<Violation>,
    /// the tables diverged at an earlier import
    corrupt: Option<String>,
    outcome: String,
}

fn resolve_fork(to: ForkTo, tip: u64, first_stored: Option<u64>) -> Option<u64> {
    let boundary = if tip >= RANGE { Some((tip / RANGE) * RANGE - 1) } else { None }; // highest 15k-1 < tip... (tip/15*15-1 <= tip-1)
    let h = match to {
        ForkTo::TipMinus1 => tip.checked_sub(1),
        ForkTo::Boundary => boundary,
        ForkTo::BoundaryMinus1 => boundary.map(|b| b - 1),
        ForkTo::BoundaryPlus1 => boundary.map(|b| b + 1),
        ForkTo::FirstStored => first_stored,
        ForkTo::BeforeFirstStored => first_stored.map(|f| f - 1),
    }?;
    if h < tip { Some(h) } else { None }
}

/// beacons never exceed the node's tip (they are `tip - security parameter` rounded down, C17)
fn resolve_target(t: Target, tip: u64) -> Option<u64> {
    match t {
        Target::Tip => (tip > 0).then_some(tip),
        Target::TipMinus5 => (tip > 5).then(|| tip - 5),
        Target::Abs(x) => (x <= tip).then_some(x),
    }
}

impl Run<'_> {
    fn replay_json(&self, history: &[Ev]) -> serde_json::Value {
        json!({"cfg": self.cfg, "history": history})
    }

    /// returns false when the event is not applicable in the current state
    async fn apply(&mut self, history: &[Ev], i: usize) -> bool {
        let ev = history[i];
        let last = i + 1 == history.len();
        let check_roots = self.mode == Mode::Ball || last;
        let tip = self.server.lock().unwrap().tip();
        match ev {
            Ev::Advance(n) => {
                if tip + n > MAX_LEN as u64 {
                    return false;
                }
                self.server.lock().unwrap().advance(n);
                self.outcome = "chain-advanced".into();
                true
            }
            Ev::Fork(to) => {
                let first = read_tables(&self.db).min_block().map(|b| b.0);
                let Some(h) = resolve_fork(to, tip, first) else { return false };
                if tip + 1 > MAX_LEN as u64 {
                    return false;
                }
                // the same fork point under an earlier name is the same event
                for other in FORK_TOS {
                    if other == to {
                        break;
                    }
                    if resolve_fork(other, tip, first) == Some(h) {
                        return false;
                    }
                }
                self.server.lock().unwrap().fork(h, 1);
                self.undelivered_fork_floor = Some(self.undelivered_fork_floor.map_or(h, |f| f.min(h)));
                self.outcome = "chain-forked".into();
                true
            }
            Ev::ArmFork(depth) => {
                let mut s = self.server.lock().unwrap();
                if s.armed_fork.is_some() {
                    return false;
                }
                s.armed_fork = Some(depth);
                self.outcome = "fork-armed".into();
                true
            }
            Ev::Restart => {
                self.sut = None;
                self.sut = Some(Sut::start(&self.db, self.server.clone(), self.cfg));
                self.lpp = Lpp::None;
                self.outcome = "restarted".into();
                true
            }
            Ev::Reconnect => {
                let mut s = self.server.lock().unwrap();
                if s.follower.is_none() {
                    return false;
                }
                s.disconnect();
                self.outcome = "reconnected".into();
                true
            }
            Ev::Prune(keep) => {
                // `ChainDataImporterWithPruner` prunes right after the wrapped importer returned Ok, never after an
                // import that was killed, failed, or was not run at all (chunk decorator)
                if !self.last_import_completed {
                    return false;
                }
                let before = read_tables(&self.db);
                let r = self.sut.as_ref().unwrap().prune(keep).await;
                let after = read_tables(&self.db);
                if r.is_err() {
                    self.outcome = "prune-error".into();
                    return true;
                }
                if before == after {
                    // nothing to prune: same state, no new behaviour
                    return false;
                }
                self.pruned = true;
                self.outcome = "pruned".into();
                true
            }
            Ev::CrashImport(at) => {
                let Some(t) = resolve_target(Target::Tip, tip) else { return false };
                self.sut.as_ref().unwrap().arm_crash(at);
                self.import(history, i, t, check_roots).await;
                // not reached (e.g. the chunk decorator did not call the importer): an ordinary import, already an event
                self.crashed_in_last_import
            }
            Ev::TimeoutImport => {
                let Some(t) = resolve_target(Target::Tip, tip) else { return false };
                self.server.lock().unwrap().armed_timeout = true;
                self.import(history, i, t, check_roots).await;
                let fired = !self.server.lock().unwrap().armed_timeout;
                self.server.lock().unwrap().armed_timeout = false;
                fired
            }
            Ev::Import(target) => {
                let Some(t) = resolve_target(target, tip) else { return false };
                for other in TARGETS {
                    if other == target {
                        break;
                    }
                    if resolve_target(other, tip) == Some(t) {
                        return false;
                    }
                }
                self.import(history, i, t, check_roots).await;
                true
            }
        }
    }

    async fn import(&mut self, history: &[Ev], i: usize, t: u64, check_roots: bool) {
        N_IMPORTS.fetch_add(1, Ordering::Relaxed);
        let pre = read_tables(&self.db);
        self.server.lock().unwrap().served.clear();
        let sut = self.sut.as_ref().unwrap();
        let sign_blocks = sut.sign_blocks(t).await;
        let sign_legacy = if (t + 1) % RANGE == 0 && sign_blocks.is_ok() { Some(sut.sign_legacy(t).await) } else { None };
        let (served, chain) = {
            let s = self.server.lock().unwrap();
            (s.served.clone(), s.chain.clone())
        };
        let post = read_tables(&self.db);
        let error = sign_blocks.as_ref().err().or(sign_legacy.as_ref().and_then(|r| r.as_ref().err())).cloned();
        let node_timeout = served.iter().any(|s| matches!(s, Served::Timeout));
        // the importer proper went through its last step (legacy range roots, then optimize); an error of the signable
        // builder afterwards (root of an empty map) does not undo the import
        let last_legacy_step = served.iter().rposition(|s| matches!(s, Served::LegacyRangeStep));
        let last_optimize = served.iter().rposition(|s| matches!(s, Served::Optimized));
        self.last_import_completed = matches!((last_legacy_step, last_optimize), (Some(l), Some(o)) if l < o) && !self.sut.as_ref().unwrap().crashed();

        // --- bookkeeping of what happened (from the node's side of the wire) --------------------
        let mut scans = 0;
        let mut from_slot = 0u64;
        let mut echo_rollbacks = 0;
        let mut echo_after_forwards = false;
        let mut forwards_in_scan = 0;
        let mut actions_in_scan = 0;
        let mut first_from_slot: Option<u64> = None;
        let mut below_first = false;
        // lowest slot among the blocks stored before this import or rolled forward (up to the target) during it
        let mut lowest_slot: Option<u64> = pre.min_block().map(|b| b.1);
        let mut real_rollbacks: Vec<(u64, u64)> = vec![]; // (height, slot)
        let mut scan_lpps: Vec<(Option<(u64, String)>, bool)> = vec![]; // per scan: streamer's last polled point, timed out
        let mut intersect_not_found = false;
        for s in &served {
            match s {
                Served::Intersect { slot, hash, found, not_sent } => {
                    scans += 1;
                    if scans == 1 {
                        // the importer resumes from its last polled point, else the highest stored block
                        let predicted = match &self.lpp {
                            Lpp::Point(s, h) => Some((*s, h.clone())),
                            Lpp::None => Some(pre.max_block().map(|b| (b.1, b.2.clone())).unwrap_or((0, String::new()))),
                            Lpp::Unknown(_) => None,
                        };
                        if let Some(p) = predicted
                            && p != (*slot, hash.clone())
                        {
                            N_SHADOW_MISMATCH.fetch_add(1, Ordering::Relaxed);
                            if std::env::var("MC_DEBUG").is_ok() {
                                eprintln!("shadow mismatch: predicted {p:?}, scan started from ({slot}, {hash}) in {}", serde_json::to_string(&history[..=i]).unwrap());
                            }
                        }
                    }
                    from_slot = *slot;
                    if scans == 1 {
                        first_from_slot = Some(*slot);
                    }
                    forwards_in_scan = 0;
                    actions_in_scan = 0;
                    scan_lpps.push((None, false));
                    if !found && !not_sent {
                        intersect_not_found = true;
                    }
                    if *not_sent {
                        N_INTERSECT_NOT_SENT.fetch_add(1, Ordering::Relaxed);
                    }
                }
                Served::Forward(b) => {
                    forwards_in_scan += 1;
                    actions_in_scan += 1;
                    if b.number <= t {
                        lowest_slot = Some(lowest_slot.map_or(b.slot(), |l: u64| l.min(b.slot())));
                    }
                }
                Served::Stored { slot, hash } => {
                    // the streamer's last polled point follows every batch it hands over
                    if let Some(l) = scan_lpps.last_mut() {
                        l.0 = Some((*slot, hash.clone()));
                    }
                }
                Served::Backward { height, slot } => {
                    // only the first answer of a scan can be the acknowledgement of the intersection
                    let acknowledgement = *slot == from_slot && actions_in_scan == 0;
                    actions_in_scan += 1;
                    if acknowledgement {
                        echo_rollbacks += 1;
                    } else {
                        if *slot == from_slot && forwards_in_scan > 0 {
                            echo_after_forwards = true;
                        }
                        // the roll-back point is Origin or lies before every block the store holds or was just given
                        if lowest_slot.is_some_and(|l| *slot < l) {
                            below_first = true;
                        }
                        real_rollbacks.push((*height, *slot));
                        let hash = if *height == 0 { String::new() } else { chain[*height as usize - 1].hash_hex() };
                        if let Some(l) = scan_lpps.last_mut() {
                            l.0 = Some((*slot, hash));
                        }
                    }
                }
                Served::ForkDuringScan { .. } => {
                    N_MIDSCAN_FORKS.fetch_add(1, Ordering::Relaxed);
                }
                Served::Timeout => {
                    if let Some(l) = scan_lpps.last_mut() {
                        l.1 = true;
                    }
                }
                Served::Await | Served::LegacyRangeStep | Served::Optimized => {}
            }
        }
        if intersect_not_found {
            N_INTERSECT_NOT_FOUND.fetch_add(1, Ordering::Relaxed);
        }
        N_ROLLBACKS_ECHO.fetch_add(echo_rollbacks, Ordering::Relaxed);
        N_ROLLBACKS_APPLIED.fetch_add(real_rollbacks.len() as u64, Ordering::Relaxed);
        if scans == 0 {
            N_IMPORTS_NO_SCAN.fetch_add(1, Ordering::Relaxed);
        } else if !pre.blocks.is_empty() {
            N_IMPORTS_INCREMENTAL.fetch_add(1, Ordering::Relaxed);
            self.incremental_imports += 1;
        }
        if !pre.blocks.is_empty() {
            self.rollbacks_applied += real_rollbacks.len() as u32;
        }
        if scans > 0 {
            self.undelivered_fork_floor = None;
        }
        // the importer keeps the streamer's last polled point of every scan that ended without error
        for (n, (l, timed_out)) in scan_lpps.iter().enumerate() {
            let last_scan = n + 1 == scan_lpps.len();
            if *timed_out {
                // the scan failed on the node's side: the importer either keeps its previous point (batches stored
                // meanwhile notwithstanding) or forgets it; both are admitted, the state remembers the previous point
                self.lpp = Lpp::Unknown(hash64(&format!("failed scan after {:?}", self.lpp)));
                continue;
            }
            if last_scan && error.is_some() {
                // failed somewhere in or after the scan: cannot tell whether the cursor moved
                self.lpp = Lpp::Unknown(hash64(&serde_json::to_string(&history[..=i]).unwrap()));
            } else if let Some((s, h)) = l {
                self.lpp = Lpp::Point(*s, h.clone());
            }
        }
        // a roll-back into a range whose first blocks were pruned (remembered across imports that are not judged)
        let first_stored = pre.min_block().map(|b| (b.0, b.1));
        if self.pruned && real_rollbacks.iter().any(|(h, _)| first_stored.is_some_and(|f| *h >= f.0 && f.0 > (h / RANGE * RANGE).max(1))) {
            self.rolled_into_pruned_range = true;
        }
        self.crashed_in_last_import = self.sut.as_ref().unwrap().crashed();
        if (node_timeout || self.crashed_in_last_import) && below_first {
            // the failed or killed import is not judged as a whole, but the roll-back it delivered must have removed the blocks
            // above its point: blocks that are not on the node's chain may not survive it
            let on_chain: std::collections::HashSet<String> = chain.iter().map(|b| b.hash_hex()).collect();
            if let Some(stale) = post.blocks.iter().find(|b| !on_chain.contains(&b.2)) {
                let key = "C13/rollback-before-first-stored-block-removes-nothing";
                let what = format!(
                    "during event #{i} {:?} of history {} [max_roll_forwards_per_poll={}, pallas_agency={}, chunk={:?}] the node delivered a roll-back to a point before the first stored block ({}), yet block {} (slot {}) of the abandoned branch is still stored; canonical chain {}",
                    history[i],
                    serde_json::to_string(&history[..=i]).unwrap(),
                    self.cfg.max_roll_forwards,
                    self.cfg.pallas_agency,
                    self.cfg.chunk,
                    describe_served(&served),
                    stale.0,
                    stale.1,
                    rle(chain.iter().map(|b| (b.number, b.branch))),
                );
                self.violations.push(Violation { key: key.into(), what, replay: self.replay_json(&history[..=i]) });
                self.corrupt = Some(key.to_string());
                self.outcome = format!("finding:{key}");
                return;
            }
        }
        self.crashed_in_last_import = self.sut.as_ref().unwrap().crashed();
        if self.crashed_in_last_import {
            // the process died inside the import: nothing to judge now; a new process starts on the same database
            N_CRASHED_IMPORTS.fetch_add(1, Ordering::Relaxed);
            self.sut = None;
            self.sut = Some(Sut::start(&self.db, self.server.clone(), self.cfg));
            self.lpp = Lpp::None;
            self.outcome = "import:process-killed-before-range-roots|restarted".into();
            return;
        }
        self.sut.as_ref().unwrap().disarm_crash();
        if let Some(e) = &error {
            N_IMPORT_ERRORS.fetch_add(1, Ordering::Relaxed);
            if node_timeout {
                N_NODE_TIMEOUTS.fetch_add(1, Ordering::Relaxed);
                self.outcome = "import-failed:node-timeout".into();
                return;
            }
            self.outcome = format!("import-failed:{}", e.chars().take(40).collect::<String>());
        } else if scans == 0 {
            self.outcome = "import:nothing-to-scan".into();
        } else if !real_rollbacks.is_empty() {
            self.outcome = "import:rolled-back-and-forward".into();
        } else if pre.blocks.is_empty() {
            self.outcome = "import:from-empty".into();
        } else {
            self.outcome = "import:incremental".into();
        }

        // --- oracle 1: tables ------------------------------------------------------------------
        N_TABLE_COMPARISONS.fetch_add(1, Ordering::Relaxed);
        let fresh = self.fresh.get(&chain, t, self.cfg).await;
        let node_part = post.up_to(t);
        let mut expected = fresh.tables.up_to(t);
        if self.pruned {
            // pruning legitimately removes the oldest blocks: the node must hold a suffix
            expected = expected.blocks_from(post.min_block().map(|b| b.0).unwrap_or(u64::MAX));
        }
        let diffs: Vec<String> = [
            first_diff("cardano_block", &node_part.blocks, &expected.blocks),
            first_diff("cardano_tx", &node_part.txs, &expected.txs),
            first_diff("block_range_root", &node_part.roots, &expected.roots),
            first_diff("block_range_root_legacy", &node_part.legacy_roots, &expected.legacy_roots),
        ]
        .into_iter()
        .flatten()
        .collect();
        if !diffs.is_empty() {
            // the node switched to a fork below the target and the importer has not talked to it since
            let undelivered_fork = scans == 0 && self.undelivered_fork_floor.is_some_and(|f| f < t);
            let only_roots_differ = node_part.blocks == expected.blocks && node_part.txs == expected.txs;
            let into_pruned_range = self.rolled_into_pruned_range;
            // the scan resumed from a point below blocks the store already holds (only possible after a scan that
            // failed after committing batches): the node's roll-back to that point passes for the mere acknowledgement
            let cursor_behind_store = first_from_slot.is_some_and(|f| pre.max_block().is_some_and(|m| f < m.1));
            // every root the node holds is right, but roots of ranges its blocks cover are missing and the importer
            // (behind the chunk decorator) was not run at all
            let subset = |a: &Vec<(u64, u64, String)>, b: &Vec<(u64, u64, String)>| a.len() < b.len() && a.iter().all(|x| b.contains(x));
            let roots_missing = only_roots_differ
                && (subset(&node_part.roots, &expected.roots) || node_part.roots == expected.roots)
                && (subset(&node_part.legacy_roots, &expected.legacy_roots) || node_part.legacy_roots == expected.legacy_roots);
            let key = if below_first {
                "C13/rollback-before-first-stored-block-removes-nothing"
            } else if echo_after_forwards && !only_roots_differ {
                // the symptom of a skipped roll-back is blocks of the abandoned branch that stay
                "C13/rollback-to-scan-start-point-ignored-mid-scan"
            } else if cursor_behind_store {
                "C13/failed-scan-leaves-cursor-behind-stored-blocks-then-rollback-taken-for-acknowledgement"
            } else if self.cfg.chunk.is_some() && scans == 0 && roots_missing && !undelivered_fork {
                "C13/chunk-decorator-skips-range-root-steps-when-blocks-already-stored"
            } else if undelivered_fork {
                // (an error of the root computation on the stale or incomplete tables included)
                "C13/import-skipped-when-target-already-stored-misses-rollback"
            } else if into_pruned_range && only_roots_differ {
                "C13/rollback-into-partly-pruned-range-recomputes-root-from-remaining-blocks"
            } else if error.is_some() {
                "C13/import-error-leaves-tables-diverged"
            } else {
                "C13/tables-diverge-from-fresh-import"
            };
            let what = format!(
                "after event #{i} {:?} (target block {t}) of history {} [max_roll_forwards_per_poll={}, pallas_agency={}, chunk={:?}] the node's tables differ from those of a fresh node that imports the canonical chain {} once up to {t}: {}. The node served in this import: {}. Import result: {}. Node tables: {} — fresh import: {}",
                history[i],
                serde_json::to_string(history).unwrap(),
                self.cfg.max_roll_forwards,
                self.cfg.pallas_agency,
                self.cfg.chunk,
                rle(chain.iter().map(|b| (b.number, b.branch))),
                diffs.join("; "),
                describe_served(&served),
                error.clone().unwrap_or_else(|| "ok".into()),
                describe_tables(&post),
                describe_tables(&fresh.tables),
            );
            self.violations.push(Violation { key: key.into(), what, replay: self.replay_json(&history[..=i]) });
            self.outcome = format!("finding:{key}");
            if key != "C13/import-skipped-when-target-already-stored-misses-rollback" {
                self.corrupt = Some(key.to_string());
            }
            return;
        }
        if error.is_some() {
            return;
        }

        // --- oracle 2: roots offered for signing -------------------------------------------------
        // the message the builders just produced for beacon t
        let mut root_violations: Vec<(String, String)> = vec![];
        if !same(&sign_blocks, &fresh.sign_blocks) {
            let key = self.classify_root(&post, &chain, t, &sign_blocks).await;
            root_violations.push((
                key,
                format!("CardanoBlocksTransactionsSignableBuilder::compute_protocol_message({t}) gives root {} but a fresh node that imports up to {t} gives {}", short(&sign_blocks), short(&fresh.sign_blocks)),
            ));
        }
        if let (Some(a), Some(b)) = (&sign_legacy, &fresh.sign_legacy)
            && !same(a, b)
        {
            root_violations.push((
                "C13/legacy-root-differs-from-fresh-import".into(),
                format!("CardanoTransactionsSignableBuilder::compute_protocol_message({t}) gives root {} but a fresh node that imports up to {t} gives {}", short(a), short(b)),
            ));
        }
        if check_roots {
            let sut = self.sut.as_ref().unwrap();
            for b in 1..t {
                N_ROOT_COMPARISONS.fetch_add(1, Ordering::Relaxed);
                let node_root = sut.root_blocks(b).await;
                let fb = self.fresh.get(&chain, b, self.cfg).await;
                if !same(&node_root, &fb.sign_blocks) {
                    let key = self.classify_root(&post, &chain, b, &node_root).await;
                    if !root_violations.iter().any(|(k, _)| *k == key) {
                        root_violations.push((
                            key,
                            format!(
                                "after importing up to {t}, the blocks/transactions builder's root for beacon {b} is {} but a fresh node that imported exactly up to {b} signs {}",
                                short(&node_root),
                                short(&fb.sign_blocks)
                            ),
                        ));
                    }
                }
                if (b + 1) % RANGE == 0 {
                    // the legacy entity is only ever signed at the last block of a range
                    N_ROOT_COMPARISONS.fetch_add(1, Ordering::Relaxed);
                    let node_root = sut.root_legacy(b).await;
                    if let Some(exp) = &fb.sign_legacy
                        && !same(&node_root, exp)
                        && !root_violations.iter().any(|(k, _)| k == "C13/legacy-root-differs-from-fresh-import")
                    {
                        root_violations.push((
                            "C13/legacy-root-differs-from-fresh-import".into(),
                            format!(
                                "after importing up to {t}, the legacy transactions builder's root for beacon {b} is {} but a fresh node that imported exactly up to {b} signs {}",
                                short(&node_root),
                                short(exp)
                            ),
                        ));
                    }
                }
            }
        }
        for (key, msg) in root_violations {
            let what = format!(
                "{msg}. History {} [max_roll_forwards_per_poll={}, pallas_agency={}, chunk={:?}], event #{i} {:?}, canonical chain {}. Node tables: {}",
                serde_json::to_string(&history[..=i]).unwrap(),
                self.cfg.max_roll_forwards,
                self.cfg.pallas_agency,
                self.cfg.chunk,
                history[i],
                rle(chain.iter().map(|b| (b.number, b.branch))),
                describe_tables(&post),
            );
            if !self.outcome.ends_with("|roots-differ") {
                self.outcome.push_str("|roots-differ");
            }
            self.violations.push(Violation { key, what, replay: self.replay_json(&history[..=i]) });
        }
    }

    /// name the cause of a wrong root for beacon b
    async fn classify_root(&self, post: &Tables, chain: &[Blk], b: u64, node_root: &Result<String, String>) -> String {
        let start = b / RANGE * RANGE;
        let end = start + RANGE;
        let partial = (b + 1) % RANGE != 0;
        let stored_full = post.roots.iter().any(|r| r.0 == start && r.1 == end);
        if partial && stored_full && start < b {
            // the tables up to b agree with a fresh import (oracle 1 passed), yet the root differs: does the node
            // answer for b what it answers for the last block of b's range, i.e. with the stored full-range root?
            let at_range_end = self.sut.as_ref().unwrap().root_blocks(end - 1).await;
            if same(&at_range_end, node_root) {
                return "C13/partial-beacon-root-uses-later-range-root".into();
            }
        }
        if self.pruned && partial {
            // the partial range has to be computed from blocks that were pruned
            let have: std::collections::HashSet<u64> = post.blocks.iter().map(|x| x.0).collect();
            if (start.max(1)..=b.min(chain.len() as u64)).any(|n| !have.contains(&n)) {
                return "C13/partial-beacon-root-misses-pruned-blocks".into();
            }
        }
        "C13/root-differs-from-fresh-import".into()
    }

    fn canon(&self) -> String {
        if let Some(k) = &self.corrupt {
            return format!("batch={} pallas_agency={} chunk={:?} | diverged:{k}", self.cfg.max_roll_forwards, self.cfg.pallas_agency, self.cfg.chunk);
        }
        let t = read_tables(&self.db);
        let s = self.server.lock().unwrap();
        format!(
            "batch={} pallas_agency={} chunk={:?} | chain[{}] next_branch={} armed={:?} follower={:?} | db blocks[{}] tx={:x} roots={:x}/{} legacy={:x}/{} | lpp={:?} pruned={} import_completed={}",
            self.cfg.max_roll_forwards,
            self.cfg.pallas_agency,
            self.cfg.chunk,
            rle(s.chain.iter().map(|b| (b.number, b.branch))),
            s.next_branch,
            s.armed_fork,
            s.follower,
            rle(t.blocks.iter().map(|b| (b.0, branch_of_hash(&b.2)))),
            hash64(&t.txs),
            hash64(&t.roots),
            t.roots.len(),
            hash64(&t.legacy_roots),
            t.legacy_roots.len(),
            self.lpp,
            self.pruned,
            self.last_import_completed
        )
    }
}

fn describe_served(served: &[Served]) -> String {
    let mut out = vec![];
    let mut fw: Option<(Blk, Blk)> = None;
    let flush = |fw: &mut Option<(Blk, Blk)>, out: &mut Vec<String>| {
        if let Some((a, b)) = fw.take() {
            out.push(if a == b { format!("RollForward({}@{})", a.number, a.branch) } else { format!("RollForward({}@{}..{}@{})", a.number, a.branch, b.number, b.branch) });
        }
    };
    for s in served {
        if matches!(s, Served::Stored { .. } | Served::LegacyRangeStep | Served::Optimized) {
            continue;
        }
        match s {
            Served::Forward(b) => {
                fw = Some(match fw {
                    Some((a, _)) => (a, *b),
                    None => (*b, *b),
                })
            }
            other => {
                flush(&mut fw, &mut out);
                out.push(match other {
                    Served::Intersect { slot, found, not_sent, .. } => {
                        format!("FindIntersect(slot {slot}){}", if *not_sent { " not sent (no agency)" } else if *found { "" } else { " not found" })
                    }
                    Served::Backward { height, slot } => format!("RollBackward(block {height}, slot {slot})"),
                    Served::Await => "Await".into(),
                    Served::Timeout => "timeout".into(),
                    Served::ForkDuringScan { to } => format!("<node switches to a fork at block {to}>"),
                    Served::Forward(_) | Served::Stored { .. } | Served::LegacyRangeStep | Served::Optimized => unreachable!(),
                });
            }
        }
    }
    flush(&mut fw, &mut out);
    if out.is_empty() { "nothing (the node was not contacted)".into() } else { out.join(", ") }
}

/// A panic of the importer under test (or of the harness) during one history must not take the
/// exploration down: it becomes that history's outcome and the exploration goes on.
pub fn replay(scratch: &Path, cfg: Cfg, mode: Mode, fresh: &FreshCache, history: &[Ev]) -> RunResult {
    match mc_core::catch(|| replay_inner(scratch, cfg, mode, fresh, history)) {
        Ok(r) => r,
        Err(e) => {
            let loc = mc_core::last_panic_location();
            RunResult {
                canon: format!("PANIC@{loc}"),
                violations: vec![],
                nontrivial: false,
                outcome: format!("PANIC@{loc}:{}", e.chars().take(60).collect::<String>()),
                disabled: false,
            }
        }
    }
}

fn replay_inner(scratch: &Path, cfg: Cfg, mode: Mode, fresh: &FreshCache, history: &[Ev]) -> RunResult {
    thread_local! {
        // one single-threaded runtime per worker thread (its blocking-pool thread is reused by the imports)
        static RT: tokio::runtime::Runtime =
            tokio::runtime::Builder::new_current_thread().enable_all().max_blocking_threads(2).build().expect("tokio runtime");
    }
    let db = new_db(scratch);
    let res = RT.with(|rt| rt.block_on(async {
        let server = Arc::new(Mutex::new(Server::new(MAX_LEN)));
        let mut run = Run {
            cfg,
            mode,
            fresh,
            db: db.clone(),
            server: server.clone(),
            sut: None,
            lpp: Lpp::None,
            crashed_in_last_import: false,
            last_import_completed: false,
            rolled_into_pruned_range: false,
            undelivered_fork_floor: None,
            pruned: false,
            incremental_imports: 0,
            rollbacks_applied: 0,
            violations: vec![],
            corrupt: None,
            outcome: "initial".into(),
        };
        run.sut = Some(Sut::start(&db, server, cfg));
        let mut disabled = false;
        for i in 0..history.len() {
            let last = i + 1 == history.len();
            let applicable = run.apply(history, i).await;
            if !applicable && last && mode == Mode::Bfs {
                disabled = true;
            }
            if run.corrupt.is_some() {
                if !last && mode == Mode::Bfs {
                    // reported when this prefix was explored; states behind a divergence are not explored
                    disabled = true;
                }
                break;
            }
        }
        let canon = run.canon();
        let nontrivial = run.incremental_imports > 0;
        if !disabled {
            for v in &run.violations {
                remember_shortest(v);
            }
        }
        let r = RunResult { canon, violations: std::mem::take(&mut run.violations), nontrivial, outcome: run.outcome.clone(), disabled };
        run.sut = None;
        r
    }));
    remove_db(&db);
    res
}

pub fn alphabet(thorough: bool) -> Vec<Ev> {
    let mut v = vec![Ev::Advance(1), Ev::Advance(7), Ev::Advance(16)];
    v.extend(FORK_TOS.iter().map(|f| Ev::Fork(*f)));
    v.extend(TARGETS.iter().take(if thorough { TARGETS.len() } else { QUICK_TARGETS }).map(|t| Ev::Import(*t)));
    v.push(Ev::Restart);
    v.push(Ev::Prune(10));
    v.push(Ev::ArmFork(1));
    v.push(Ev::ArmFork(2));
    v.push(Ev::ArmFork(3));
    v.push(Ev::CrashImport(CrashPoint::BeforeRangeRoots));
    v.push(Ev::CrashImport(CrashPoint::BeforeLegacyRangeRoots));
    v.push(Ev::TimeoutImport);
    if thorough {
        v.push(Ev::Reconnect);
        v.push(Ev::Prune(0));
    }
    v
}

pub fn nominal() -> Vec<Ev> {
    use Ev::*;
    vec![
        Advance(16),
        Import(Target::Tip),
        Advance(7),
        Import(Target::TipMinus5),
        Advance(16),
        Import(Target::Tip),
        Fork(ForkTo::BoundaryMinus1),
        Import(Target::Tip),
        Advance(7),
        Import(Target::Tip),
    ]
}

pub fn run(ctx: &Ctx) -> ! {
    let scratch = ctx.scratch();
    let mut rep = Report::new(
        "model_checking",
        "explicit-state exploration by replay of the real signer chain-data stack (block scanner, streamer, importer, \
         repository, SQLite, both transaction signable builders) against a chain-sync node double: every history is \
         replayed on a fresh node and compared, after every import, with a fresh node that imports the canonical chain \
         once; a history is non-trivial when at least one import resumed on a non-empty store; distinct = distinct \
         canonical states (chain, tables, server read pointer, importer cursor)",
    );
    let fresh = FreshCache::new(&scratch);
    let quick = ctx.tier == mc_core::Tier::Quick;

    if let Some(path) = &ctx.replay {
        let v = mc_core::load_replay(path);
        let h: Vec<Ev> = serde_json::from_value(v["history"].clone()).expect("history in replay file");
        let cfg: Cfg = serde_json::from_value(v["cfg"].clone()).expect("cfg in replay file");
        let r = replay(&scratch, cfg, Mode::Ball, &fresh, &h);
        eprintln!("replayed {} events under {:?}: outcome {}\nstate: {}", h.len(), cfg, r.outcome, r.canon);
        rep.eval();
        for v in r.violations {
            eprintln!("  {}: {}", v.key, v.what);
            rep.push_violation(v);
        }
        rep.nontrivial(&0);
        rep.nontrivial(&1);
        rep.states = Some(1);
        rep.transitions = Some(1);
        rep.traces_validated = Some(1);
        rep.sample(json!({"history": h, "cfg": cfg}));
        rep.finish(ctx);
    }

    use Ev::*;
    if std::env::var("MC_PROFILE").is_ok() {
        let cfg = Cfg { max_roll_forwards: 3, pallas_agency: false, chunk: None };
        for (name, mode, h) in [
            ("nominal/ball", Mode::Ball, nominal()),
            ("nominal/bfs", Mode::Bfs, nominal()),
            ("3 advances + import/bfs", Mode::Bfs, vec![Advance(16), Advance(16), Advance(16), Import(Target::Tip)]),
            ("restart only", Mode::Bfs, vec![Restart]),
        ] {
            for round in 0..3 {
                let t = std::time::Instant::now();
                let r = replay(&scratch, cfg, mode, &fresh, &h);
                eprintln!("{name} round {round}: {:.1} ms, outcome {}, fresh cache {}", t.elapsed().as_secs_f64() * 1000.0, r.outcome, fresh.len());
            }
        }
        let _ = std::fs::remove_dir_all(&scratch);
        std::process::exit(0);
    }
    let p1: Vec<Ev> = vec![Advance(16), Advance(16), Import(Target::Tip)];
    let p2: Vec<Ev> = vec![Advance(16), Advance(16), Advance(16), Import(Target::Abs(44)), Prune(10)];
    // a node that stopped one block short of the end of a block range
    let p3: Vec<Ev> = vec![Advance(16), Advance(16), Import(Target::Abs(28))];
    let prefixes = vec![vec![], p1, p2, p3];
    let alpha = alphabet(!quick);
    // chunk None = the importer undecorated (aggregator wiring); Some(n) = the signer's chunk decorator
    let configs: Vec<(Cfg, usize)> = if quick {
        vec![
            (Cfg { max_roll_forwards: 3, pallas_agency: false, chunk: None }, 3),
            (Cfg { max_roll_forwards: 100, pallas_agency: true, chunk: Some(7) }, 3),
            (Cfg { max_roll_forwards: 1, pallas_agency: true, chunk: Some(1000) }, 2),
        ]
    } else {
        vec![
            (Cfg { max_roll_forwards: 3, pallas_agency: false, chunk: None }, 4),
            (Cfg { max_roll_forwards: 100, pallas_agency: true, chunk: Some(7) }, 4),
            (Cfg { max_roll_forwards: 1, pallas_agency: true, chunk: Some(1000) }, 3),
            (Cfg { max_roll_forwards: 100, pallas_agency: false, chunk: None }, 3),
            (Cfg { max_roll_forwards: 3, pallas_agency: false, chunk: Some(1000) }, 3),
        ]
    };
    let mut bfs_info = vec![];
    for (cfg, depth) in &configs {
        let runf = |h: &[Ev]| replay(&scratch, *cfg, Mode::Bfs, &fresh, h);
        let ex = Explorer { threads: ctx.threads(), budget: None, run: &runf };
        let t0 = std::time::Instant::now();
        let st = ex.bfs(&prefixes, &alpha, *depth, &mut rep);
        bfs_info.push(json!({"cfg": cfg, "prepared_states": prefixes.len(), "alphabet": alpha.len(), "depth_completed": st.depth_completed,
            "histories": st.transitions, "states": st.states, "wall_s": (t0.elapsed().as_secs_f64()*10.0).round()/10.0}));
    }
    rep.extra("bfs", json!(bfs_info));

    // deviation ball around a nominal advance/import schedule that runs to completion
    let nom = nominal();
    let dev = alphabet(true);
    // two simultaneous deviations: a smaller deviation alphabet (one representative per kind of event)
    let dev2: Vec<Ev> = vec![
        Ev::Advance(1),
        Ev::Fork(ForkTo::TipMinus1),
        Ev::Fork(ForkTo::BoundaryMinus1),
        Ev::Fork(ForkTo::BoundaryPlus1),
        Ev::ArmFork(1),
        Ev::ArmFork(3),
        Ev::Import(Target::TipMinus5),
        Ev::Import(Target::Abs(28)),
        Ev::Restart,
        Ev::Reconnect,
        Ev::CrashImport(CrashPoint::BeforeRangeRoots),
    ];
    let mut ball_info = vec![];
    let ball_cfgs: Vec<(Cfg, usize, &Vec<Ev>)> = if quick {
        vec![(Cfg { max_roll_forwards: 3, pallas_agency: true, chunk: Some(7) }, 1, &dev)]
    } else {
        vec![
            (Cfg { max_roll_forwards: 3, pallas_agency: true, chunk: Some(7) }, 1, &dev),
            (Cfg { max_roll_forwards: 100, pallas_agency: false, chunk: None }, 1, &dev),
            (Cfg { max_roll_forwards: 3, pallas_agency: false, chunk: Some(1000) }, 2, &dev2),
        ]
    };
    for (cfg, bound, devs) in &ball_cfgs {
        let runf = |h: &[Ev]| replay(&scratch, *cfg, Mode::Ball, &fresh, h);
        let ex = Explorer { threads: ctx.threads(), budget: None, run: &runf };
        let edits = |h: &[Ev]| standard_edits(h, devs, 0);
        let t0 = std::time::Instant::now();
        let st = ex.ball(&nom, &edits, *bound, &mut rep);
        ball_info.push(json!({"cfg": cfg, "nominal_len": nom.len(), "deviation_alphabet": devs.len(), "bound_completed": st.depth_completed,
            "histories": st.transitions, "states": st.states, "wall_s": (t0.elapsed().as_secs_f64()*10.0).round()/10.0}));
    }
    rep.extra("ball", json!(ball_info));

    // the replay file of each key leads with the shortest counterexample found
    if let Some(m) = SHORTEST.lock().unwrap().take() {
        for (_, (_, _, v)) in m.into_iter().rev() {
            rep.violations.retain(|x| !(x.key == v.key && x.replay == v.replay));
            rep.violations.insert(0, v);
        }
    }
    let g = |a: &AtomicU64| a.load(Ordering::Relaxed);
    rep.extra("imports_executed", json!(g(&N_IMPORTS)));
    rep.extra("imports_without_contacting_the_node", json!(g(&N_IMPORTS_NO_SCAN)));
    rep.extra("imports_resumed_on_non_empty_store", json!(g(&N_IMPORTS_INCREMENTAL)));
    rep.extra("rollbacks_applied_to_store", json!(g(&N_ROLLBACKS_APPLIED)));
    rep.extra("rollbacks_skipped_as_intersect_echo", json!(g(&N_ROLLBACKS_ECHO)));
    rep.extra("intersects_not_found", json!(g(&N_INTERSECT_NOT_FOUND)));
    rep.extra("intersects_not_sent_for_lack_of_agency", json!(g(&N_INTERSECT_NOT_SENT)));
    rep.extra("forks_during_a_scan", json!(g(&N_MIDSCAN_FORKS)));
    rep.extra("import_errors", json!(g(&N_IMPORT_ERRORS)));
    rep.extra("imports_killed_at_a_crash_point", json!(g(&N_CRASHED_IMPORTS)));
    rep.extra("import_errors_from_node_timeout", json!(g(&N_NODE_TIMEOUTS)));
    rep.extra("table_comparisons", json!(g(&N_TABLE_COMPARISONS)));
    rep.extra("root_comparisons", json!(g(&N_ROOT_COMPARISONS)));
    rep.extra("fresh_reference_imports", json!(fresh.len()));
    rep.extra("bounds", json!({"max_chain_length": MAX_LEN, "block_range_length": RANGE}));
    if g(&N_SHADOW_MISMATCH) > 0 {
        // (never on the unchanged tree) the tree under test resumes its scans from another point
        // than "last polled point, else highest stored block": the importer-cursor part of the
        // canonical state is then a guess, states may have been merged that differ in it, so the
        // exploration is not claimed exhaustive; every verdict reached is still about a real run
        eprintln!(
            "[C13] {} scans started from a point other than the one the harness predicted: state de-duplication is unreliable for this tree, the run is not claimed exhaustive",
            g(&N_SHADOW_MISMATCH)
        );
        rep.extra("scans_started_from_unpredicted_point", json!(g(&N_SHADOW_MISMATCH)));
        rep.exhaustive = false;
    }
    rep.assume(
        "the Cardano node is the only double: a chain-sync server behind the repository's ChainBlockReader trait. Reading of \
         the protocol: one read pointer per connection, a new connection starts at Origin with a pending RollBackward(Origin); \
         FindIntersect(p) moves the pointer to p and makes the next answer RollBackward(p) when p is on the server's chain and \
         changes nothing otherwise; a switch to a fork that does not contain the pointer moves it to the fork point and makes the \
         next answer RollBackward(fork point); otherwise RollForward(next) or Await at the tip; pallas is not run",
    );
    rep.assume(
        "pallas_agency=true also models PallasChainReader after an AwaitReply (no FindIntersect is sent while the server has the \
         agency; if the server stays silent the reader times out, errors and reconnects); failed imports caused by that time-out are not judged",
    );
    rep.assume("a fork always yields a chain one block longer than the one it replaces (longest-chain rule); chains <= 50 blocks, block numbers consecutive from 1; import targets never exceed the node's tip (beacons are tip minus the security parameter, rounded down)");
    rep.assume(
        "tables are compared on the part that concerns blocks <= target (a node may legitimately hold more from an earlier, higher import); \
         after pruning the node must hold a suffix of the fresh node's blocks and exactly its range roots",
    );
    rep.assume("the legacy CardanoTransactions root is only judged at beacons that end a block range (the only ones the beacon rule produces, C17); Merkle trees use MKTreeStoreInMemory instead of the signer's SQLite-backed store");
    rep.assume("histories behind a table divergence are not explored further (the divergence itself is reported)");
    rep.finish(ctx)
}
