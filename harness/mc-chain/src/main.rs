//! mc-chain: serves C13 (see /verif/DESIGN.md §4)
mod c13;
mod node;
mod sut;

fn main() {
    // harness-side tuning of the SQLite library only: without it every allocation of every connection
    // takes one process-wide mutex (memory statistics), which serialises the worker threads
    unsafe {
        sqlite3_sys::sqlite3_config(sqlite3_sys::SQLITE_CONFIG_MEMSTATUS, 0 as std::ffi::c_int);
    }
    let ctx = mc_core::Ctx::from_args();
    mc_core::quiet_panics();
    match ctx.property.as_str() {
        "C13" => c13::run(&ctx),
        other => {
            eprintln!("mc-chain does not serve {other}");
            std::process::exit(2);
        }
    }
}
