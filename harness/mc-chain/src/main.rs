//! mc-chain: serves C13 (see /verif/DESIGN.md §4)
mod c13;
mod node;
mod sut;

fn main() {
    let ctx = mc_core::Ctx::from_args();
    mc_core::quiet_panics();
    match ctx.property.as_str() {
        "C13" => c13::run(&ctx),
        other => {
            eprintln!("mc-chain does not serve {other}");
            std::process::exit(2);
        }
    }
}
