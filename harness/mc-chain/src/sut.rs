//! The system under test: the real signer-side chain data stack on a SQLite file, fed by the
//! harness node through `ChainBlockReader`.
//!
//!   SyncReader (double) → CardanoBlockScanner → ChainReaderBlockStreamer
//!     → CardanoChainDataImporter::import → SignerCardanoChainDataRepository
//!     → CardanoTransactionRepository → SQLite
//!   CardanoBlocksTransactionsSignableBuilder / CardanoTransactionsSignableBuilder on top
//!   (through the signer's own `SignerChainDataImporter` adapter).

use std::path::{Path, PathBuf};
use std::sync::atomic::{AtomicU64, Ordering};
use std::sync::{Arc, Mutex};

use mithril_cardano_node_chain::chain_importer::{
    CardanoChainDataImporter, ChainDataImporter, ChainDataImporterByChunk, ChainDataImporterWithPruner, ChainDataPruner, ChainDataStore,
};
use mithril_cardano_node_chain::chain_scanner::CardanoBlockScanner;
use mithril_common::crypto_helper::MKTreeStoreInMemory;
use mithril_common::entities::{BlockNumber, BlockNumberOffset, ProtocolMessagePartKey};
use mithril_common::signable_builder::{
    BlockRangeRootRetriever, CardanoBlocksTransactionsSignableBuilder, CardanoTransactionsSignableBuilder,
    LegacyBlockRangeRootRetriever, SignableBuilder,
};
use mithril_persistence::database::ApplicationNodeType;
use mithril_persistence::database::cardano_transaction_migration::get_migrations;
use mithril_persistence::sqlite::{ConnectionBuilder, ConnectionOptions};
use mithril_signer::database::repository::SignerCardanoChainDataRepository;
use mithril_signer::services::SignerChainDataImporter;

use crate::node::{Server, SyncReader};

#[derive(Clone, Copy, Debug, PartialEq, Eq, Hash, serde::Serialize, serde::Deserialize)]
pub struct Cfg {
    pub max_roll_forwards: usize,
    pub pallas_agency: bool,
    /// None: the importer is used undecorated (the aggregator's wiring); Some(n): the signer's wiring
    /// `ChainDataImporterByChunk(n)` -> `ChainDataImporterWithPruner(no pruning)` -> importer
    #[serde(default)]
    pub chunk: Option<u64>,
}

/// Where the process dies inside `CardanoChainDataImporter::import` (service.rs: blocks, optimize,
/// block range roots, legacy block range roots, optimize are separate, separately committed steps)
#[derive(Clone, Copy, Debug, PartialEq, Eq, serde::Serialize, serde::Deserialize)]
pub enum CrashPoint {
    /// blocks and transactions are committed, no range root step has run
    BeforeRangeRoots,
    /// the new range roots are stored, the legacy ones are not
    BeforeLegacyRangeRoots,
}

/// A transparent tap on the `ChainDataStore` the importer writes through: it forwards every call to
/// the real repository, except that once the armed crash point is reached the "process is dead":
/// that call and every later one fail without touching the database.
pub struct CrashPointStore {
    inner: Arc<SignerCardanoChainDataRepository>,
    server: Arc<Mutex<Server>>,
    armed: Mutex<Option<CrashPoint>>,
    dead: std::sync::atomic::AtomicBool,
}

impl CrashPointStore {
    fn gate(&self, reached: Option<CrashPoint>) -> mithril_common::StdResult<()> {
        if reached.is_some() && *self.armed.lock().unwrap() == reached {
            self.dead.store(true, Ordering::SeqCst);
        }
        if self.dead.load(Ordering::SeqCst) {
            return Err(anyhow::anyhow!("harness: the process was killed at this point"));
        }
        Ok(())
    }
}

#[async_trait::async_trait]
impl ChainDataStore for CrashPointStore {
    async fn get_highest_beacon(&self) -> mithril_common::StdResult<Option<mithril_common::entities::ChainPoint>> {
        self.gate(None)?;
        self.inner.get_highest_beacon().await
    }
    async fn get_highest_block_range(&self) -> mithril_common::StdResult<Option<mithril_common::entities::BlockRange>> {
        self.gate(Some(CrashPoint::BeforeRangeRoots))?;
        self.inner.get_highest_block_range().await
    }
    async fn get_highest_legacy_block_range(&self) -> mithril_common::StdResult<Option<mithril_common::entities::BlockRange>> {
        self.gate(Some(CrashPoint::BeforeLegacyRangeRoots))?;
        self.server.lock().unwrap().served.push(crate::node::Served::LegacyRangeStep);
        self.inner.get_highest_legacy_block_range().await
    }
    async fn store_blocks_and_transactions(&self, b: Vec<mithril_common::entities::CardanoBlockWithTransactions>) -> mithril_common::StdResult<()> {
        self.gate(None)?;
        let last = b.last().map(|x| (*x.slot_number, x.block_hash.clone()));
        self.inner.store_blocks_and_transactions(b).await?;
        if let Some((slot, hash)) = last {
            self.server.lock().unwrap().served.push(crate::node::Served::Stored { slot, hash });
        }
        Ok(())
    }
    async fn get_blocks_and_transactions_in_range(
        &self,
        range: std::ops::Range<BlockNumber>,
    ) -> mithril_common::StdResult<std::collections::BTreeSet<mithril_common::entities::CardanoBlockTransactionMkTreeNode>> {
        self.gate(None)?;
        self.inner.get_blocks_and_transactions_in_range(range).await
    }
    async fn get_transactions_in_range(&self, range: std::ops::Range<BlockNumber>) -> mithril_common::StdResult<Vec<mithril_common::entities::CardanoTransaction>> {
        self.gate(None)?;
        self.inner.get_transactions_in_range(range).await
    }
    async fn store_block_range_roots(&self, r: Vec<(mithril_common::entities::BlockRange, mithril_common::crypto_helper::MKTreeNode)>) -> mithril_common::StdResult<()> {
        self.gate(None)?;
        self.inner.store_block_range_roots(r).await
    }
    async fn store_legacy_block_range_roots(&self, r: Vec<(mithril_common::entities::BlockRange, mithril_common::crypto_helper::MKTreeNode)>) -> mithril_common::StdResult<()> {
        self.gate(None)?;
        self.inner.store_legacy_block_range_roots(r).await
    }
    async fn remove_rolled_chain_data_and_block_range(&self, slot: mithril_common::entities::SlotNumber) -> mithril_common::StdResult<()> {
        self.gate(None)?;
        self.inner.remove_rolled_chain_data_and_block_range(slot).await
    }
    async fn optimize(&self) -> mithril_common::StdResult<()> {
        self.gate(None)?;
        ChainDataStore::optimize(&*self.inner).await?;
        self.server.lock().unwrap().served.push(crate::node::Served::Optimized);
        Ok(())
    }
}

fn logger() -> slog::Logger {
    slog::Logger::root(slog::Discard, slog::o!())
}

static COUNTER: AtomicU64 = AtomicU64::new(0);

/// a new database file, copied from a migrated template (migrations run once per process)
pub fn new_db(scratch: &Path) -> PathBuf {
    static TEMPLATE: Mutex<Option<PathBuf>> = Mutex::new(None);
    let template = {
        let mut t = TEMPLATE.lock().unwrap();
        if t.is_none() {
            let p = scratch.join("template.sqlite3");
            let _ = std::fs::remove_file(&p);
            let pool = builder(&p).build_pool(1).expect("template database");
            drop(pool);
            *t = Some(p);
        }
        t.clone().unwrap()
    };
    // one directory per database: SQLite creates and unlinks a journal file next to it for every
    // transaction, and a shared directory would serialise all worker threads on its lock
    let n = COUNTER.fetch_add(1, Ordering::Relaxed);
    let d = scratch.join(format!("n{n}"));
    std::fs::create_dir_all(&d).expect("database directory");
    let p = d.join("cardano-transaction.sqlite3");
    std::fs::copy(&template, &p).expect("copy template database");
    p
}

pub fn remove_db(p: &Path) {
    if let Some(d) = p.parent() {
        let _ = std::fs::remove_dir_all(d);
    }
}

fn builder(path: &Path) -> ConnectionBuilder {
    // as mithril-signer's DependenciesBuilder::build_cardano_tx_sqlite_connection_pool
    ConnectionBuilder::open_file(path)
        .with_node_type(ApplicationNodeType::Signer)
        .with_migrations(get_migrations())
        .with_options(&[ConnectionOptions::EnableForeignKeys])
        .with_logger(logger())
}

/// One signer process: connection pool, repository, importer (with its volatile
/// `last_polled_point`), chain reader connection, both signable builders.
pub struct Sut {
    pub repo: Arc<SignerCardanoChainDataRepository>,
    store: Arc<CrashPointStore>,
    blocks_builder: CardanoBlocksTransactionsSignableBuilder<MKTreeStoreInMemory>,
    legacy_builder: CardanoTransactionsSignableBuilder<MKTreeStoreInMemory>,
}

impl Sut {
    pub fn start(db: &Path, server: Arc<Mutex<Server>>, cfg: Cfg) -> Sut {
        server.lock().unwrap().disconnect();
        let pool = Arc::new(builder(db).build_pool(1).expect("open database"));
        let repo = Arc::new(SignerCardanoChainDataRepository::new(pool));
        let reader = SyncReader { server: server.clone(), pallas_agency: cfg.pallas_agency };
        let scanner = Arc::new(CardanoBlockScanner::new(
            Arc::new(tokio::sync::Mutex::new(reader)),
            cfg.max_roll_forwards,
            logger(),
        ));
        let store = Arc::new(CrashPointStore { inner: repo.clone(), server, armed: Mutex::new(None), dead: std::sync::atomic::AtomicBool::new(false) });
        let importer: Arc<dyn ChainDataImporter> = Arc::new(CardanoChainDataImporter::new(scanner, store.clone(), logger()));
        let importer: Arc<dyn ChainDataImporter> = match cfg.chunk {
            None => importer,
            // as mithril-signer's DependenciesBuilder::build (pruning is an explicit event of the exploration)
            Some(n) => Arc::new(ChainDataImporterByChunk::new(
                repo.clone(),
                Arc::new(ChainDataImporterWithPruner::new(None, repo.clone(), importer, logger())),
                BlockNumber(n),
                logger(),
            )),
        };
        let adapter = Arc::new(SignerChainDataImporter::new(importer));
        Sut {
            repo: repo.clone(),
            store,
            blocks_builder: CardanoBlocksTransactionsSignableBuilder::new(adapter.clone(), repo.clone()),
            legacy_builder: CardanoTransactionsSignableBuilder::new(adapter, repo),
        }
    }

    /// what the signer does for a `CardanoBlocksTransactions` beacon: import up to it, then root
    pub async fn sign_blocks(&self, beacon: u64) -> Result<String, String> {
        let m = self
            .blocks_builder
            .compute_protocol_message((BlockNumber(beacon), BlockNumberOffset(0)))
            .await
            .map_err(|e| format!("{e:#}"))?;
        m.get_message_part(&ProtocolMessagePartKey::CardanoBlocksTransactionsMerkleRoot)
            .cloned()
            .ok_or_else(|| "no root in protocol message".to_string())
    }

    /// what the signer does for a `CardanoTransactions` beacon
    pub async fn sign_legacy(&self, beacon: u64) -> Result<String, String> {
        let m = self
            .legacy_builder
            .compute_protocol_message(BlockNumber(beacon))
            .await
            .map_err(|e| format!("{e:#}"))?;
        m.get_message_part(&ProtocolMessagePartKey::CardanoTransactionsMerkleRoot)
            .cloned()
            .ok_or_else(|| "no root in protocol message".to_string())
    }

    /// the root computation of the blocks builder alone (no import): the trait's provided method
    pub async fn root_blocks(&self, beacon: u64) -> Result<String, String> {
        let map = <SignerCardanoChainDataRepository as BlockRangeRootRetriever<MKTreeStoreInMemory>>::compute_merkle_map_from_block_range_roots(
            &self.repo,
            BlockNumber(beacon),
        )
        .await
        .map_err(|e| format!("{e:#}"))?;
        map.compute_root().map(|r| r.to_hex()).map_err(|e| format!("{e:#}"))
    }

    pub async fn root_legacy(&self, beacon: u64) -> Result<String, String> {
        let map = <SignerCardanoChainDataRepository as LegacyBlockRangeRootRetriever<MKTreeStoreInMemory>>::compute_merkle_map_from_block_range_roots(
            &self.repo,
            BlockNumber(beacon),
        )
        .await
        .map_err(|e| format!("{e:#}"))?;
        map.compute_root().map(|r| r.to_hex()).map_err(|e| format!("{e:#}"))
    }

    /// the process will die when the next import reaches this point
    pub fn arm_crash(&self, at: CrashPoint) {
        *self.store.armed.lock().unwrap() = Some(at);
    }
    pub fn crashed(&self) -> bool {
        self.store.dead.load(Ordering::SeqCst)
    }
    pub fn disarm_crash(&self) {
        *self.store.armed.lock().unwrap() = None;
    }

    pub async fn prune(&self, keep: u64) -> Result<(), String> {
        self.repo.prune(BlockNumber(keep)).await.map_err(|e| format!("{e:#}"))
    }
}

/// Raw contents of the four tables, read through a separate read-only connection.
#[derive(Clone, Debug, Default, PartialEq, Eq)]
pub struct Tables {
    /// (block_number, slot_number, block_hash)
    pub blocks: Vec<(u64, u64, String)>,
    /// (transaction_hash, block_hash)
    pub txs: Vec<(String, String)>,
    /// (start, end, merkle_root)
    pub roots: Vec<(u64, u64, String)>,
    pub legacy_roots: Vec<(u64, u64, String)>,
}

pub fn read_tables(db: &Path) -> Tables {
    let conn = sqlite::Connection::open_with_flags(db, sqlite::OpenFlags::new().with_read_only()).expect("open db read-only");
    let rows = |sql: &str| -> Vec<Vec<String>> {
        let mut out = vec![];
        conn.iterate(sql, |pairs| {
            out.push(pairs.iter().map(|(_, v)| v.unwrap_or("NULL").to_string()).collect());
            true
        })
        .expect("table dump");
        out
    };
    let n = |s: &String| s.parse::<u64>().expect("integer column");
    Tables {
        blocks: rows("select block_number, slot_number, block_hash from cardano_block order by block_number, block_hash")
            .iter()
            .map(|r| (n(&r[0]), n(&r[1]), r[2].clone()))
            .collect(),
        txs: rows("select transaction_hash, block_hash from cardano_tx order by transaction_hash").iter().map(|r| (r[0].clone(), r[1].clone())).collect(),
        roots: rows("select start, end, merkle_root from block_range_root order by start, end").iter().map(|r| (n(&r[0]), n(&r[1]), r[2].clone())).collect(),
        legacy_roots: rows("select start, end, merkle_root from block_range_root_legacy order by start, end")
            .iter()
            .map(|r| (n(&r[0]), n(&r[1]), r[2].clone()))
            .collect(),
    }
}

impl Tables {
    /// the part of the tables that concerns blocks up to `t`: blocks and their transactions with
    /// number <= t, range roots of ranges completely at or below t
    pub fn up_to(&self, t: u64) -> Tables {
        let above: std::collections::HashSet<&String> = self.blocks.iter().filter(|b| b.0 > t).map(|b| &b.2).collect();
        Tables {
            blocks: self.blocks.iter().filter(|b| b.0 <= t).cloned().collect(),
            txs: self.txs.iter().filter(|x| !above.contains(&x.1)).cloned().collect(),
            roots: self.roots.iter().filter(|r| r.1 <= t + 1).cloned().collect(),
            legacy_roots: self.legacy_roots.iter().filter(|r| r.1 <= t + 1).cloned().collect(),
        }
    }
    /// blocks (and their transactions) from height `from` on; roots untouched
    pub fn blocks_from(&self, from: u64) -> Tables {
        let below: std::collections::HashSet<&String> = self.blocks.iter().filter(|b| b.0 < from).map(|b| &b.2).collect();
        Tables {
            blocks: self.blocks.iter().filter(|b| b.0 >= from).cloned().collect(),
            txs: self.txs.iter().filter(|x| !below.contains(&x.1)).cloned().collect(),
            roots: self.roots.clone(),
            legacy_roots: self.legacy_roots.clone(),
        }
    }
    pub fn min_block(&self) -> Option<&(u64, u64, String)> {
        self.blocks.iter().min_by_key(|b| b.0)
    }
    pub fn max_block(&self) -> Option<&(u64, u64, String)> {
        self.blocks.iter().max_by_key(|b| b.0)
    }
}
