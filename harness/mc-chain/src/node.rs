//! The only double of C13: a Cardano node that speaks (our reading of) Ouroboros chain-sync to
//! one client, exposed through the repository's `ChainBlockReader` trait (the seam that
//! `PallasChainReader` implements in production).
//!
//! Reading of the protocol that is encoded here (stated in the evidence as an assumption):
//!  * the server keeps one *read pointer* per connection; a new connection starts at Origin with a
//!    pending `RollBackward(Origin)` (ouroboros-consensus followers start in `FollowerInit`, whose
//!    first instruction is a roll back to genesis);
//!  * `FindIntersect([p])`: if p is on the server's current chain (Origin always is) the pointer
//!    moves to p and the next `RequestNext` answers `RollBackward(p)`; otherwise
//!    (`IntersectNotFound`) nothing changes — `PallasChainReader` ignores which of the two came back;
//!  * when the server switches to a fork that does not contain the pointer, the pointer moves to
//!    the fork point and the next answer is `RollBackward(fork point)`;
//!  * otherwise `RequestNext` answers `RollForward(next block)` and advances the pointer, or
//!    `AwaitReply` at the tip (the trait's `None`);
//!  * `pallas_agency = true` additionally models what `PallasChainReader` does after an
//!    `AwaitReply`: the server keeps the agency, so `set_chain_point` sends nothing
//!    ("Doesn't have agency, no need to find intersect point") and the next
//!    `get_next_chain_block` receives the server's next message; if the server has nothing to say
//!    the production reader times out, returns an error and drops the connection.

use std::sync::{Arc, Mutex};

use async_trait::async_trait;
use mithril_cardano_node_chain::chain_reader::ChainBlockReader;
use mithril_cardano_node_chain::entities::{ChainBlockNextAction, RawCardanoPoint, ScannedBlock};
use mithril_common::StdResult;
use mithril_common::entities::{BlockNumber, SlotNumber};

/// A block is identified by its height and the branch it was minted on; everything else
/// (slot, hash, transactions) is a fixed function of the two.
#[derive(Clone, Copy, Debug, PartialEq, Eq, Hash)]
pub struct Blk {
    pub number: u64,
    pub branch: u32,
}

impl Blk {
    /// strictly increasing with the height on every chain; branches 0,2,4.. share their slots
    /// (slot battles), odd branches use the neighbouring slot
    pub fn slot(&self) -> u64 {
        10 * self.number + (self.branch % 2) as u64
    }
    pub fn hash(&self) -> Vec<u8> {
        let mut h = vec![0xB1u8];
        h.extend_from_slice(&self.number.to_be_bytes());
        h.extend_from_slice(&self.branch.to_be_bytes());
        while h.len() < 32 {
            h.push(0xA0 + (h.len() as u8 % 16));
        }
        h
    }
    pub fn hash_hex(&self) -> String {
        hex::encode(self.hash())
    }
    /// Transactions: some are re-included on every branch at the same height (`s-`), some exist on
    /// one branch only (`u-`), some move to a lower height on later branches (`m-`), every third
    /// block has none of the first kind, and branch 2,5,.. mints no transaction at all in heights
    /// 15..30 (a block range without transactions). Along any chain (branch ids never decrease with
    /// the height) every transaction hash is unique.
    pub fn txs(&self) -> Vec<String> {
        let (n, b) = (self.number, self.branch as u64);
        if b % 3 == 2 && (15..30).contains(&n) {
            return vec![];
        }
        let mut v = vec![];
        if n % 3 != 0 {
            v.push(format!("s-{n:03}"));
        }
        if n % 2 == 0 {
            v.push(format!("u-{n:03}-{b}"));
        }
        if (n + b) % 2 == 1 {
            v.push(format!("m-{:03}", n + b));
        }
        v
    }
    pub fn scanned(&self) -> ScannedBlock {
        ScannedBlock::new(self.hash(), BlockNumber(self.number), SlotNumber(self.slot()), self.txs())
    }
    pub fn point(&self) -> RawCardanoPoint {
        RawCardanoPoint::new(SlotNumber(self.slot()), self.hash())
    }
}

#[derive(Clone, Debug, PartialEq)]
pub enum Served {
    /// set_chain_point(point): was it found on the chain; was it not even sent (no agency)
    Intersect { slot: u64, hash: String, found: bool, not_sent: bool },
    Forward(Blk),
    /// RollBackward to the block at this height (0 = Origin)
    Backward { height: u64, slot: u64 },
    Await,
    Timeout,
    /// an armed fork fired while the client was scanning
    ForkDuringScan { to: u64 },
    /// (recorded by the store tap, not by the node) the importer committed a batch ending with this block
    Stored { slot: u64, hash: String },
    /// (recorded by the store tap) the importer reached its last step, the legacy block range roots
    LegacyRangeStep,
    /// (recorded by the store tap) `optimize()` returned: after the legacy step it ends the import
    Optimized,
}

#[derive(Clone, Debug, PartialEq, Eq)]
pub struct Follower {
    /// number of chain blocks at or below the read pointer (0 = Origin)
    pub ptr: usize,
    pub pending_rollback: bool,
    /// the last answer was AwaitReply (the server has the agency)
    pub awaiting: bool,
}

pub struct Server {
    pub chain: Vec<Blk>,
    pub next_branch: u32,
    pub follower: Option<Follower>,
    pub served: Vec<Served>,
    /// fork `depth` blocks below the read pointer once two blocks were rolled forward in a scan
    pub armed_fork: Option<u64>,
    pub forwards_in_scan: u64,
    /// the connection breaks (time-out, reset) once the next scan has rolled four blocks forward
    pub armed_timeout: bool,
    pub max_len: usize,
}

impl Server {
    pub fn new(max_len: usize) -> Server {
        Server { chain: vec![], next_branch: 1, follower: None, served: vec![], armed_fork: None, forwards_in_scan: 0, armed_timeout: false, max_len }
    }
    pub fn tip(&self) -> u64 {
        self.chain.len() as u64
    }
    pub fn advance(&mut self, n: u64) {
        let branch = self.chain.last().map(|b| b.branch).unwrap_or(0);
        for _ in 0..n {
            let number = self.chain.len() as u64 + 1;
            self.chain.push(Blk { number, branch });
        }
    }
    /// switch to a fork that keeps blocks 1..=to and is `extra` blocks longer than the old chain
    pub fn fork(&mut self, to: u64, extra: u64) {
        let old_len = self.chain.len() as u64;
        assert!(to < old_len);
        self.chain.truncate(to as usize);
        let branch = self.next_branch;
        self.next_branch += 1;
        for number in to + 1..=old_len + extra {
            self.chain.push(Blk { number, branch });
        }
        if let Some(f) = &mut self.follower
            && f.ptr > to as usize
        {
            f.ptr = to as usize;
            f.pending_rollback = true;
        }
    }
    pub fn disconnect(&mut self) {
        self.follower = None;
    }
    fn follower(&mut self) -> &mut Follower {
        self.follower.get_or_insert(Follower { ptr: 0, pending_rollback: true, awaiting: false })
    }
    fn position_of(&self, p: &RawCardanoPoint) -> Option<usize> {
        if p.is_origin() {
            return Some(0);
        }
        self.chain.iter().position(|b| b.slot() == *p.slot_number && b.hash() == p.block_hash).map(|i| i + 1)
    }
}

/// The client end: a `ChainBlockReader` as the importer's block scanner sees it.
pub struct SyncReader {
    pub server: Arc<Mutex<Server>>,
    pub pallas_agency: bool,
}

#[async_trait]
impl ChainBlockReader for SyncReader {
    async fn set_chain_point(&mut self, point: &RawCardanoPoint) -> StdResult<()> {
        let mut s = self.server.lock().unwrap();
        s.forwards_in_scan = 0;
        let pos = s.position_of(point);
        let awaiting = s.follower().awaiting;
        let not_sent = self.pallas_agency && awaiting;
        if !not_sent {
            // a client that may speak again is not waiting any more
            s.follower().awaiting = false;
            if let Some(i) = pos {
                let f = s.follower();
                f.ptr = i;
                f.pending_rollback = true;
            }
        }
        s.served.push(Served::Intersect {
            slot: *point.slot_number,
            hash: hex::encode(&point.block_hash),
            found: pos.is_some(),
            not_sent,
        });
        Ok(())
    }

    async fn get_next_chain_block(&mut self) -> StdResult<Option<ChainBlockNextAction>> {
        let mut s = self.server.lock().unwrap();
        s.follower();
        // the node may switch to another fork while the client is in the middle of a scan
        if let Some(depth) = s.armed_fork
            && s.forwards_in_scan >= 2
        {
            let ptr = s.follower().ptr as u64;
            let to = ptr.saturating_sub(depth);
            if to < s.tip() && s.chain.len() < s.max_len {
                s.armed_fork = None;
                s.fork(to, 1);
                s.served.push(Served::ForkDuringScan { to });
            }
        }
        if s.armed_timeout && s.forwards_in_scan >= 4 {
            // what PallasChainReader does on a chain-sync time-out or error: Err + drop_client
            s.armed_timeout = false;
            s.served.push(Served::Timeout);
            s.follower = None;
            return Err(anyhow::anyhow!("harness node: connection to the node lost in the middle of the scan"));
        }
        let len = s.chain.len();
        let f = s.follower.clone().unwrap();
        if f.pending_rollback {
            let point = if f.ptr == 0 { RawCardanoPoint::origin() } else { s.chain[f.ptr - 1].point() };
            let fm = s.follower();
            fm.pending_rollback = false;
            fm.awaiting = false;
            s.served.push(Served::Backward { height: f.ptr as u64, slot: *point.slot_number });
            return Ok(Some(ChainBlockNextAction::RollBackward { rollback_point: point }));
        }
        if f.ptr < len {
            let b = s.chain[f.ptr];
            let fm = s.follower();
            fm.ptr += 1;
            fm.awaiting = false;
            s.forwards_in_scan += 1;
            s.served.push(Served::Forward(b));
            return Ok(Some(ChainBlockNextAction::RollForward { parsed_block: b.scanned() }));
        }
        if f.awaiting && self.pallas_agency {
            // nothing new while the server has the agency: the production reader gives up after its
            // time-out, reports an error and drops the connection
            s.served.push(Served::Timeout);
            s.follower = None;
            return Err(anyhow::anyhow!("harness node: timed out waiting for next chain block (connection dropped)"));
        }
        s.follower().awaiting = true;
        s.served.push(Served::Await);
        Ok(None)
    }
}
