//! Harness-side controller of the `verif_hooks` points of mithril-aggregator: records which points
//! are reached (name, occurrence) and can park the caller at one armed occurrence — for ever
//! (crash cut: the harness then drops the node) or until released (interleaving).

use std::cell::RefCell;
use std::collections::BTreeMap;
use std::rc::Rc;
use std::sync::Arc;

use mithril_aggregator::verif_hooks::{PointFuture, set_controller};
use tokio::sync::Notify;

#[derive(Clone, Copy, Debug, PartialEq, Eq)]
pub enum Mode {
    /// never resumes: everything after the point is lost, as in a process crash
    Crash,
    /// resumes when the harness calls `release`
    Hold,
}

#[derive(Default)]
struct Inner {
    counts: BTreeMap<&'static str, u32>,
    trace: Vec<(&'static str, u32)>,
    armed: Option<(String, u32, Mode)>,
    hit: bool,
    /// artifact tasks wait at their first point until the harness lets background work run
    /// (Quiesce): this makes the moment artifacts are produced an explicit, replayable choice
    /// instead of a race between the blocking thread pool and the next event
    artifact_gate_open: bool,
}

#[derive(Clone)]
pub struct Ctl {
    inner: Rc<RefCell<Inner>>,
    pub parked: Arc<Notify>,
    gate: Arc<Notify>,
    artifact_gate: Arc<Notify>,
    /// bumped at every restart of the node: tasks of a dropped node never resume
    node_generation: Arc<std::sync::atomic::AtomicU64>,
}

impl Ctl {
    /// install a controller on this thread (one replay = one thread = one controller)
    pub fn install() -> Ctl {
        let ctl = Ctl {
            inner: Rc::new(RefCell::new(Inner::default())),
            parked: Arc::new(Notify::new()),
            gate: Arc::new(Notify::new()),
            artifact_gate: Arc::new(Notify::new()),
            node_generation: Arc::new(std::sync::atomic::AtomicU64::new(0)),
        };
        let c = ctl.clone();
        set_controller(Some(Box::new(move |name: &'static str| -> Option<PointFuture> {
            let mut i = c.inner.borrow_mut();
            let n = {
                let e = i.counts.entry(name).or_insert(0);
                *e += 1;
                *e
            };
            i.trace.push((name, n));
            let armed = i.armed.clone();
            if let Some((an, ao, mode)) = armed
                && !i.hit
                && an == name
                && ao == n
            {
                i.hit = true;
                c.parked.notify_one();
                return Some(match mode {
                    Mode::Crash => Box::pin(std::future::pending::<()>()),
                    Mode::Hold => {
                        let gate = c.gate.clone();
                        Box::pin(async move { gate.notified().await })
                    }
                });
            }
            if name == "signed_entity.create_artifact.before_compute" && !i.artifact_gate_open {
                let gate = c.artifact_gate.clone();
                let generation = c.node_generation.clone();
                let born = generation.load(std::sync::atomic::Ordering::SeqCst);
                return Some(Box::pin(async move {
                    gate.notified().await;
                    if generation.load(std::sync::atomic::Ordering::SeqCst) != born {
                        // the node this task belongs to has been dropped (restart / crash)
                        std::future::pending::<()>().await;
                    }
                }));
            }
            None
        })));
        ctl
    }

    pub fn uninstall() {
        set_controller(None);
    }

    pub fn arm(&self, name: &str, occurrence: u32, mode: Mode) {
        let mut i = self.inner.borrow_mut();
        i.armed = Some((name.to_string(), occurrence, mode));
        i.hit = false;
    }

    pub fn disarm(&self) {
        self.inner.borrow_mut().armed = None;
    }

    pub fn was_hit(&self) -> bool {
        self.inner.borrow().hit
    }

    pub fn open_artifact_gate(&self) {
        self.inner.borrow_mut().artifact_gate_open = true;
        self.artifact_gate.notify_waiters();
    }

    /// the node was dropped and rebuilt: background tasks of the old node are dead
    pub fn node_restarted(&self) {
        self.node_generation.fetch_add(1, std::sync::atomic::Ordering::SeqCst);
    }

    pub fn close_artifact_gate(&self) {
        self.inner.borrow_mut().artifact_gate_open = false;
    }

    pub fn release(&self) {
        self.gate.notify_one();
    }

    pub fn trace_len(&self) -> usize {
        self.inner.borrow().trace.len()
    }

    pub fn trace(&self) -> Vec<(&'static str, u32)> {
        self.inner.borrow().trace.clone()
    }
}
