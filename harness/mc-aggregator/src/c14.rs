//! C14 — the aggregator only publishes certificates clients can verify to genesis.

use mc_core::explore::{Explorer, standard_edits};
use mc_core::{Ctx, Report};
use serde_json::json;

use crate::sys::{Ev, Ty, Variant, nominal, replay};

pub fn alphabet() -> Vec<Ev> {
    use Ev::*;
    vec![
        Tick,
        Quiesce,
        Epoch(1),
        Epoch(2),
        Immutable,
        Register(0),
        RegisterAll,
        SigAll(Ty::Msd),
        SigAll(Ty::Cdb),
        Sig { signer: 0, ty: Ty::Cdb, variant: Variant::Current },
        Sig { signer: 1, ty: Ty::Cdb, variant: Variant::Current },
        Sig { signer: 1, ty: Ty::Cdb, variant: Variant::PrevBeacon },
        Sig { signer: 1, ty: Ty::Cdb, variant: Variant::NextBeacon },
        Sig { signer: 2, ty: Ty::Cdb, variant: Variant::NextBeacon },
        Sig { signer: 2, ty: Ty::Msd, variant: Variant::WrongMessage },
        Sig { signer: 0, ty: Ty::Msd, variant: Variant::WrongLabel },
        Expire(Ty::Msd),
        Expire(Ty::Cdb),
        Restart,
        Reconfigure,
    ]
}

pub fn run(ctx: &Ctx) -> ! {
    let scratch = ctx.scratch();
    let closing_rounds = ctx.tier.pick(2, 3);
    let mut rep = Report::new(
        "model_checking",
        "explicit-state exploration by replay of the real aggregator (state machine, certifier, HTTP route, SQLite): \
         every history is replayed on a fresh node and the invariants are evaluated on the database after every event; \
         a history is non-trivial when at least one certificate was sealed; distinct = distinct canonical states",
    );
    let run = |h: &[Ev]| replay(&scratch, h, 3, closing_rounds);
    if let Some(path) = &ctx.replay {
        let v = mc_core::load_replay(path);
        let h: Vec<Ev> = serde_json::from_value(v["history"].clone()).expect("history in replay file");
        let kind: crate::world::Kind = serde_json::from_value(v["kind"].clone()).unwrap_or(crate::world::Kind::MsdCdb);
        let r = crate::sys::replay_kind(&scratch, &h, 3, closing_rounds, kind);
        eprintln!("replayed {} events: outcome {}", h.len(), r.outcome);
        rep.eval();
        for v in r.violations {
            rep.push_violation(v);
        }
        rep.nontrivial(&0);
        rep.nontrivial(&1);
        rep.states = Some(1);
        rep.transitions = Some(1);
        rep.traces_validated = Some(1);
        rep.sample(json!({"history": h}));
        rep.finish(ctx);
    }
    let ex = Explorer { threads: ctx.threads(), budget: None, run: &run };
    let nom = nominal();
    if std::env::var("MC_NOMINAL_ONLY").is_ok() {
        let t = std::time::Instant::now();
        let r = run(&nom);
        eprintln!("nominal: {} events, outcome {}, {} violations, {:.2}s", nom.len(), r.outcome, r.violations.len(), t.elapsed().as_secs_f64());
        for v in &r.violations {
            eprintln!("  {}: {}", v.key, v.what);
        }
        eprintln!("{}", r.canon);
        for n in [0usize, 7, 20] {
            let t = std::time::Instant::now();
            let _ = run(&nom[..n]);
            eprintln!("prefix {n}: {:.3}s", t.elapsed().as_secs_f64());
        }
        std::process::exit(0);
    }
    let quick = ctx.tier == mc_core::Tier::Quick;
    // (a) all histories up to a depth over the alphabet, from three prepared states
    let p2: Vec<Ev> = vec![Ev::Tick, Ev::RegisterAll, Ev::Epoch(1), Ev::Tick, Ev::Tick];
    let mut p3 = p2.clone();
    p3.extend([Ev::Tick, Ev::Sig { signer: 0, ty: Ty::Msd, variant: Variant::Current }]);
    let prefixes = vec![vec![], p2, p3];
    let alpha = if quick { quick_alphabet() } else { alphabet() };
    let depth = ctx.tier.pick(2, 3);
    let st = ex.bfs(&prefixes, &alpha, depth, &mut rep);
    rep.extra("bfs", json!({"prepared_states": prefixes.len(), "alphabet": alpha.len(), "depth_completed": st.depth_completed, "histories": st.transitions, "states": st.states}));

    // (b) deviation balls around nominal schedules that run to completion
    let dev = alphabet();
    let short = crate::c15::base_schedule();
    let edits = |h: &[Ev]| standard_edits(h, &dev, 0);
    let st = ex.ball(&short, &edits, 1, &mut rep);
    rep.extra("ball_short_nominal", json!({"nominal_len": short.len(), "deviation_alphabet": dev.len(), "bound_completed": st.depth_completed, "histories": st.transitions, "states": st.states}));
    if !quick {
        let st = ex.ball(&nom, &edits, 1, &mut rep);
        rep.extra("ball_long_nominal", json!({"nominal_len": nom.len(), "deviation_alphabet": dev.len(), "bound_completed": st.depth_completed, "histories": st.transitions, "states": st.states}));
        // two deviations around the core of one signing round, smaller deviation alphabet
        let core: Vec<Ev> = short[..15].to_vec();
        let dev2: Vec<Ev> = vec![Ev::Tick, Ev::Epoch(1), Ev::Immutable, Ev::Restart, Ev::Expire(Ty::Msd), Ev::Expire(Ty::Cdb),
            Ev::Sig { signer: 1, ty: Ty::Cdb, variant: Variant::NextBeacon }, Ev::Sig { signer: 0, ty: Ty::Msd, variant: Variant::WrongLabel }];
        let edits2 = |h: &[Ev]| standard_edits(h, &dev2, 6);
        let st = ex.ball(&core, &edits2, 2, &mut rep);
        rep.extra("ball_core_two_deviations", json!({"nominal_len": core.len(), "deviation_alphabet": dev2.len(), "bound_completed": st.depth_completed, "histories": st.transitions, "states": st.states}));
    }

    // (d) the Cardano stake distribution world: the entity whose beacon epoch differs from the
    // epoch in which it is signed; nominal schedule up to its first round, 1-deviation ball with
    // expiry events
    {
        use crate::world::Kind;
        let run_csd = |h: &[Ev]| crate::sys::replay_kind(&scratch, h, 3, closing_rounds, Kind::MsdCsd);
        let ex_csd = Explorer { threads: ctx.threads(), budget: None, run: &run_csd };
        let mut nom_csd: Vec<Ev> = vec![Ev::Tick, Ev::RegisterAll];
        for _ in 0..2 {
            nom_csd.extend([Ev::Epoch(1), Ev::Tick, Ev::Tick, Ev::Tick, Ev::RegisterAll, Ev::SigAll(Ty::Msd), Ev::Tick, Ev::Quiesce]);
        }
        nom_csd.extend([Ev::Tick, Ev::Tick, Ev::SigAll(Ty::Csd), Ev::Tick, Ev::Quiesce]);
        let dev_csd: Vec<Ev> = vec![Ev::Expire(Ty::Csd), Ev::Expire(Ty::Msd), Ev::Tick, Ev::SigAll(Ty::Csd), Ev::SigAll(Ty::Msd), Ev::Restart, Ev::Epoch(1)];
        let edits_csd = |h: &[Ev]| standard_edits(h, &dev_csd, 10);
        let st = ex_csd.ball(&nom_csd, &edits_csd, 1, &mut rep);
        rep.extra("ball_cardano_stake_distribution_world", json!({"nominal_len": nom_csd.len(), "deviation_alphabet": dev_csd.len(), "bound_completed": st.depth_completed, "histories": st.transitions, "states": st.states}));
    }

    // (e) reconfiguration: the operator restarts the node with other protocol parameters. The
    // epoch settings are write-once and recorded two epochs ahead, so the effect shows in the
    // certificates two epochs later: the default-configuration world over six epochs, with a
    // Reconfigure (thorough: any two of Reconfigure / Restart) inserted anywhere; every
    // certificate must carry the parameters the reference model recorded for its epoch.
    {
        use crate::world::Kind;
        let run_rc = |h: &[Ev]| crate::sys::replay_kind(&scratch, h, 3, 1, Kind::MsdOnly);
        let ex_rc = Explorer { threads: ctx.threads(), budget: None, run: &run_rc };
        let mut nom_rc: Vec<Ev> = vec![Ev::Tick, Ev::RegisterAll];
        for _ in 0..ctx.tier.pick(4, 5) {
            nom_rc.extend([Ev::Epoch(1), Ev::Tick, Ev::Tick, Ev::Tick, Ev::RegisterAll, Ev::SigAll(Ty::Msd), Ev::Tick, Ev::Quiesce]);
        }
        let dev_rc: Vec<Ev> = if quick { vec![Ev::Reconfigure] } else { vec![Ev::Reconfigure, Ev::Restart] };
        let edits_rc = |h: &[Ev]| -> Vec<Vec<Ev>> {
            // insertions only (a deleted or replaced nominal event is what parts a/b explore)
            let mut out = vec![];
            for p in 0..=h.len() {
                for d in &dev_rc {
                    let mut x = h.to_vec();
                    x.insert(p, d.clone());
                    out.push(x);
                }
            }
            out
        };
        let st = ex_rc.ball(&nom_rc, &edits_rc, ctx.tier.pick(1, 2), &mut rep);
        rep.extra("ball_reconfiguration_world", json!({"nominal_len": nom_rc.len(), "deviation_alphabet": dev_rc.len(), "bound_completed": st.depth_completed, "histories": st.transitions, "states": st.states}));
    }

    // (f) who registers when: in every epoch either all signers register, or only signers 0 and 1,
    // each optionally followed by a LATE registration of signer 2 (one that names the round of the
    // previous epoch, already closed, and must be refused). All combinations over the first three
    // (thorough: four) epochs of the default-configuration world, run until every one of those
    // registration rounds has been used for signing. Honest signers follow the signer lists the
    // aggregator announces; the invariants use the registrations the harness saw accepted.
    {
        use crate::world::Kind;
        let run_rg = |h: &[Ev]| crate::sys::replay_kind(&scratch, h, 3, 1, Kind::MsdOnly);
        let ex_rg = Explorer { threads: ctx.threads(), budget: None, run: &run_rg };
        let varied = ctx.tier.pick(3usize, 4usize);
        let choices: Vec<Vec<Ev>> = vec![
            vec![Ev::RegisterAll],
            vec![Ev::Register(0), Ev::Register(1)],
            vec![Ev::Register(0), Ev::Register(1), Ev::RegisterLate(2)],
            vec![Ev::RegisterAll, Ev::RegisterLate(2)],
        ];
        let build = |pick: &[usize]| -> Vec<Ev> {
            let mut h: Vec<Ev> = vec![Ev::Tick];
            h.extend(choices[pick[0]].iter().cloned());
            for e in 1..varied + 2 {
                h.extend([Ev::Epoch(1), Ev::Tick, Ev::Tick, Ev::Tick]);
                h.extend(choices[if e < varied { pick[e] } else { 0 }].iter().cloned());
                h.extend([Ev::SigAll(Ty::Msd), Ev::Tick, Ev::Quiesce]);
            }
            h
        };
        let nom_rg = build(&vec![0; varied]);
        let family = |_: &[Ev]| -> Vec<Vec<Ev>> {
            let mut out = vec![];
            for code in 1..4usize.pow(varied as u32) {
                let pick: Vec<usize> = (0..varied).map(|p| (code / 4usize.pow(p as u32)) % 4).collect();
                out.push(build(&pick));
            }
            out
        };
        let st = ex_rg.ball(&nom_rg, &family, 1, &mut rep);
        rep.extra("registration_choice_family", json!({"epochs_with_a_choice": varied, "choices_per_epoch": choices.len(), "nominal_len": nom_rg.len(), "histories": st.transitions, "states": st.states}));
    }

    // (c) operation interleavings at the hook points: while one operation is parked at a point,
    // another complete operation runs
    let sched = if quick { short.clone() } else { nom.clone() };
    let points = crate::sys::record_points(&scratch, &sched);
    let others_for = |point: &str| -> Vec<Ev> {
        let mut v = vec![
            Ev::Sig { signer: 1, ty: Ty::Cdb, variant: Variant::Current },
            Ev::Sig { signer: 0, ty: Ty::Msd, variant: Variant::Current },
            Ev::Sig { signer: 2, ty: Ty::Cdb, variant: Variant::NextBeacon },
            Ev::Expire(Ty::Msd),
            Ev::Expire(Ty::Cdb),
            Ev::Register(0),
            Ev::Immutable,
        ];
        if point.starts_with("signed_entity.") || point.starts_with("certifier.register_single_signature") {
            // these points are reached outside the state-machine cycle: a cycle can run meanwhile
            v.push(Ev::Tick);
            v.push(Ev::Epoch(1));
        }
        v
    };
    let mut jobs = vec![];
    for (_, p, o) in &points {
        for b in others_for(p) {
            jobs.push((p.clone(), *o, b));
        }
    }
    let res = mc_core::par_map(&jobs, ctx.threads(), |_, (p, o, b)| crate::sys::replay_interleaved(&scratch, &sched, p, *o, b));
    let mut n_inter = 0u64;
    let mut inter_states = std::collections::HashSet::new();
    for ((p, o, b), r) in jobs.iter().zip(res) {
        let Some(r) = r else {
            rep.add_extra("interleavings_point_not_reached", 1);
            continue;
        };
        n_inter += 1;
        rep.eval();
        rep.outcome(&format!("interleaved:{}", r.outcome));
        if r.nontrivial {
            rep.nontrivial(&(p, o, serde_json::to_string(b).unwrap(), &r.canon));
        }
        inter_states.insert(r.canon.clone());
        if n_inter % 40 == 1 {
            rep.max_samples = 9;
            rep.sample(json!({"schedule": "nominal", "parked_at": format!("{p}#{o}"), "other_operation": b, "outcome": r.outcome}));
        }
        for v in r.violations {
            rep.push_violation(v);
        }
    }
    rep.states = Some(rep.states.unwrap_or(0) + inter_states.len() as u64);
    rep.transitions = Some(rep.transitions.unwrap_or(0) + n_inter);
    rep.traces_validated = Some(rep.traces_validated.unwrap_or(0) + n_inter);
    rep.extra("interleavings", json!({"schedule_len": sched.len(), "point_occurrences": points.len(), "runs": n_inter, "preemptions_per_run": 1}));
    rep.extra("closing_rounds_after_every_history", json!(closing_rounds));
    rep.assume("the Cardano node, the immutable-file digester and the artifact uploader are the repository's own test doubles");
    rep.assume("interleavings are explored only at the declared hook points and only of whole operations (one preemption per run)");
    rep.assume("reference registration rule: keys registered during epoch e sign in epoch e+2; signer keys come from the repository's deterministic fixtures");
    rep.finish(ctx)
}

pub fn quick_alphabet() -> Vec<Ev> {
    use Ev::*;
    vec![
        Tick,
        Epoch(1),
        Epoch(2),
        Immutable,
        RegisterAll,
        SigAll(Ty::Msd),
        SigAll(Ty::Cdb),
        Sig { signer: 1, ty: Ty::Cdb, variant: Variant::NextBeacon },
        Sig { signer: 0, ty: Ty::Msd, variant: Variant::WrongLabel },
        Expire(Ty::Msd),
        Restart,
    ]
}
