//! C07, aggregator route: the real `SignerRegisterer` of a running aggregator (registration round
//! open) receives all sequences of ≤ L registrations over a small alphabet: honest registrations,
//! a pool registering ANOTHER pool's key under its own operational certificate and KES signature,
//! registrations announcing a wrong / missing KES evolution, valid registrations whose party id
//! field names another pool (or nothing, or an unknown pool). The verification-key store is
//! inspected after every step.

use std::collections::BTreeMap;

use mc_core::explore::RunResult;
use mc_core::{Ctx, Report, Violation, par_map, sequences};
use mithril_common::crypto_helper::{KesSigner, KesSignerStandard};
use mithril_common::entities::{Signer, SignerWithStake};
use mithril_common::protocol::SignerBuilder;
use serde::{Deserialize, Serialize};
use serde_json::json;

use crate::sys::{Ev, apply_mut, fresh_dir};
use crate::world::{World, protocol_parameters};

#[derive(Clone, Copy, Debug, Serialize, Deserialize, PartialEq, Eq, Hash)]
pub enum Reg {
    Honest(usize),
    /// pool `by` registers the key of pool `of` (public value) under its own certificate, with a
    /// KES signature it makes itself over that key
    StolenKey { by: usize, of: usize },
    /// honest registration announcing kes_evolutions = None
    NoEvolution(usize),
    /// honest registration announcing an absurd kes_evolutions value
    WrongEvolution(usize),
    /// pool `by` sends its own, fully valid registration but writes pool `claims`' id in the
    /// party id field of the message
    ClaimedId { by: usize, claims: usize },
    /// the same with an empty / unknown party id field
    ClaimedEmpty(usize),
    ClaimedUnknown(usize),
}

fn build(w: &World, r: &Reg) -> Option<Signer> {
    let sf = w.fixture.signers_fixture();
    let honest = |i: usize| -> Signer { w.fixture.signers()[i].clone() };
    Some(match r {
        Reg::Honest(i) => honest(*i),
        Reg::NoEvolution(i) => Signer { kes_evolutions: None, ..honest(*i) },
        Reg::WrongEvolution(i) => Signer { kes_evolutions: Some(mithril_common::crypto_helper::KesEvolutions(40)), ..honest(*i) },
        Reg::ClaimedId { by, claims } => Signer { party_id: honest(*claims).party_id, ..honest(*by) },
        Reg::ClaimedEmpty(i) => Signer { party_id: String::new(), ..honest(*i) },
        Reg::ClaimedUnknown(i) => Signer { party_id: "pool1unknownunknownunknownunknownunknownunknownunknown00".to_string(), ..honest(*i) },
        Reg::StolenKey { by, of } => {
            let thief = &sf[*by];
            let victim = honest(*of);
            let kes = KesSignerStandard::new(thief.kes_secret_key_path()?.to_path_buf(), thief.operational_certificate_path()?.to_path_buf());
            let start = honest(*by).operational_certificate.as_ref()?.get_start_kes_period();
            let (sig, opcert) = kes.sign(&victim.verification_key_for_concatenation.to_bytes(), start).ok()?;
            Signer {
                verification_key_for_concatenation: victim.verification_key_for_concatenation,
                verification_key_signature_for_concatenation: Some(sig.into()),
                operational_certificate: Some(opcert.into()),
                ..honest(*by)
            }
        }
    })
}

pub fn replay(scratch: &std::path::Path, regs: &[Reg]) -> RunResult {
    match mc_core::catch(|| replay_inner(scratch, regs)) {
        Ok(r) => r,
        Err(e) => crate::sys::panic_result(e),
    }
}

fn replay_inner(scratch: &std::path::Path, regs: &[Reg]) -> RunResult {
    let dir = fresh_dir(scratch);
    let rt = tokio::runtime::Builder::new_current_thread().enable_all().build().expect("tokio runtime");
    let replay_json = json!({"registrations": regs});
    let res = rt.block_on(async {
        let mut w = World::new(dir.clone(), 3, false).await;
        let mut log = vec![];
        apply_mut(&mut w, &Ev::Tick, &mut log).await; // opens the registration round
        let tp = w.time_point().await;
        let rec_epoch = tp.epoch.offset_to_recording_epoch();
        // the stake distribution the chain shows during the epoch of the registration
        let all: std::collections::BTreeSet<usize> = (0..w.fixture.signers_with_stake().len()).collect();
        let stakes: BTreeMap<String, u64> = w.signers_with_stake_in(&all, *tp.epoch).iter().map(|s| (s.party_id.clone(), s.stake)).collect();
        let mut violations = vec![];
        let mut answers = vec![];
        let mut accepted = 0;
        for (n, r) in regs.iter().enumerate() {
            let Some(signer) = build(&w, r) else {
                answers.push("unbuildable".to_string());
                continue;
            };
            let before: Vec<SignerWithStake> = w.deps.verification_key_store.get_signers(rec_epoch).await.ok().flatten().unwrap_or_default();
            let res = w.deps.signer_registerer.register_signer(rec_epoch, &signer).await;
            let ok = res.is_ok();
            answers.push(match &res {
                Ok(_) => "accepted".to_string(),
                Err(e) => format!("refused:{}", format!("{e}").chars().take(40).collect::<String>()),
            });
            let ctx = json!({"replay": replay_json, "step": n, "registration": r, "answers": answers});
            if let Ok(saved) = &res {
                accepted += 1;
                // the key must not be registered already (by another party) for this round
                if let Some(other) = before.iter().find(|s| {
                    s.verification_key_for_concatenation.to_bytes() == signer.verification_key_for_concatenation.to_bytes() && s.party_id != saved.party_id
                }) {
                    violations.push(Violation {
                        key: "C07/aggregator-accepts-key-already-registered-by-another-pool".into(),
                        what: format!(
                            "pool {} registered a verification key that pool {} had already registered for epoch {}: accepted and stored",
                            saved.party_id, other.party_id, rec_epoch
                        ),
                        replay: ctx.clone(),
                    });
                }
                // party id derived from the certificate's cold key; stake from the distribution
                let cert_party = signer.operational_certificate.as_ref().and_then(|c| c.compute_protocol_party_id().ok());
                if cert_party.as_deref() != Some(saved.party_id.as_str()) {
                    violations.push(Violation {
                        key: "C07/aggregator-party-id-not-from-cold-key".into(),
                        what: format!("recorded party id {} is not the pool id of the certificate's cold key {:?}", saved.party_id, cert_party),
                        replay: ctx.clone(),
                    });
                }
                if stakes.get(&saved.party_id) != Some(&saved.stake) {
                    violations.push(Violation {
                        key: "C07/aggregator-stake-not-from-distribution".into(),
                        what: format!("recorded stake {} for {} differs from the stake distribution {:?}", saved.stake, saved.party_id, stakes.get(&saved.party_id)),
                        replay: ctx.clone(),
                    });
                }
            }
            let _ = ok;
        }
        // observation: can the stored registrations still be turned into a signer set?
        let stored: Vec<SignerWithStake> = w.deps.verification_key_store.get_signers(rec_epoch).await.ok().flatten().unwrap_or_default();
        let buildable = stored.is_empty() || SignerBuilder::new(&stored, &protocol_parameters()).is_ok();
        RunResult {
            canon: json!({"regs": regs, "answers": answers, "stored": stored.len(), "buildable": buildable}).to_string(),
            violations,
            nontrivial: accepted > 0,
            outcome: format!("accepted={accepted},stored={},signer_set_buildable={buildable}", stored.len()),
            disabled: false,
        }
    });
    drop(rt);
    let _ = std::fs::remove_dir_all(&dir);
    res
}

pub fn run(ctx: &Ctx) -> ! {
    let scratch = ctx.scratch();
    let mut rep = Report::new(
        "exploration",
        "aggregator route: all sequences of <= L registrations (honest, another pool's key under own certificate and KES signature, \
         missing / wrong announced evolution, valid registration claiming another / no / an unknown party id) sent to the real SignerRegisterer of a running aggregator with an open registration \
         round; the verification-key store is inspected after every step; non-trivial = at least one registration accepted",
    );
    if let Some(path) = &ctx.replay {
        let v = mc_core::load_replay(path);
        let r = if v.get("replay").is_some() { v["replay"].clone() } else { v.clone() };
        let regs: Vec<Reg> = serde_json::from_value(r["registrations"].clone()).expect("registrations");
        let res = replay(&scratch, &regs);
        eprintln!("replayed: {}", res.outcome);
        rep.eval();
        for v in res.violations {
            rep.push_violation(v);
        }
        rep.nontrivial(&0);
        rep.nontrivial(&1);
        rep.sample(json!({"registrations": regs}));
        rep.finish(ctx);
    }
    let mut alpha = vec![];
    for i in 0..3 {
        alpha.push(Reg::Honest(i));
    }
    for by in 0..3 {
        for of in 0..3 {
            if by != of {
                alpha.push(Reg::StolenKey { by, of });
            }
        }
    }
    alpha.push(Reg::NoEvolution(0));
    alpha.push(Reg::WrongEvolution(1));
    for by in 0..3 {
        for claims in 0..3 {
            if by != claims {
                alpha.push(Reg::ClaimedId { by, claims });
            }
        }
    }
    alpha.push(Reg::ClaimedEmpty(0));
    alpha.push(Reg::ClaimedUnknown(1));
    let len = ctx.tier.pick(2, 3);
    let jobs: Vec<Vec<Reg>> = sequences(alpha.len(), len).into_iter().filter(|s| !s.is_empty()).map(|s| s.iter().map(|i| alpha[*i]).collect()).collect();
    {
        // vacuity guard: a stake recorded under the wrong pool is only visible when stakes differ
        let st: std::collections::BTreeSet<u64> = crate::world::fixture(3).signers_with_stake().iter().map(|s| s.stake).collect();
        if st.len() != 3 {
            eprintln!("MACHINERY: the fixture's three stakes are not pairwise distinct ({st:?})");
            std::process::exit(2);
        }
        rep.extra("fixture_stakes_pairwise_distinct", json!(st));
    }
    rep.extra("alphabet", json!(alpha.len()));
    rep.extra("max_sequence_length", json!(len));
    let results = par_map(&jobs, ctx.threads(), |_, regs| replay(&scratch, regs));
    let mut unbuildable = 0u64;
    for (regs, r) in jobs.iter().zip(results) {
        rep.eval();
        rep.outcome(&r.outcome);
        if r.nontrivial {
            rep.nontrivial(&r.canon);
        }
        if r.outcome.ends_with("signer_set_buildable=false") {
            unbuildable += 1;
        }
        if rep.evaluations % 37 == 2 {
            rep.sample(json!({"registrations": regs, "outcome": r.outcome}));
        }
        for v in r.violations {
            rep.push_violation(v);
        }
    }
    rep.extra("observation_sequences_after_which_the_stored_registrations_cannot_form_a_signer_set", json!(unbuildable));
    rep.assume("aggregator route: keys, operational certificates and KES keys are the repository's deterministic fixtures; the Cardano node (KES period, stake distribution) is the repository's FakeChainObserver");
    rep.finish(ctx)
}
