//! C07, aggregator route: the real `SignerRegisterer` of a running aggregator (registration round
//! open) receives all sequences of ≤ L registrations over a small alphabet: honest registrations,
//! a pool registering ANOTHER pool's key under its own operational certificate and KES signature,
//! the same with a proof of possession re-encoded by adding a point of the cofactor subgroup,
//! honest registrations (KES signature made at the chain-derived evolution) ANNOUNCING another /
//! no / an extreme KES evolution, valid registrations whose party id field names another pool (or
//! nothing, or an unknown pool). The verification-key store is inspected after every step.
//!
//! A second family runs PAIRS of registrations concurrently through the real
//! `MithrilSignerRegistrationLeader::register_signer` (built here from the running aggregator's
//! verification-key store and a real `MithrilSignerRegistrationVerifier`), under every interleaving
//! of the two requests around the one suspension point the harness owns: the injected
//! `SignerRecorder` (in production a database write awaited between the duplicate check and the save).

use std::collections::{BTreeMap, HashMap};
use std::sync::{Arc, Mutex};

use mc_core::explore::RunResult;
use mc_core::{Ctx, Report, Violation, par_map, sequences};
use mithril_aggregator::services::{MithrilSignerRegistrationLeader, MithrilSignerRegistrationVerifier, SignerRecorder, SignerRegisterer, SignerRegistrationRoundOpener};
use mithril_common::crypto_helper::{KesEvolutions, KesSigner, KesSignerStandard, ProtocolSignerVerificationKeyForConcatenation};
use mithril_common::entities::{Signer, SignerWithStake};
use mithril_common::protocol::SignerBuilder;
use serde::{Deserialize, Serialize};
use serde_json::json;

use crate::sys::{Ev, apply_mut, fresh_dir};
use crate::world::{CatchUnwind, World, protocol_parameters};

#[derive(Clone, Copy, Debug, Serialize, Deserialize, PartialEq, Eq, Hash)]
pub enum Reg {
    Honest(usize),
    /// pool `by` registers the key of pool `of` (public value) under its own certificate, with a
    /// KES signature it makes itself over that key
    StolenKey { by: usize, of: usize },
    /// honest registration announcing kes_evolutions = None
    NoEvolution(usize),
    /// honest registration announcing an absurd kes_evolutions value
    WrongEvolution(usize),
    /// pool `by` sends its own, fully valid registration but writes pool `claims`' id in the
    /// party id field of the message
    ClaimedId { by: usize, claims: usize },
    /// the same with an empty / unknown party id field
    ClaimedEmpty(usize),
    ClaimedUnknown(usize),
    /// the honest registration of `pool` (KES signature made at the evolution the chain gives)
    /// with the ANNOUNCED number of KES evolutions replaced by `value`
    Announced { pool: usize, value: Option<u64> },
    /// `StolenKey` where element k1 (`element` = 1) or k2 (2) of the victim's public proof of
    /// possession is moved by a point of the cofactor subgroup of E(Fp): other bytes, same key,
    /// the pairing equations still hold
    StolenKeyAlteredPop { by: usize, of: usize, element: u8 },
}

/// order of the prime-order subgroup of BLS12-381 (little endian)
const R_LE: [u8; 32] = [
    0x01, 0x00, 0x00, 0x00, 0xff, 0xff, 0xff, 0xff, 0xfe, 0x5b, 0xfe, 0xff, 0x02, 0xa4, 0xbd, 0x53, 0x05, 0xd8, 0xa1, 0x09, 0x08, 0xd8, 0x39, 0x33, 0x48,
    0x7d, 0x9d, 0x29, 0x53, 0xa7, 0xed, 0x73,
];

/// `compressed + T` for a non-trivial point T = r·P of the cofactor subgroup (P on the curve, not in G1)
fn add_cofactor_point(compressed: &[u8]) -> Option<[u8; 48]> {
    use blst::*;
    unsafe {
        let mut torsion = None;
        for i in 1u8..=255 {
            let mut c = [0u8; 48];
            c[0] = 0x80;
            c[47] = i;
            let mut a = blst_p1_affine::default();
            if blst_p1_uncompress(&mut a, c.as_ptr()) != BLST_ERROR::BLST_SUCCESS || blst_p1_affine_in_g1(&a) {
                continue;
            }
            let (mut p, mut t) = (blst_p1::default(), blst_p1::default());
            blst_p1_from_affine(&mut p, &a);
            blst_p1_mult(&mut t, &p, R_LE.as_ptr(), 255);
            if !blst_p1_is_inf(&t) {
                torsion = Some(t);
                break;
            }
        }
        let torsion = torsion?;
        let mut a = blst_p1_affine::default();
        if compressed.len() != 48 || blst_p1_uncompress(&mut a, compressed.as_ptr()) != BLST_ERROR::BLST_SUCCESS {
            return None;
        }
        let (mut p, mut sum) = (blst_p1::default(), blst_p1::default());
        blst_p1_from_affine(&mut p, &a);
        blst_p1_add_or_double(&mut sum, &p, &torsion);
        let mut out = [0u8; 48];
        blst_p1_compress(out.as_mut_ptr(), &sum);
        Some(out)
    }
}

/// pool `thief` registers `key` under its own certificate, KES-signing it itself at its start period
fn steal(w: &World, by: usize, key: ProtocolSignerVerificationKeyForConcatenation) -> Option<Signer> {
    let sf = w.fixture.signers_fixture();
    let thief = &sf[by];
    let me: Signer = w.fixture.signers()[by].clone();
    let kes = KesSignerStandard::new(thief.kes_secret_key_path()?.to_path_buf(), thief.operational_certificate_path()?.to_path_buf());
    let start = me.operational_certificate.as_ref()?.get_start_kes_period();
    let (sig, opcert) = kes.sign(&key.to_bytes(), start).ok()?;
    Some(Signer {
        verification_key_for_concatenation: key,
        verification_key_signature_for_concatenation: Some(sig.into()),
        operational_certificate: Some(opcert.into()),
        ..me
    })
}

/// evolutions (0..64) of the certificate's KES key at which the registration's KES signature
/// verifies over the registered key bytes — kes-summed-ed25519 directly
fn signature_evolutions(signer: &Signer) -> Vec<u32> {
    use kes_summed_ed25519::traits::KesSig;
    let (Some(sig), Some(cert)) = (&signer.verification_key_signature_for_concatenation, &signer.operational_certificate) else {
        return vec![];
    };
    let pk = cert.get_kes_verification_key();
    let msg = signer.verification_key_for_concatenation.to_bytes();
    (0..64u32).filter(|t| sig.verify(*t, &pk, &msg).is_ok()).collect()
}

/// "signed at a KES evolution within one period of the announced one"
fn announced_matches_signature(signer: &Signer) -> bool {
    let Some(a) = signer.kes_evolutions else { return false };
    signature_evolutions(signer).iter().any(|t| (*t as i128 - a.0 as i128).abs() <= 1)
}

fn build(w: &World, r: &Reg) -> Option<Signer> {
    let honest = |i: usize| -> Signer { w.fixture.signers()[i].clone() };
    Some(match r {
        Reg::Honest(i) => honest(*i),
        Reg::NoEvolution(i) => Signer { kes_evolutions: None, ..honest(*i) },
        Reg::WrongEvolution(i) => Signer { kes_evolutions: Some(mithril_common::crypto_helper::KesEvolutions(40)), ..honest(*i) },
        Reg::ClaimedId { by, claims } => Signer { party_id: honest(*claims).party_id, ..honest(*by) },
        Reg::ClaimedEmpty(i) => Signer { party_id: String::new(), ..honest(*i) },
        Reg::ClaimedUnknown(i) => Signer { party_id: "pool1unknownunknownunknownunknownunknownunknownunknown00".to_string(), ..honest(*i) },
        Reg::Announced { pool, value } => Signer { kes_evolutions: value.map(KesEvolutions), ..honest(*pool) },
        Reg::StolenKey { by, of } => steal(w, *by, honest(*of).verification_key_for_concatenation)?,
        Reg::StolenKeyAlteredPop { by, of, element } => {
            let mut bytes = honest(*of).verification_key_for_concatenation.to_bytes();
            let range = if *element == 1 { 96..144 } else { 144..192 };
            let moved = add_cofactor_point(&bytes[range.clone()])?;
            bytes[range].copy_from_slice(&moved);
            steal(w, *by, ProtocolSignerVerificationKeyForConcatenation::from_bytes(&bytes).ok()?)?
        }
    })
}

pub fn replay(scratch: &std::path::Path, regs: &[Reg]) -> RunResult {
    match mc_core::catch(|| replay_inner(scratch, regs)) {
        Ok(r) => r,
        Err(e) => crate::sys::panic_result(e),
    }
}

/// judge one accepted registration against what was stored before it
fn judge_accepted(signer: &Signer, saved: &SignerWithStake, before: &[SignerWithStake], stakes: &BTreeMap<String, u64>, rec_epoch: mithril_common::entities::Epoch, ctx: &serde_json::Value, violations: &mut Vec<Violation>) {
    // the key must not be registered already (by another party) for this round: the KEY, whatever
    // the bytes of the proof of possession that accompanies it
    let vk = signer.verification_key_for_concatenation.to_bytes();
    if let Some(other) = before.iter().find(|s| s.verification_key_for_concatenation.to_bytes()[..96] == vk[..96] && s.party_id != saved.party_id) {
        let same_pop = other.verification_key_for_concatenation.to_bytes() == vk;
        violations.push(Violation {
            key: if same_pop {
                "C07/aggregator-accepts-key-already-registered-by-another-pool".into()
            } else {
                "C07/aggregator-accepts-key-already-registered-by-another-pool:malleated-proof-of-possession".into()
            },
            what: format!(
                "pool {} registered a verification key that pool {} had already registered for epoch {}{}: accepted and stored",
                saved.party_id,
                other.party_id,
                rec_epoch,
                if same_pop { "" } else { " (same key, proof of possession re-encoded with a cofactor-subgroup point)" }
            ),
            replay: ctx.clone(),
        });
    }
    // the KES signature must have been made at an evolution within one period of the ANNOUNCED one
    if signer.operational_certificate.is_some() && !announced_matches_signature(signer) {
        violations.push(Violation {
            key: "C07/aggregator-accepts-unverified-announced-kes-evolution".into(),
            what: format!(
                "registration of {} accepted and stored with announced kes_evolutions = {:?} although its KES signature verifies at evolution(s) {:?} only (the aggregator checked it against the chain-derived evolution and kept the announced value)",
                saved.party_id,
                signer.kes_evolutions.map(|k| k.0),
                signature_evolutions(signer)
            ),
            replay: ctx.clone(),
        });
    }
    // party id derived from the certificate's cold key; stake from the distribution
    let cert_party = signer.operational_certificate.as_ref().and_then(|c| c.compute_protocol_party_id().ok());
    if cert_party.as_deref() != Some(saved.party_id.as_str()) {
        violations.push(Violation {
            key: "C07/aggregator-party-id-not-from-cold-key".into(),
            what: format!("recorded party id {} is not the pool id of the certificate's cold key {:?}", saved.party_id, cert_party),
            replay: ctx.clone(),
        });
    }
    if stakes.get(&saved.party_id) != Some(&saved.stake) {
        violations.push(Violation {
            key: "C07/aggregator-stake-not-from-distribution".into(),
            what: format!("recorded stake {} for {} differs from the stake distribution {:?}", saved.stake, saved.party_id, stakes.get(&saved.party_id)),
            replay: ctx.clone(),
        });
    }
}

fn replay_inner(scratch: &std::path::Path, regs: &[Reg]) -> RunResult {
    let dir = fresh_dir(scratch);
    let rt = tokio::runtime::Builder::new_current_thread().enable_all().build().expect("tokio runtime");
    let replay_json = json!({"registrations": regs});
    let res = rt.block_on(async {
        let mut w = World::new(dir.clone(), 3, false).await;
        let mut log = vec![];
        apply_mut(&mut w, &Ev::Tick, &mut log).await; // opens the registration round
        let tp = w.time_point().await;
        let rec_epoch = tp.epoch.offset_to_recording_epoch();
        // the stake distribution the chain shows during the epoch of the registration
        let all: std::collections::BTreeSet<usize> = (0..w.fixture.signers_with_stake().len()).collect();
        let stakes: BTreeMap<String, u64> = w.signers_with_stake_in(&all, *tp.epoch).iter().map(|s| (s.party_id.clone(), s.stake)).collect();
        let mut violations = vec![];
        let mut answers = vec![];
        let mut accepted = 0;
        let mut panicked = false;
        for (n, r) in regs.iter().enumerate() {
            let Some(signer) = build(&w, r) else {
                answers.push("unbuildable".to_string());
                continue;
            };
            let before: Vec<SignerWithStake> = w.deps.verification_key_store.get_signers(rec_epoch).await.ok().flatten().unwrap_or_default();
            let res = match CatchUnwind(Box::pin(w.deps.signer_registerer.register_signer(rec_epoch, &signer))).await {
                Ok(res) => res,
                Err(p) => {
                    // the handler of this request died; nothing is answered to the registrant. The
                    // property is about what is ACCEPTED: a panic is an outcome, not a verdict. The
                    // node is not used any further in this history.
                    answers.push(format!("handler-panicked@{}:{}", mc_core::last_panic_location(), p.chars().take(60).collect::<String>()));
                    panicked = true;
                    break;
                }
            };
            answers.push(match &res {
                Ok(_) => "accepted".to_string(),
                Err(e) => format!("refused:{}", format!("{e}").chars().take(40).collect::<String>()),
            });
            let ctx = json!({"replay": replay_json, "step": n, "registration": r, "answers": answers});
            if let Ok(saved) = &res {
                accepted += 1;
                judge_accepted(&signer, saved, &before, &stakes, rec_epoch, &ctx, &mut violations);
            }
        }
        // observation: can the stored registrations still be turned into a signer set?
        let stored: Vec<SignerWithStake> = w.deps.verification_key_store.get_signers(rec_epoch).await.ok().flatten().unwrap_or_default();
        let buildable = stored.is_empty() || SignerBuilder::new(&stored, &protocol_parameters()).is_ok();
        RunResult {
            canon: json!({"regs": regs, "answers": answers, "stored": stored.len(), "buildable": buildable}).to_string(),
            violations,
            nontrivial: accepted > 0,
            outcome: format!("accepted={accepted},stored={},signer_set_buildable={buildable}{}", stored.len(), if panicked { ",handler-panicked" } else { "" }),
            disabled: false,
        }
    });
    drop(rt);
    let _ = std::fs::remove_dir_all(&dir);
    res
}

// ------------------------------------------------------------------------------------------------
// concurrent registrations
// ------------------------------------------------------------------------------------------------

/// The `SignerRecorder` dependency of the leader (in production: a database write awaited between
/// the duplicate-key check and the save). Here it only parks the calling request until the
/// schedule releases it; it changes no value.
#[derive(Default)]
struct GateRecorder {
    gates: Mutex<HashMap<String, Arc<tokio::sync::Semaphore>>>,
    arrived: Mutex<Vec<String>>,
}

impl GateRecorder {
    fn gate(&self, id: &str) -> Arc<tokio::sync::Semaphore> {
        self.gates.lock().unwrap().entry(id.to_string()).or_insert_with(|| Arc::new(tokio::sync::Semaphore::new(0))).clone()
    }
}

#[async_trait::async_trait]
impl SignerRecorder for GateRecorder {
    async fn record_signer_registration(&self, signer_id: String) -> mithril_common::StdResult<()> {
        self.arrived.lock().unwrap().push(signer_id.clone());
        let gate = self.gate(&signer_id);
        gate.acquire().await.expect("gate").forget();
        Ok(())
    }
}

/// the party a registration is recorded under (the pool whose certificate it carries)
fn party_of(r: &Reg) -> usize {
    match r {
        Reg::Honest(i) | Reg::NoEvolution(i) | Reg::WrongEvolution(i) | Reg::ClaimedEmpty(i) | Reg::ClaimedUnknown(i) => *i,
        Reg::StolenKey { by, .. } | Reg::ClaimedId { by, .. } | Reg::StolenKeyAlteredPop { by, .. } => *by,
        Reg::Announced { pool, .. } => *pool,
    }
}

/// `schedule`: each request index appears twice — first: start the request and let it run to the
/// suspension point (or to its end), second: release it and let it finish.
pub fn replay_concurrent(scratch: &std::path::Path, pair: &[Reg; 2], schedule: &[usize]) -> RunResult {
    match mc_core::catch(|| replay_concurrent_inner(scratch, pair, schedule)) {
        Ok(r) => r,
        Err(e) => crate::sys::panic_result(e),
    }
}

fn replay_concurrent_inner(scratch: &std::path::Path, pair: &[Reg; 2], schedule: &[usize]) -> RunResult {
    let dir = fresh_dir(scratch);
    let rt = tokio::runtime::Builder::new_current_thread().enable_all().build().expect("tokio runtime");
    let replay_json = json!({"concurrent": pair, "schedule": schedule});
    let res = rt.block_on(async {
        let mut w = World::new(dir.clone(), 3, false).await;
        let mut log = vec![];
        apply_mut(&mut w, &Ev::Tick, &mut log).await;
        let tp = w.time_point().await;
        let rec_epoch = tp.epoch.offset_to_recording_epoch();
        let all: std::collections::BTreeSet<usize> = (0..w.fixture.signers_with_stake().len()).collect();
        let stakes: BTreeMap<String, u64> = w.signers_with_stake_in(&all, *tp.epoch).iter().map(|s| (s.party_id.clone(), s.stake)).collect();
        // the real leader on the running aggregator's store, same round as the aggregator opened
        let recorder = Arc::new(GateRecorder::default());
        let leader = Arc::new(MithrilSignerRegistrationLeader::new(
            w.deps.verification_key_store.clone(),
            recorder.clone(),
            Arc::new(MithrilSignerRegistrationVerifier::new(w.outside.chain_observer.clone())),
        ));
        leader.open_registration_round(rec_epoch, stakes.clone()).await.expect("round opened");
        let signers: Vec<Option<Signer>> = pair.iter().map(|r| build(&w, r)).collect();
        if signers.iter().any(|s| s.is_none()) {
            return RunResult { canon: "unbuildable".into(), violations: vec![], nontrivial: false, outcome: "unbuildable".into(), disabled: false };
        }
        let signers: Vec<Signer> = signers.into_iter().flatten().collect();
        let ids: Vec<String> = pair.iter().map(|r| w.fixture.signers()[party_of(r)].party_id.clone()).collect();
        let mut handles: Vec<Option<tokio::task::JoinHandle<_>>> = vec![None, None];
        let mut results: Vec<Option<Result<SignerWithStake, String>>> = vec![None, None];
        let mut started = [false, false];
        // A request that makes no progress for SPINS scheduler turns is waiting for the other
        // request (an implementation that serializes registrations): the schedule goes on and the
        // request is completed at the end. No wall clock is involved.
        const SPINS: usize = 200;
        let take = |r: Result<Result<SignerWithStake, mithril_aggregator::services::SignerRegistrationError>, tokio::task::JoinError>| match r {
            Ok(Ok(s)) => Ok(s),
            Ok(Err(e)) => Err(format!("refused:{}", format!("{e}").chars().take(40).collect::<String>())),
            Err(e) => Err(format!("handler-panicked:{}", format!("{e}").chars().take(60).collect::<String>())),
        };
        let mut blocked = 0;
        for &i in schedule {
            if !started[i] {
                started[i] = true;
                let (l, s) = (leader.clone(), signers[i].clone());
                handles[i] = Some(tokio::spawn(async move { l.register_signer(rec_epoch, &s).await }));
                // run it to the suspension point or to its end
                let mut reached = false;
                for _ in 0..SPINS {
                    if handles[i].as_ref().unwrap().is_finished() || recorder.arrived.lock().unwrap().contains(&ids[i]) {
                        reached = true;
                        break;
                    }
                    tokio::task::yield_now().await;
                }
                if !reached {
                    blocked += 1;
                }
            } else {
                recorder.gate(&ids[i]).add_permits(1);
                for _ in 0..SPINS {
                    if handles[i].as_ref().unwrap().is_finished() {
                        break;
                    }
                    tokio::task::yield_now().await;
                }
                if handles[i].as_ref().unwrap().is_finished() {
                    results[i] = Some(take(handles[i].take().unwrap().await));
                }
            }
        }
        // every gate is open now: whatever was waiting for the other request completes
        for i in 0..2 {
            if let Some(h) = handles[i].take() {
                match tokio::time::timeout(std::time::Duration::from_secs(20), h).await {
                    Ok(r) => results[i] = Some(take(r)),
                    Err(_) => panic!("request {i} does not complete although every suspension point is released"),
                }
            }
        }
        let answers: Vec<String> = results.iter().map(|r| match r {
            Some(Ok(_)) => "accepted".to_string(),
            Some(Err(e)) => e.clone(),
            None => "not-finished".to_string(),
        }).collect();
        let ctx = json!({"replay": replay_json, "answers": answers});
        let mut violations = vec![];
        let accepted: Vec<(usize, &SignerWithStake)> = results.iter().enumerate().filter_map(|(i, r)| r.as_ref().and_then(|r| r.as_ref().ok()).map(|s| (i, s))).collect();
        // each accepted registration on its own (nothing was stored before the pair)
        for (i, saved) in &accepted {
            judge_accepted(&signers[*i], saved, &[], &stakes, rec_epoch, &ctx, &mut violations);
        }
        // two accepted registrations of different parties with one key: one of them was accepted
        // although the key was registered already
        if let [(i, a), (j, b)] = accepted.as_slice()
            && a.party_id != b.party_id
            && signers[*i].verification_key_for_concatenation.to_bytes()[..96] == signers[*j].verification_key_for_concatenation.to_bytes()[..96]
        {
            violations.push(Violation {
                key: "C07/aggregator-accepts-key-already-registered-by-another-pool:concurrent-registrations".into(),
                what: format!(
                    "two registrations of one verification key, by {} and by {}, handled concurrently (schedule {:?}: both pass the duplicate check before either is saved) are both accepted and stored; handled one after the other the second is refused",
                    a.party_id, b.party_id, schedule
                ),
                replay: ctx.clone(),
            });
        }
        let stored: Vec<SignerWithStake> = w.deps.verification_key_store.get_signers(rec_epoch).await.ok().flatten().unwrap_or_default();
        let buildable = stored.is_empty() || SignerBuilder::new(&stored, &protocol_parameters()).is_ok();
        RunResult {
            canon: json!({"pair": pair, "schedule": schedule, "answers": answers, "stored": stored.len(), "buildable": buildable}).to_string(),
            violations,
            nontrivial: !accepted.is_empty(),
            outcome: format!("concurrent:accepted={},stored={},signer_set_buildable={buildable}{}", accepted.len(), stored.len(), if blocked > 0 { ",a-request-waited-for-the-other" } else { "" }),
            disabled: false,
        }
    });
    drop(rt);
    let _ = std::fs::remove_dir_all(&dir);
    res
}

/// the six interleavings of two requests with one suspension point each
fn schedules() -> Vec<Vec<usize>> {
    vec![vec![0, 0, 1, 1], vec![0, 1, 0, 1], vec![0, 1, 1, 0], vec![1, 0, 0, 1], vec![1, 0, 1, 0], vec![1, 1, 0, 0]]
}

const ANNOUNCED: [Option<u64>; 8] = [None, Some(1), Some(2), Some(40), Some(63), Some(64), Some(i64::MAX as u64), Some(u64::MAX)];

pub fn run(ctx: &Ctx) -> ! {
    let scratch = ctx.scratch();
    let mut rep = Report::new(
        "exploration",
        "aggregator route: (1) all sequences of <= L registrations (honest, another pool's key under own certificate and KES signature — with the \
         victim's proof of possession or a re-encoding of it by a cofactor-subgroup point —, honest registration announcing no / another / an extreme \
         KES evolution, valid registration claiming another / no / an unknown party id) sent to the real SignerRegisterer of a running aggregator \
         with an open registration round; the verification-key store is inspected after every step; (2) all pairs of registrations recorded under \
         different pools, handled concurrently by the real leader registerer under all 6 interleavings around the recorder suspension point; \
         non-trivial = at least one registration accepted",
    );
    if let Some(path) = &ctx.replay {
        let v = mc_core::load_replay(path);
        let r = if v.get("replay").is_some() { v["replay"].clone() } else { v.clone() };
        let res = if r.get("concurrent").is_some() {
            let pair: [Reg; 2] = serde_json::from_value(r["concurrent"].clone()).expect("pair");
            let schedule: Vec<usize> = serde_json::from_value(r["schedule"].clone()).expect("schedule");
            rep.sample(json!({"concurrent": pair, "schedule": schedule}));
            replay_concurrent(&scratch, &pair, &schedule)
        } else {
            let regs: Vec<Reg> = serde_json::from_value(r["registrations"].clone()).expect("registrations");
            rep.sample(json!({"registrations": regs}));
            replay(&scratch, &regs)
        };
        eprintln!("replayed: {}", res.outcome);
        rep.eval();
        for v in res.violations {
            rep.push_violation(v);
        }
        rep.nontrivial(&0);
        rep.nontrivial(&1);
        rep.finish(ctx);
    }
    let thorough = ctx.tier.pick(false, true);
    let mut alpha = vec![];
    for i in 0..3 {
        alpha.push(Reg::Honest(i));
    }
    for by in 0..3 {
        for of in 0..3 {
            if by != of {
                alpha.push(Reg::StolenKey { by, of });
            }
        }
    }
    // announced evolution: every value for pool 2, and the two of the first version of this check
    for value in ANNOUNCED {
        alpha.push(Reg::Announced { pool: 2, value });
    }
    alpha.push(Reg::Announced { pool: 0, value: None });
    alpha.push(Reg::Announced { pool: 1, value: Some(40) });
    // re-encoded proof of possession: one thief per victim (all six pairs in the thorough tier)
    for by in 0..3usize {
        for of in 0..3usize {
            if by != of && (thorough || (by + 2) % 3 == of) {
                for element in [1u8, 2] {
                    alpha.push(Reg::StolenKeyAlteredPop { by, of, element });
                }
            }
        }
    }
    for by in 0..3 {
        for claims in 0..3 {
            if by != claims {
                alpha.push(Reg::ClaimedId { by, claims });
            }
        }
    }
    alpha.push(Reg::ClaimedEmpty(0));
    alpha.push(Reg::ClaimedUnknown(1));
    // thorough: length 3 over the sub-alphabet without the claimed-id kinds and with 3 announced values
    let len = 2;
    let mut jobs: Vec<Vec<Reg>> = sequences(alpha.len(), len).into_iter().filter(|s| !s.is_empty()).map(|s| s.iter().map(|i| alpha[*i]).collect()).collect();
    let mut len3_alphabet = 0;
    if thorough {
        let sub: Vec<Reg> = alpha
            .iter()
            .copied()
            .filter(|r| match r {
                Reg::Honest(_) | Reg::StolenKey { .. } => true,
                Reg::StolenKeyAlteredPop { by, of, .. } => (by + 2) % 3 == *of,
                Reg::Announced { pool: 2, value } => matches!(value, None | Some(1) | Some(40)),
                _ => false,
            })
            .collect();
        len3_alphabet = sub.len();
        jobs.extend(sequences(sub.len(), 3).into_iter().filter(|s| s.len() == 3).map(|s| s.iter().map(|i| sub[*i]).collect::<Vec<Reg>>()));
    }
    {
        // vacuity guard: a stake recorded under the wrong pool is only visible when stakes differ
        let st: std::collections::BTreeSet<u64> = crate::world::fixture(3).signers_with_stake().iter().map(|s| s.stake).collect();
        if st.len() != 3 {
            eprintln!("MACHINERY: the fixture's three stakes are not pairwise distinct ({st:?})");
            std::process::exit(2);
        }
        rep.extra("fixture_stakes_pairwise_distinct", json!(st));
    }
    rep.extra("alphabet", json!(alpha.len()));
    rep.extra("max_sequence_length", json!(if thorough { 3 } else { 2 }));
    rep.extra("length_3_sub_alphabet", json!(len3_alphabet));
    rep.extra("announced_evolutions", json!(ANNOUNCED.iter().map(|a| a.map(|v| v.to_string())).collect::<Vec<_>>()));
    let results = par_map(&jobs, ctx.threads(), |_, regs| replay(&scratch, regs));
    let mut unbuildable = 0u64;
    let mut panics = 0u64;
    for (regs, r) in jobs.iter().zip(results) {
        rep.eval();
        rep.outcome(&r.outcome);
        if r.nontrivial {
            rep.nontrivial(&r.canon);
        }
        if r.outcome.contains("signer_set_buildable=false") {
            unbuildable += 1;
        }
        if r.outcome.contains("handler-panicked") {
            panics += 1;
            if !rep.extras.contains_key("observation_example_registration_handler_panic") {
                rep.extra("observation_example_registration_handler_panic", json!({"registrations": regs, "canon": r.canon}));
            }
        }
        if rep.evaluations % 97 == 2 {
            rep.sample(json!({"registrations": regs, "outcome": r.outcome}));
        }
        for v in r.violations {
            rep.push_violation(v);
        }
    }
    rep.extra("observation_sequences_after_which_the_stored_registrations_cannot_form_a_signer_set", json!(unbuildable));
    rep.extra("observation_sequences_in_which_the_registration_handler_panicked", json!(panics));

    // concurrent pairs
    let mut calpha = vec![];
    for i in 0..3 {
        calpha.push(Reg::Honest(i));
    }
    for by in 0..3 {
        for of in 0..3 {
            if by != of {
                calpha.push(Reg::StolenKey { by, of });
            }
        }
    }
    let mut cjobs: Vec<([Reg; 2], Vec<usize>)> = vec![];
    for (i, a) in calpha.iter().enumerate() {
        for b in calpha.iter().skip(i + 1) {
            if party_of(a) != party_of(b) {
                for s in schedules() {
                    cjobs.push(([*a, *b], s));
                }
            }
        }
    }
    rep.extra("concurrent_pairs", json!(cjobs.len() / 6));
    rep.extra("concurrent_schedules_per_pair", json!(6));
    let results = par_map(&cjobs, ctx.threads(), |_, (pair, s)| replay_concurrent(&scratch, pair, s));
    for ((pair, s), r) in cjobs.iter().zip(results) {
        rep.eval();
        rep.outcome(&r.outcome);
        if r.nontrivial {
            rep.nontrivial(&r.canon);
        }
        if r.outcome.starts_with("PANIC") {
            rep.machinery_error(format!("concurrent replay failed: {} ({pair:?}, {s:?})", r.outcome));
        }
        if rep.evaluations % 97 == 2 {
            rep.sample(json!({"concurrent": pair, "schedule": s, "outcome": r.outcome}));
        }
        for v in r.violations {
            rep.push_violation(v);
        }
    }
    rep.assume("aggregator route: keys, operational certificates and KES keys are the repository's deterministic fixtures; the Cardano node (KES period 0, stake distribution) is the repository's FakeChainObserver, so every fixture KES signature is made at evolution 0 = the chain-derived evolution");
    rep.assume("concurrent family: the leader registerer is the real MithrilSignerRegistrationLeader built by the harness from the running aggregator's verification-key store and a real MithrilSignerRegistrationVerifier on the same chain observer, with the round (epoch, stake distribution) the aggregator opened; only its SignerRecorder dependency is the harness' (it parks the request, changes no value); requests are real tokio tasks on the current-thread runtime");
    rep.assume("a panic of the registration handler is counted as an outcome (the registrant gets no acceptance and nothing is stored), not as a violation of C07");
    rep.finish(ctx)
}
