//! Events, replay and invariants of the aggregator system (C14; reused by C15 and C16).

use std::collections::{BTreeMap, BTreeSet, HashSet};
use std::path::PathBuf;
use std::sync::Arc;
use std::sync::atomic::{AtomicU64, Ordering};

use async_trait::async_trait;
use mc_core::Violation;
use mc_core::explore::RunResult;
use mithril_common::{
    StdResult,
    certificate_chain::{CertificateRetriever, CertificateRetrieverError, CertificateVerifier, MithrilCertificateVerifier},
    crypto_helper::GenesisVerifier,
    entities::{
        CardanoDbBeacon, Certificate, CertificateSignature, Epoch, ProtocolMessage, SignedEntityType,
        SignedEntityTypeDiscriminants, SingleSignature,
    },
    protocol::ToMessage,
};
use serde::{Deserialize, Serialize};
use serde_json::json;

use crate::world::World;

#[derive(Clone, Copy, Debug, Serialize, Deserialize, PartialEq, Eq, Hash, PartialOrd, Ord)]
pub enum Ty {
    Msd,
    Cdb,
    /// Cardano stake distribution (of the previous epoch)
    Csd,
}

impl Ty {
    pub fn disc(&self) -> SignedEntityTypeDiscriminants {
        match self {
            Ty::Msd => SignedEntityTypeDiscriminants::MithrilStakeDistribution,
            Ty::Cdb => SignedEntityTypeDiscriminants::CardanoDatabase,
            Ty::Csd => SignedEntityTypeDiscriminants::CardanoStakeDistribution,
        }
    }
}

#[derive(Clone, Copy, Debug, Serialize, Deserialize, PartialEq, Eq, Hash, PartialOrd, Ord)]
pub enum Variant {
    /// honest signature for the entity of the current time point
    Current,
    /// honest signature for the previous immutable beacon (superseded open message)
    PrevBeacon,
    /// honest signature for the next immutable beacon (no open message yet → buffered)
    NextBeacon,
    /// a signature made over another message, submitted for the current entity
    WrongMessage,
    /// signer's signature submitted under the next signer's party id
    WrongLabel,
}

#[derive(Clone, Debug, Serialize, Deserialize, PartialEq, Eq, Hash)]
pub enum Ev {
    Tick,
    /// let background tasks (artifact creation) finish
    Quiesce,
    /// the chain moves n epochs forward at once
    Epoch(u8),
    Immutable,
    Register(usize),
    RegisterAll,
    Sig { signer: usize, ty: Ty, variant: Variant },
    /// every signer submits its honest signature for the current entity (again, if it already did:
    /// repeated signatures are part of C14's event space)
    SigAll(Ty),
    /// every HONEST signer submits its signature for the current entity unless the aggregator has
    /// already acknowledged one from it for that entity (a real signer signs each beacon once and
    /// retries only while the publication fails)
    HonestSigs(Ty),
    /// the current open message of this type reaches its expiry date
    Expire(Ty),
    /// signer i sends a registration naming the round of the previous epoch (closed): must be refused
    RegisterLate(usize),
    Restart,
    /// the operator restarts the node with the other protocol-parameter configuration
    Reconfigure,
}

static DIR_COUNTER: AtomicU64 = AtomicU64::new(0);

pub fn fresh_dir(scratch: &std::path::Path) -> PathBuf {
    let n = DIR_COUNTER.fetch_add(1, Ordering::Relaxed);
    scratch.join(format!("w{n}"))
}

/// DB-backed certificate retriever for the reference verification (the public verifier of
/// mithril-common, exactly what a client runs).
struct MapRetriever(BTreeMap<String, Certificate>);

#[async_trait]
impl CertificateRetriever for MapRetriever {
    async fn get_certificate_details(&self, hash: &str) -> Result<Certificate, CertificateRetrieverError> {
        self.0
            .get(hash)
            .cloned()
            .ok_or_else(|| CertificateRetrieverError(anyhow::anyhow!("certificate {hash} not in store")))
    }
}

pub struct Checker {
    /// certificates already verified to genesis (hash → ok)
    verified: HashSet<String>,
    pub produced: usize,
}

impl Checker {
    pub fn new() -> Checker {
        Checker { verified: HashSet::new(), produced: 0 }
    }

    /// I1: every stored certificate verifies with its whole chain under the client verifier.
    pub async fn verify_to_genesis(&mut self, w: &World, all: &[Certificate], out: &mut Vec<Violation>, ctx: &serde_json::Value) {
        let map: BTreeMap<String, Certificate> = all.iter().map(|c| (c.hash.clone(), c.clone())).collect();
        let gv = GenesisVerifier::try_from_hex(&w.config.genesis_verification_key).expect("genesis verification key");
        let verifier = MithrilCertificateVerifier::new(crate::world::logger(), Arc::new(MapRetriever(map.clone())), Arc::new(gv));
        for c in all {
            if self.verified.contains(&c.hash) {
                continue;
            }
            // walk the chain ourselves: finite, ends in a genesis certificate
            let mut cur = c.clone();
            let mut steps = 0usize;
            let mut ok = true;
            loop {
                if self.verified.contains(&cur.hash) {
                    break;
                }
                match verifier.verify_certificate(&cur).await {
                    Ok(Some(prev)) => {
                        cur = prev;
                    }
                    Ok(None) => break,
                    Err(e) => {
                        out.push(Violation {
                            key: "C14/stored-certificate-does-not-verify".into(),
                            what: format!(
                                "certificate {} (epoch {}, {:?}) stored by the aggregator fails client verification at chain element {}: {e:?}",
                                c.hash, c.epoch, c.signed_entity_type(), cur.hash
                            ),
                            replay: ctx.clone(),
                        });
                        ok = false;
                        break;
                    }
                }
                steps += 1;
                if steps > all.len() + 1 {
                    out.push(Violation {
                        key: "C14/certificate-chain-does-not-terminate".into(),
                        what: format!("chain from {} does not reach a genesis certificate in {} steps", c.hash, steps),
                        replay: ctx.clone(),
                    });
                    ok = false;
                    break;
                }
            }
            if ok {
                self.verified.insert(c.hash.clone());
            }
        }
    }

    /// All invariants, evaluated on the database after one event.
    pub async fn check(&mut self, w: &World, ctx: &serde_json::Value) -> Vec<Violation> {
        self.check_since(w, ctx, None).await
    }

    /// `event_started`: when the event that was just applied began (for the expiry clause)
    pub async fn check_since(&mut self, w: &World, ctx: &serde_json::Value, event_started: Option<chrono::DateTime<chrono::Utc>>) -> Vec<Violation> {
        let mut out = vec![];
        let new = w.observe_new_certificates().await;
        let mut all = w.all_certificates().await;
        all.reverse();
        self.verify_to_genesis(w, &all, &mut out, ctx).await;
        let by_hash: BTreeMap<String, Certificate> = all.iter().map(|c| (c.hash.clone(), c.clone())).collect();

        // I5: no signed entity (type and beacon) certified twice
        let mut seen: BTreeMap<String, String> = BTreeMap::new();
        for c in &all {
            if c.is_genesis() {
                continue;
            }
            let k = format!("{:?}", c.signed_entity_type());
            if let Some(other) = seen.insert(k.clone(), c.hash.clone()) {
                out.push(Violation {
                    key: "C14/entity-certified-twice".into(),
                    what: format!("signed entity {k} is certified by two stored certificates {other} and {}", c.hash),
                    replay: ctx.clone(),
                });
            }
        }

        for c in &new {
            if c.is_genesis() {
                continue;
            }
            self.produced += 1;
            let epoch = *c.epoch;
            // I6: the open message had not reached its expiry date when the sealing event began
            // (an expired open message is refused, never certified)
            if let Some(t0) = event_started
                && let Ok(Some(om)) = w.open_messages.get_open_message_with_single_signatures(&c.signed_entity_type()).await
                && let Some(exp) = om.expires_at
                && exp < t0
            {
                out.push(Violation {
                    key: "C14/certificate-sealed-for-expired-open-message".into(),
                    what: format!(
                        "certificate {} for {:?} was sealed although its open message had expired at {exp} before the sealing cycle began at {t0} (is_expired flag: {})",
                        c.hash,
                        c.signed_entity_type(),
                        om.is_expired
                    ),
                    replay: ctx.clone(),
                });
            }
            // I3: aggregate key and parameters in force for the epoch (reference offset rule)
            match w.reference_signer_builder(epoch) {
                None => out.push(Violation {
                    key: "C14/certificate-for-epoch-without-signers".into(),
                    what: format!("certificate {} sealed in epoch {epoch} for which the reference rule has no registered signer", c.hash),
                    replay: ctx.clone(),
                }),
                Some(b) => {
                    let avk: mithril_common::crypto_helper::ProtocolAggregateVerificationKeyForConcatenation =
                        b.compute_aggregate_verification_key().to_concatenation_aggregate_verification_key().to_owned().into();
                    let avk_json = avk.to_json_hex().unwrap_or_default();
                    let got = c.aggregate_verification_key.to_json_hex().unwrap_or_default();
                    if avk_json != got {
                        out.push(Violation {
                            key: "C14/wrong-aggregate-key-for-epoch".into(),
                            what: format!(
                                "certificate {} of epoch {epoch} carries an aggregate key that is not the one of the signers registered two epochs earlier {:?}",
                                c.hash,
                                w.reference_signers(epoch)
                            ),
                            replay: ctx.clone(),
                        });
                    }
                    if let Some(expected) = w.reference_parameters(epoch)
                        && c.metadata.protocol_parameters != expected
                    {
                        out.push(Violation {
                            key: "C14/wrong-protocol-parameters".into(),
                            what: format!(
                                "certificate {} of epoch {epoch} carries parameters {:?}; the parameters recorded for that epoch (write-once, two epochs ahead) are {:?}",
                                c.hash, c.metadata.protocol_parameters, expected
                            ),
                            replay: ctx.clone(),
                        });
                    }
                    // I2: sealed for an open message on which registered signers with a quorum of
                    // valid wins had signed
                    self.check_quorum(w, c, &b, &mut out, ctx).await;
                }
            }
            // I4: parent = first certificate of its epoch, or of the preceding epoch if itself first
            let first_of = |e: u64, order: &Vec<String>| -> Option<String> {
                order.iter().find(|h| by_hash.get(*h).map(|x| *x.epoch == e).unwrap_or(false)).cloned()
            };
            let order = w.cert_order.borrow().clone();
            let first_same = first_of(epoch, &order);
            let expected_parent = if first_same.as_deref() == Some(c.hash.as_str()) {
                if epoch == 0 { None } else { first_of(epoch - 1, &order) }
            } else {
                first_same
            };
            if expected_parent.as_deref() != Some(c.previous_hash.as_str()) {
                let parent_epoch = by_hash.get(&c.previous_hash).map(|p| *p.epoch);
                out.push(Violation {
                    key: "C14/wrong-parent-link".into(),
                    what: format!(
                        "certificate {} (epoch {epoch}) links to {} (epoch {:?}); expected the first certificate of its epoch or of the preceding one: {:?}",
                        c.hash, c.previous_hash, parent_epoch, expected_parent
                    ),
                    replay: ctx.clone(),
                });
            }
        }
        out
    }

    async fn check_quorum(
        &self,
        w: &World,
        c: &Certificate,
        b: &mithril_common::protocol::SignerBuilder,
        out: &mut Vec<Violation>,
        ctx: &serde_json::Value,
    ) {
        let entity = c.signed_entity_type();
        let om = w
            .open_messages
            .get_open_message_with_single_signatures(&entity)
            .await
            .ok()
            .flatten();
        let Some(om) = om else {
            out.push(Violation {
                key: "C14/certificate-without-open-message".into(),
                what: format!("certificate {} for {entity:?} has no open message in the store", c.hash),
                replay: ctx.clone(),
            });
            return;
        };
        if om.protocol_message.compute_hash() != c.signed_message {
            out.push(Violation {
                key: "C14/certificate-signs-other-message".into(),
                what: format!("certificate {} signed message differs from its open message", c.hash),
                replay: ctx.clone(),
            });
        }
        let ms = b.build_multi_signer();
        let registered: BTreeSet<String> = w
            .signers_with_stake_of(&w.reference_signers(*c.epoch), *c.epoch)
            .iter()
            .map(|s| s.party_id.clone())
            .collect();
        let mut indices: BTreeSet<u64> = BTreeSet::new();
        for s in &om.single_signatures {
            let valid = registered.contains(&s.party_id) && ms.verify_single_signature(&om.protocol_message, s).is_ok();
            if valid {
                indices.extend(s.won_indexes.iter().copied());
            }
        }
        let k = w.reference_parameters(*c.epoch).map(|p| p.k).unwrap_or(c.metadata.protocol_parameters.k);
        if (indices.len() as u64) < k {
            out.push(Violation {
                key: "C14/sealed-without-quorum".into(),
                what: format!(
                    "certificate {} for {entity:?}: the valid stored signatures of registered signers cover only {} distinct indices, k={k}",
                    c.hash,
                    indices.len()
                ),
                replay: ctx.clone(),
            });
        }
        // the signer list names only registered parties
        for p in &c.metadata.signers {
            if !registered.contains(&p.party_id) {
                out.push(Violation {
                    key: "C14/unregistered-party-in-signers".into(),
                    what: format!("certificate {} names {} which is not registered for epoch {}", c.hash, p.party_id, c.epoch),
                    replay: ctx.clone(),
                });
            }
        }
    }
}

/// honest protocol message for `entity`: the doubles standing for the Cardano database are set to
/// what they return at that beacon, the message is computed, and they are put back.
pub async fn honest_message(w: &World, entity: &SignedEntityType) -> StdResult<ProtocolMessage> {
    match entity {
        SignedEntityType::CardanoDatabase(beacon) => {
            w.outside
                .digester
                .update_digest(format!("n{}-e{}-i{}", w.config.network, beacon.epoch, beacon.immutable_file_number))
                .await;
            w.outside.digester.update_merkle_tree(vec![beacon.immutable_file_number.to_string()]).await;
            let m = w.protocol_message(entity).await;
            w.update_digester().await;
            m
        }
        _ => w.protocol_message(entity).await,
    }
}

pub async fn entity_for(w: &World, ty: Ty, variant: Variant) -> Option<SignedEntityType> {
    let tp = w.time_point().await;
    Some(match (ty, variant) {
        (Ty::Msd, Variant::PrevBeacon) | (Ty::Msd, Variant::NextBeacon) => return None,
        (Ty::Csd, Variant::PrevBeacon) | (Ty::Csd, Variant::NextBeacon) => return None,
        (Ty::Csd, _) => {
            if *tp.epoch == 0 {
                return None;
            }
            SignedEntityType::CardanoStakeDistribution(Epoch(*tp.epoch - 1))
        }
        (Ty::Msd, _) => SignedEntityType::MithrilStakeDistribution(tp.epoch),
        (Ty::Cdb, Variant::PrevBeacon) => {
            if tp.immutable_file_number == 0 {
                return None;
            }
            SignedEntityType::CardanoDatabase(CardanoDbBeacon::new(*tp.epoch, tp.immutable_file_number - 1))
        }
        (Ty::Cdb, Variant::NextBeacon) => SignedEntityType::CardanoDatabase(CardanoDbBeacon::new(*tp.epoch, tp.immutable_file_number + 1)),
        (Ty::Cdb, _) => SignedEntityType::CardanoDatabase(CardanoDbBeacon::new(*tp.epoch, tp.immutable_file_number)),
    })
}

/// what one submission looked like (for outcome statistics and C16)
#[derive(Debug, Clone)]
pub struct Submission {
    pub status: u16,
    pub entity: SignedEntityType,
    pub sig: SingleSignature,
    pub honest: bool,
}

pub async fn submit(w: &World, signer: usize, ty: Ty, variant: Variant) -> Option<Submission> {
    let tp = w.time_point().await;
    let entity = entity_for(w, ty, variant).await?;
    let msg = honest_message(w, &entity).await.ok()?;
    let n = w.fixture.signers_fixture().len();
    let (sig, honest) = match variant {
        Variant::WrongMessage => {
            let mut other = msg.clone();
            other.set_message_part(
                mithril_common::entities::ProtocolMessagePartKey::LatestBlockNumber,
                "4242".to_string(),
            );
            (w.sign(signer, *tp.epoch, &other).await?, false)
        }
        Variant::WrongLabel => {
            let mut s = w.sign(signer, *tp.epoch, &msg).await?;
            s.party_id = w.fixture.signers_fixture()[(signer + 1) % n].signer_with_stake.party_id.clone();
            (s, false)
        }
        _ => (w.sign(signer, *tp.epoch, &msg).await?, true),
    };
    let status = w.post_signature(&entity, &sig, &msg.to_message()).await;
    Some(Submission { status, entity, sig, honest })
}

pub async fn apply(w: &World, ev: &Ev, log: &mut Vec<String>) {
    match ev {
        Ev::Tick => {
            let r = w.tick().await;
            log.push(match r {
                Ok(()) => format!("tick->{}", w.state()),
                Err(e) => format!("tick-err({})->{}", short(&e), w.state()),
            });
        }
        Ev::Quiesce => w.quiesce().await,
        Ev::Epoch(n) => {
            for _ in 0..*n {
                w.next_epoch().await;
            }
        }
        Ev::Immutable => w.next_immutable().await,
        Ev::Register(i) => {
            let r = w.register(*i).await;
            log.push(format!("register({i})={}", if r.is_ok() { "ok" } else { "refused" }));
        }
        Ev::RegisterAll => {
            for i in 0..w.fixture.signers_fixture().len() {
                let _ = w.register(i).await;
            }
        }
        Ev::RegisterLate(i) => {
            let r = w.register_late(*i).await;
            log.push(format!("register-late({i})={}", if r.is_ok() { "ACCEPTED" } else { "refused" }));
        }
        Ev::Sig { signer, ty, variant } => {
            let s = submit(w, *signer, *ty, *variant).await;
            log.push(format!("sig({signer},{ty:?},{variant:?})={:?}", s.map(|s| s.status)));
        }
        Ev::SigAll(ty) => {
            for i in 0..w.fixture.signers_fixture().len() {
                let s = submit(w, i, *ty, Variant::Current).await;
                log.push(format!("sig({i},{ty:?})={:?}", s.map(|s| s.status)));
            }
        }
        Ev::HonestSigs(ty) => {
            let entity = w.current_entity(ty.disc()).await;
            let key = format!("{entity:?}");
            // a signer node reads the epoch settings from the aggregator first: while the aggregator
            // has not entered the epoch of the signer's node, the signer cannot sign for it yet
            let tp = w.time_point().await;
            if w.served_epoch().await != Some(*tp.epoch) {
                log.push(format!("honest-sigs({ty:?}): aggregator not in epoch {} yet, signers wait", tp.epoch));
                return;
            }
            for i in 0..w.fixture.signers_fixture().len() {
                if w.acknowledged.borrow().contains(&(i, key.clone())) {
                    continue;
                }
                let s = submit(w, i, *ty, Variant::Current).await;
                if let Some(sub) = &s
                    && (sub.status == 201 || sub.status == 202)
                {
                    w.acknowledged.borrow_mut().insert((i, key.clone()));
                }
                log.push(format!("honest-sig({i},{ty:?})={:?}", s.map(|s| s.status)));
            }
        }
        Ev::Expire(ty) => {
            let entity = w.current_entity(ty.disc()).await;
            // (the with-single-signatures query is the one the certifier itself uses: it looks the
            // message up under the epoch it is signed in, which differs from the beacon epoch for
            // CardanoStakeDistribution)
            if let Ok(Some(om)) = w.open_messages.get_open_message_with_single_signatures(&entity).await {
                let mut om: mithril_aggregator::database::record::OpenMessageRecord = om.into();
                om.expires_at = Some(chrono::Utc::now() - chrono::Duration::seconds(1));
                let _ = w.open_messages.update_open_message(&om).await;
            }
        }
        Ev::Restart | Ev::Reconfigure => unreachable!("Restart / Reconfigure are handled by apply_mut"),
    }
}

pub async fn apply_mut(w: &mut World, ev: &Ev, log: &mut Vec<String>) {
    if matches!(ev, Ev::Restart) {
        w.restart().await;
    } else if matches!(ev, Ev::Reconfigure) {
        w.reconfigure().await;
    } else {
        apply(&*w, ev, log).await;
    }
    if w.restart_if_crashed().await {
        log.push("the node panicked: restarted".into());
    }
}

fn short(e: &str) -> String {
    let e = e.replace('\n', " ");
    let cut = e.char_indices().nth(60).map(|x| x.0).unwrap_or(e.len());
    e[..cut].to_string()
}

/// canonical, order-free, time-free description of the state
pub async fn canon(w: &World) -> String {
    let tp = w.time_point().await;
    let all = {
        let mut a = w.all_certificates().await;
        a.reverse();
        a
    };
    let order = w.cert_order.borrow().clone();
    let idx = |h: &str| order.iter().position(|x| x == h).map(|i| i as i64).unwrap_or(-1);
    let mut certs: Vec<serde_json::Value> = all
        .iter()
        .map(|c| {
            let mut signers: Vec<String> = c.metadata.signers.iter().map(|s| s.party_id.clone()).collect();
            signers.sort();
            json!({"i": idx(&c.hash), "e": *c.epoch, "t": if c.is_genesis() {"genesis".to_string()} else {format!("{:?}", c.signed_entity_type())},
                   "p": idx(&c.previous_hash), "s": signers.len(), "k": c.metadata.protocol_parameters.k})
        })
        .collect();
    certs.sort_by_key(|v| v["i"].as_i64());
    let mut oms = vec![];
    if let Some(e) = entity_for(w, Ty::Csd, Variant::Current).await
        && let Ok(Some(om)) = w.open_messages.get_open_message_with_single_signatures(&e).await
    {
        let mut sg: Vec<String> = om.single_signatures.iter().map(|s| s.party_id.clone()).collect();
        sg.sort();
        let due = om.expires_at.map(|t| t <= chrono::Utc::now()).unwrap_or(false);
        oms.push(json!({"t": format!("{e:?}"), "c": om.is_certified, "x": om.is_expired, "due": due, "s": sg}));
    }
    for d in [SignedEntityTypeDiscriminants::MithrilStakeDistribution, SignedEntityTypeDiscriminants::CardanoDatabase] {
        // all open messages of the type, through the public repository API: current and neighbours
        for delta in [-1i64, 0, 1] {
            let e = match d {
                SignedEntityTypeDiscriminants::MithrilStakeDistribution if delta == 0 => SignedEntityType::MithrilStakeDistribution(tp.epoch),
                SignedEntityTypeDiscriminants::CardanoDatabase => {
                    let imm = tp.immutable_file_number as i64 + delta;
                    if imm < 0 {
                        continue;
                    }
                    SignedEntityType::CardanoDatabase(CardanoDbBeacon::new(*tp.epoch, imm as u64))
                }
                _ => continue,
            };
            if let Ok(Some(om)) = w.open_messages.get_open_message_with_single_signatures(&e).await {
                let mut s: Vec<String> = om.single_signatures.iter().map(|s| s.party_id.clone()).collect();
                s.sort();
                let due = om.expires_at.map(|t| t <= chrono::Utc::now()).unwrap_or(false);
                oms.push(json!({"t": format!("{e:?}"), "c": om.is_certified, "x": om.is_expired, "due": due, "s": s}));
            }
        }
    }
    let mut entities = vec![];
    if let Ok(list) = w.deps.signed_entity_storer.get_last_signed_entities_by_type(&SignedEntityTypeDiscriminants::MithrilStakeDistribution, 1000).await {
        for r in list {
            entities.push(json!({"t": format!("{:?}", r.signed_entity_type), "c": idx(&r.certificate_id)}));
        }
    }
    if let Ok(list) = w.deps.signed_entity_storer.get_last_signed_entities_by_type(&SignedEntityTypeDiscriminants::CardanoStakeDistribution, 1000).await {
        for r in list {
            entities.push(json!({"t": format!("{:?}", r.signed_entity_type), "c": idx(&r.certificate_id)}));
        }
    }
    if let Ok(list) = w.deps.signed_entity_storer.get_last_signed_entities_by_type(&SignedEntityTypeDiscriminants::CardanoDatabase, 1000).await {
        for r in list {
            entities.push(json!({"t": format!("{:?}", r.signed_entity_type), "c": idx(&r.certificate_id)}));
        }
    }
    entities.sort_by_key(|v| v.to_string());
    let reg: Vec<(u64, Vec<usize>)> = w.registered_in_epoch.borrow().iter().map(|(e, s)| (*e, s.iter().copied().collect())).collect();
    let mut buffered = w.raw_rows("select signed_entity_type_id, party_id from buffered_single_signature order by 1, 2");
    buffered.sort();
    // the stored epoch settings from the previous epoch on (what future certificates will carry)
    let settings = w.raw_rows(&format!(
        "select epoch_setting_id, protocol_parameters from epoch_setting where epoch_setting_id >= {} order by 1",
        (*tp.epoch).saturating_sub(1)
    ));
    json!({"st": w.state(), "e": *tp.epoch, "i": tp.immutable_file_number, "certs": certs, "om": oms, "se": entities, "reg": reg, "buf": buffered, "restarts": w.restarts.min(1),
           "cfg": w.cfg_variant, "settings": settings,
           "pending_artifact": w.deps.signed_entity_type_lock.has_locked_entities().await}).to_string()
}

/// C15 store invariants: every certificate verifies with its chain; at most one artifact per signed
/// entity; every artifact references a stored certificate that certifies exactly that entity.
pub async fn check_store(w: &World, chk: &mut Checker, ctx: &serde_json::Value) -> Vec<Violation> {
    let mut out = vec![];
    let mut all = w.all_certificates().await;
    all.reverse();
    let _ = w.observe_new_certificates().await;
    let mut tmp = vec![];
    chk.verify_to_genesis(w, &all, &mut tmp, ctx).await;
    for mut v in tmp {
        v.key = v.key.replace("C14/", "C15/");
        out.push(v);
    }
    let by_hash: BTreeMap<String, Certificate> = all.iter().map(|c| (c.hash.clone(), c.clone())).collect();
    let mut seen: BTreeSet<String> = BTreeSet::new();
    for d in [SignedEntityTypeDiscriminants::MithrilStakeDistribution, SignedEntityTypeDiscriminants::CardanoDatabase] {
        let list = w.deps.signed_entity_storer.get_last_signed_entities_by_type(&d, 10_000).await.unwrap_or_default();
        for r in list {
            let k = format!("{:?}", r.signed_entity_type);
            if !seen.insert(k.clone()) {
                out.push(Violation {
                    key: "C15/two-artifacts-for-one-entity".into(),
                    what: format!("signed entity {k} has two artifacts in the store"),
                    replay: ctx.clone(),
                });
            }
            match by_hash.get(&r.certificate_id) {
                None => out.push(Violation {
                    key: "C15/artifact-references-missing-certificate".into(),
                    what: format!("artifact of {k} references certificate {} which is not stored", r.certificate_id),
                    replay: ctx.clone(),
                }),
                Some(c) => {
                    if c.is_genesis() || c.signed_entity_type() != r.signed_entity_type {
                        out.push(Violation {
                            key: "C15/artifact-references-certificate-of-other-entity".into(),
                            what: format!("artifact of {k} references certificate {} which certifies {:?}", c.hash, c.signed_entity_type()),
                            replay: ctx.clone(),
                        });
                    }
                }
            }
        }
    }
    out
}

/// number of signed entities that are certified by more than one stored certificate
pub async fn doubly_certified(w: &World) -> usize {
    let all = w.all_certificates().await;
    let mut m: BTreeMap<String, usize> = BTreeMap::new();
    for c in all.iter().filter(|c| !c.is_genesis()) {
        *m.entry(format!("{:?}", c.signed_entity_type())).or_default() += 1;
    }
    m.values().filter(|n| **n > 1).count()
}

pub async fn has_certificate_and_artifact(w: &World, entity: &SignedEntityType) -> bool {
    let all = w.all_certificates().await;
    let Some(c) = all.iter().find(|c| !c.is_genesis() && &c.signed_entity_type() == entity) else {
        return false;
    };
    matches!(w.deps.signed_entity_storer.get_signed_entity_by_certificate_id(&c.hash).await, Ok(Some(_)))
}

/// Replay one history on a fresh real aggregator; invariants are evaluated after every event.
pub fn replay(scratch: &std::path::Path, history: &[Ev], nsigners: usize, closing_rounds: usize) -> RunResult {
    replay_kind(scratch, history, nsigners, closing_rounds, crate::world::Kind::MsdCdb)
}

/// A panic of the node under test (or of the harness) during a replay must not take the whole
/// exploration down: it becomes the outcome of that one history ("PANIC@<location>"), is counted,
/// and the exploration goes on. C14-C16 do not forbid a crash as such - a crashed process is
/// restarted, which is an event of the alphabet - so it is an observation, not a violation.
pub fn panic_result(what: String) -> RunResult {
    let loc = mc_core::last_panic_location();
    crate::ctl::Ctl::uninstall();
    RunResult {
        canon: format!("PANIC@{loc}"),
        violations: vec![],
        nontrivial: false,
        outcome: format!("PANIC@{loc}:{}", what.chars().take(60).collect::<String>()),
        disabled: false,
    }
}

pub fn replay_kind(scratch: &std::path::Path, history: &[Ev], nsigners: usize, closing_rounds: usize, kind: crate::world::Kind) -> RunResult {
    match mc_core::catch(|| replay_kind_inner(scratch, history, nsigners, closing_rounds, kind)) {
        Ok(r) => r,
        Err(e) => panic_result(e),
    }
}

fn replay_kind_inner(scratch: &std::path::Path, history: &[Ev], nsigners: usize, closing_rounds: usize, kind: crate::world::Kind) -> RunResult {
    let dir = fresh_dir(scratch);
    let rt = tokio::runtime::Builder::new_current_thread().enable_all().build().expect("tokio runtime");
    let hist_json = serde_json::to_value(history).unwrap();
    let res = rt.block_on(async {
        let mut w = World::new_kind(dir.clone(), nsigners, kind).await;
        let mut chk = Checker::new();
        let mut log = vec![];
        let mut violations = vec![];
        // the genesis certificate itself
        violations.extend(chk.check(&w, &json!({"history": hist_json, "kind": kind, "failing_step": -1})).await);
        for (i, ev) in history.iter().enumerate() {
            let t0 = chrono::Utc::now();
            apply_mut(&mut w, ev, &mut log).await;
            let ctx = json!({"history": hist_json, "kind": kind, "failing_step": i, "event": ev, "log": log});
            violations.extend(chk.check_since(&w, &ctx, Some(t0)).await);
            if std::env::var_os("VERIF_TRACE").is_some() {
                eprintln!("[trace] {i} {ev:?} -> {} log={:?}", canon(&w).await, log.last());
            }
        }
        let canon = canon(&w).await;
        let produced = chk.produced;
        let state = w.state();
        // fair closing environment: whatever the explored history left behind, honest signers keep
        // resubmitting and the machine keeps cycling; the invariants must keep holding (this is what
        // exposes latent damage, e.g. an entity that can be certified a second time)
        let second = if kind == crate::world::Kind::MsdCsd { Ty::Csd } else { Ty::Cdb };
        let round = [Ev::Tick, Ev::SigAll(Ty::Msd), Ev::SigAll(second), Ev::Tick, Ev::Quiesce];
        for r in 0..closing_rounds {
            for ev in &round {
                let t0 = chrono::Utc::now();
                apply_mut(&mut w, ev, &mut log).await;
                let ctx = json!({"history": hist_json, "kind": kind, "failing_step": format!("closing round {r}"), "event": ev, "log": log});
                violations.extend(chk.check_since(&w, &ctx, Some(t0)).await);
            }
        }
        RunResult {
            canon,
            violations,
            nontrivial: produced > 0,
            outcome: format!("certificates={produced},state={state}{}", if w.panics.get() > 0 { ",node-panicked" } else { "" }),
            disabled: false,
        }
    });
    drop(rt);
    let _ = std::fs::remove_dir_all(&dir);
    res
}

/// Replay `history`; while the operation of event `at_event` is parked at the `occurrence`-th
/// reaching of hook point `point`, run the whole operation `other`, then let the parked one finish.
/// Returns None when the point was not reached during that event.
pub fn replay_interleaved(
    scratch: &std::path::Path,
    history: &[Ev],
    point: &str,
    occurrence: u32,
    other: &Ev,
) -> Option<RunResult> {
    match mc_core::catch(|| replay_interleaved_inner(scratch, history, point, occurrence, other)) {
        Ok(r) => r,
        Err(e) => Some(panic_result(e)),
    }
}

fn replay_interleaved_inner(
    scratch: &std::path::Path,
    history: &[Ev],
    point: &str,
    occurrence: u32,
    other: &Ev,
) -> Option<RunResult> {
    use crate::ctl::{Ctl, Mode};
    let dir = fresh_dir(scratch);
    let rt = tokio::runtime::Builder::new_current_thread().enable_all().build().expect("tokio runtime");
    let hist_json = serde_json::to_value(history).unwrap();
    let res = rt.block_on(async {
        let mut w = World::new(dir.clone(), 3, false).await;
        let ctl = w.ctl.clone();
        let mut chk = Checker::new();
        let mut log = vec![];
        let mut violations = vec![];
        ctl.arm(point, occurrence, Mode::Hold);
        let mut interleaved_at = None;
        let mut blocked = false;
        for (i, ev) in history.iter().enumerate() {
            if matches!(ev, Ev::Restart) {
                w.restart().await;
            } else if matches!(ev, Ev::Reconfigure) {
                w.reconfigure().await;
            } else {
                let mut log_a = vec![];
                let mut log_b = vec![];
                {
                    let wr: &World = &w;
                    let parked = ctl.parked.clone();
                    let fut = apply(wr, ev, &mut log_a);
                    tokio::pin!(fut);
                    let already = interleaved_at.is_some();
                    let finished = tokio::select! {
                        biased;
                        _ = &mut fut => true,
                        _ = parked.notified(), if !already => false,
                    };
                    // the armed point may also have been reached by a spawned task (artifact
                    // creation) while this event's own future ran to completion
                    if !already && ctl.was_hit() {
                        interleaved_at = Some(i);
                        // the other operation runs to completion while the first one is suspended
                        match tokio::time::timeout(std::time::Duration::from_secs(20), apply(wr, other, &mut log_b)).await {
                            Ok(()) => {}
                            Err(_) => blocked = true,
                        }
                        ctl.release();
                        if !blocked && !finished {
                            fut.await;
                        }
                        // let a released spawned task run on
                        for _ in 0..50 {
                            tokio::task::yield_now().await;
                        }
                    }
                }
                log.extend(log_a);
                if !log_b.is_empty() {
                    log.push(format!("  while parked at {point}#{occurrence}: {}", log_b.join(",")));
                }
                if blocked {
                    break;
                }
            }
            if w.restart_if_crashed().await {
                log.push("the node panicked: restarted".into());
            }
            let ctx = json!({"history": hist_json, "interleave": {"point": point, "occurrence": occurrence, "other": other}, "failing_step": i, "log": log});
            violations.extend(chk.check(&w, &ctx).await);
        }
        Ctl::uninstall();
        interleaved_at?;
        let canon = canon(&w).await;
        let produced = chk.produced;
        Some(RunResult {
            canon,
            violations,
            nontrivial: produced > 0 && !blocked,
            outcome: if blocked { "other-operation-blocked-while-parked".to_string() } else { format!("certificates={produced},state={}", w.state()) },
            disabled: false,
        })
    });
    drop(rt);
    let _ = std::fs::remove_dir_all(&dir);
    res
}

/// (event index, point, occurrence) reached along a history, from a recording run
pub fn record_points(scratch: &std::path::Path, history: &[Ev]) -> Vec<(usize, String, u32)> {
    match mc_core::catch(|| record_points_inner(scratch, history)) {
        Ok(r) => r,
        Err(_) => {
            // the node under test panicked on the recording run: no hook-point occurrences are
            // known for this schedule (the histories explored by replay report the panic)
            crate::ctl::Ctl::uninstall();
            vec![]
        }
    }
}

fn record_points_inner(scratch: &std::path::Path, history: &[Ev]) -> Vec<(usize, String, u32)> {
    use crate::ctl::Ctl;
    let dir = fresh_dir(scratch);
    let rt = tokio::runtime::Builder::new_current_thread().enable_all().build().expect("tokio runtime");
    let res = rt.block_on(async {
        let mut w = World::new(dir.clone(), 3, false).await;
        let ctl = w.ctl.clone();
        let mut log = vec![];
        let mut out = vec![];
        for (i, ev) in history.iter().enumerate() {
            let before = ctl.trace_len();
            apply_mut(&mut w, ev, &mut log).await;
            for (p, o) in ctl.trace().into_iter().skip(before) {
                out.push((i, p.to_string(), o));
            }
        }
        Ctl::uninstall();
        out
    });
    drop(rt);
    let _ = std::fs::remove_dir_all(&dir);
    res
}

/// the nominal schedule: three epochs of registration, signing and certification
pub fn nominal() -> Vec<Ev> {
    use Ev::*;
    let mut s = vec![Tick, RegisterAll, Epoch(1), Tick, Tick, Tick, RegisterAll];
    for _ in 0..2 {
        s.extend([SigAll(Ty::Msd), Tick, Quiesce, Tick, SigAll(Ty::Cdb), Tick, Quiesce, Immutable, Tick, Tick, SigAll(Ty::Cdb), Tick, Quiesce]);
        s.extend([Epoch(1), Tick, Tick, Tick, RegisterAll]);
    }
    s.extend([SigAll(Ty::Msd), Tick, Quiesce]);
    s
}

pub fn _unused(_: Epoch, _: CertificateSignature) {}
