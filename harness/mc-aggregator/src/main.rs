//! mc-aggregator: serves C14, C15, C16 (see /verif/DESIGN.md §4) on the real aggregator.
mod c07agg;
mod c14;
mod c15;
mod c16;
mod ctl;
mod sys;
mod world;

fn main() {
    let ctx = mc_core::Ctx::from_args();
    mc_core::quiet_panics();
    match ctx.property.as_str() {
        "C07" => c07agg::run(&ctx),
        "C14" => c14::run(&ctx),
        "C15" => c15::run(&ctx),
        "C16" => c16::run(&ctx),
        other => {
            eprintln!("mc-aggregator does not serve {other} yet");
            std::process::exit(2);
        }
    }
}
