//! mc-aggregator: serves C14, C15, C16 (see /verif/DESIGN.md §4)
fn main() {
    let ctx = mc_core::Ctx::from_args();
    eprintln!("{}: not implemented", ctx.property);
    std::process::exit(2)
}
