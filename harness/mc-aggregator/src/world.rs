//! The closed system: a real aggregator (dependency container, state machine, HTTP routes) on a
//! file-backed SQLite database in a per-replay tmpfs directory, with the Cardano node replaced by
//! the repository's own test doubles, plus the harness-side bookkeeping the oracles need (which
//! signers registered in which epoch, in which order certificates appeared).

use mithril_cardano_node_chain::chain_observer::ChainObserver;
use std::cell::{Cell, RefCell};
use std::collections::{BTreeMap, BTreeSet};
use std::path::{Path, PathBuf};
use std::sync::Arc;

use mithril_aggregator::{
    AggregatorRuntime, DumbUploader, ServeCommandConfiguration, ServeCommandDependenciesContainer,
    database::repository::OpenMessageRepository, dependency_injection::DependenciesBuilder, services::FakeSnapshotter,
};
use mithril_ticker::TickerService;
use mithril_cardano_node_chain::test::double::{DumbBlockScanner, FakeChainObserver};
use mithril_cardano_node_internal_database::test::double::{DumbImmutableDigester, DumbImmutableFileObserver};
use mithril_common::{
    StdResult,
    entities::{
        BlockNumber, CardanoDbBeacon, Certificate, ChainPoint, Epoch, ProtocolMessage, ProtocolParameters,
        SignedEntityType, SignedEntityTypeDiscriminants, SignerWithStake, SingleSignature, SlotNumber,
        SupportedEra, TimePoint,
    },
    messages::RegisterSignatureMessageHttp,
    protocol::{SignerBuilder, ToMessage},
    test::builder::{MithrilFixture, MithrilFixtureBuilder},
    test::double::Dummy,
};
use mithril_era::{EraMarker, EraReader, adapters::EraReaderDummyAdapter};

pub const NETWORK_MAGIC_NAME: &str = "devnet";

pub fn protocol_parameters() -> ProtocolParameters {
    // three equal-stake signers: one signature is (almost) never a quorum, two usually are
    ProtocolParameters { k: 30, m: 40, phi_f: 0.95 }
}

pub fn fixture(n: usize) -> MithrilFixture {
    MithrilFixtureBuilder::default()
        .with_signers(n)
        .with_protocol_parameters(protocol_parameters())
        .build()
}

/// Three parties that are NOT certified by an operational certificate (the mode test networks
/// use) and whose party ids are textually nested: "1" is a prefix / substring of "10" and "11".
/// Same stakes as the certified fixture. Any comparison of party ids that is not an exact match
/// (substring, prefix, numeric parse, truncated column) confuses them.
pub fn fixture_nested_ids() -> MithrilFixture {
    use mithril_common::test::builder::StakeDistributionGenerationMethod;
    let stakes: Vec<u64> = fixture(3).signers_with_stake().iter().map(|s| s.stake).collect();
    let ids = ["1", "10", "11"];
    let dist: BTreeMap<String, u64> = ids.iter().zip(stakes).map(|(i, s)| (i.to_string(), s)).collect();
    MithrilFixtureBuilder::default()
        .with_protocol_parameters(protocol_parameters())
        .disable_signers_certification()
        .with_stake_distribution(StakeDistributionGenerationMethod::Custom(dist))
        .build()
}

thread_local! {
    /// set for the duration of a replay that wants the nested-id parties (see `World::new_nested_ids`)
    static NESTED_IDS: Cell<bool> = const { Cell::new(false) };
}

/// Test doubles that survive a restart (they stand for the Cardano node and the outside world).
#[derive(Clone)]
pub struct Outside {
    pub chain_observer: Arc<FakeChainObserver>,
    pub immutable_file_observer: Arc<DumbImmutableFileObserver>,
    pub digester: Arc<DumbImmutableDigester>,
    pub uploader: Arc<DumbUploader>,
    pub era_reader_adapter: Arc<EraReaderDummyAdapter>,
    pub block_scanner: Arc<DumbBlockScanner>,
}

pub struct World {
    pub dir: PathBuf,
    pub config: ServeCommandConfiguration,
    pub outside: Outside,
    pub deps: Arc<ServeCommandDependenciesContainer>,
    /// taken out while a cycle is running (so that another operation can run while it is parked)
    pub runtime: RefCell<Option<AggregatorRuntime>>,
    pub last_state: Cell<&'static str>,
    pub routes: warp::filters::BoxedFilter<(Box<dyn warp::Reply>,)>,
    pub open_messages: Arc<OpenMessageRepository>,
    pub ticker: Arc<dyn TickerService>,
    pub metrics: Arc<mithril_aggregator::MetricsService>,
    pub fixture: MithrilFixture,
    /// harness-side record: epoch in which a signer's registration was accepted → signer indices
    pub registered_in_epoch: RefCell<BTreeMap<u64, BTreeSet<usize>>>,
    /// certificate hashes in order of first appearance in the store
    pub cert_order: RefCell<Vec<String>>,
    pub restarts: u32,
    /// the node under test panicked during an operation: the process is dead, whoever holds the
    /// world mutably restarts it (what a supervisor does) before the next event
    /// C16: per (open message, party) the lottery indexes its recorded, valid signature contributed
    /// when last looked at (a recorded contribution must not shrink)
    pub recorded_indexes: RefCell<BTreeMap<(String, String), BTreeSet<u64>>>,
    pub needs_restart: Cell<bool>,
    pub panics: Cell<u32>,
    /// configuration variant the running node was started with (see `protocol_parameters_variant`)
    pub cfg_variant: u8,
    /// reference model of the write-once epoch settings: settings epoch → protocol parameters.
    /// Written (only when absent) for c-1, c, c+1 when a node starts at chain epoch c, and for
    /// c+1 when an idle node runs its epoch initialisation at chain epoch c. A certificate of
    /// epoch e carries the parameters recorded for e-1.
    pub ref_settings: RefCell<BTreeMap<u64, ProtocolParameters>>,
    /// (signer, entity) pairs for which the aggregator has acknowledged a signature (201 / 202):
    /// an honest signer signs each beacon once and does not send it again once acknowledged
    pub acknowledged: RefCell<BTreeSet<(usize, String)>>,
    /// controller of the verif_hooks points (installed on this thread for the life of the world)
    pub ctl: crate::ctl::Ctl,
}

/// polls a future under `catch_unwind`: a panic of the node under test ends that operation only
pub struct CatchUnwind<F>(pub std::pin::Pin<Box<F>>);

impl<F: std::future::Future> std::future::Future for CatchUnwind<F> {
    type Output = Result<F::Output, String>;
    fn poll(mut self: std::pin::Pin<&mut Self>, cx: &mut std::task::Context<'_>) -> std::task::Poll<Self::Output> {
        let inner = &mut self.0;
        match mc_core::catch(|| inner.as_mut().poll(cx)) {
            Ok(std::task::Poll::Ready(v)) => std::task::Poll::Ready(Ok(v)),
            Ok(std::task::Poll::Pending) => std::task::Poll::Pending,
            Err(e) => std::task::Poll::Ready(Err(e)),
        }
    }
}

pub fn logger() -> slog::Logger {
    slog::Logger::root(slog::Discard, slog::o!())
}

/// which signed entity types the aggregator is configured for (the Mithril stake distribution is
/// always signed)
#[derive(Clone, Copy, Debug, PartialEq, Eq, serde::Serialize, serde::Deserialize)]
pub enum Kind {
    /// + Cardano database (several rounds per epoch)
    MsdCdb,
    /// the default configuration: one certificate per epoch, an epoch without it is a gap
    MsdOnly,
    /// + Cardano stake distribution: the only entity whose beacon epoch (e) differs from the epoch
    /// in which it is signed (e+1)
    MsdCsd,
}

/// The protocol parameters of configuration variant `v`. The variants differ only in `k`: single
/// signatures do not depend on `k`, so honest signatures stay valid whichever variant is in force,
/// and a certificate sealed with the parameters of the wrong epoch is a sealed certificate (a
/// visible safety violation), not mere lack of progress.
pub fn protocol_parameters_variant(v: u8) -> ProtocolParameters {
    let mut p = protocol_parameters();
    p.k -= (v % 2) as u64;
    p
}

pub fn configuration(dir: &Path, kind: Kind) -> ServeCommandConfiguration {
    let types = match kind {
        Kind::MsdCdb => Some(SignedEntityTypeDiscriminants::CardanoDatabase.to_string()),
        Kind::MsdOnly => None,
        Kind::MsdCsd => Some(SignedEntityTypeDiscriminants::CardanoStakeDistribution.to_string()),
    };
    ServeCommandConfiguration {
        protocol_parameters: Some(protocol_parameters()),
        signed_entity_types: types,
        data_stores_directory: dir.join("stores"),
        ..ServeCommandConfiguration::new_sample(dir.join("sample"))
    }
}

fn start_time_point() -> TimePoint {
    TimePoint {
        epoch: Epoch(1),
        immutable_file_number: 1,
        chain_point: ChainPoint {
            slot_number: SlotNumber(10),
            block_number: BlockNumber(100),
            block_hash: "block_hash-100".to_string(),
        },
    }
}

pub struct Node {
    pub deps: Arc<ServeCommandDependenciesContainer>,
    pub runtime: AggregatorRuntime,
    pub routes: warp::filters::BoxedFilter<(Box<dyn warp::Reply>,)>,
    pub open_messages: Arc<OpenMessageRepository>,
    pub ticker: Arc<dyn TickerService>,
    pub metrics: Arc<mithril_aggregator::MetricsService>,
}

async fn build_node(config: &ServeCommandConfiguration, outside: &Outside) -> Node {
    use warp::Filter;
    let snapshotter = Arc::new(FakeSnapshotter::new(
        mithril_aggregator::ConfigurationSource::get_snapshot_dir(config).unwrap().join("fake_snapshots"),
    ));
    let mut b = DependenciesBuilder::new(logger(), Arc::new(config.clone()));
    b.snapshot_uploader = Some(outside.uploader.clone());
    b.chain_observer = Some(outside.chain_observer.clone());
    b.immutable_file_observer = Some(outside.immutable_file_observer.clone());
    b.immutable_digester = Some(outside.digester.clone());
    b.snapshotter = Some(snapshotter);
    b.era_reader = Some(Arc::new(EraReader::new(outside.era_reader_adapter.clone())));
    b.block_scanner = Some(outside.block_scanner.clone());
    let deps = Arc::new(b.build_serve_dependencies_container().await.expect("dependencies"));
    let runtime = b.create_aggregator_runner().await.expect("runtime");
    let routes = b
        .create_http_routes()
        .await
        .expect("routes")
        .map(|r| Box::new(r) as Box<dyn warp::Reply>)
        .boxed();
    let open_messages = b.get_open_message_repository().await.expect("open message repository");
    let ticker = b.get_ticker_service().await.expect("ticker");
    let metrics = b.get_metrics_service().await.expect("metrics");
    Node { deps, runtime, routes, open_messages, ticker, metrics }
}

impl World {
    /// A fresh aggregator at epoch 1 with the genesis certificate stored (state of the integration
    /// tests right after `register_genesis_certificate`).
    pub async fn new(dir: PathBuf, nsigners: usize, msd_only: bool) -> World {
        World::new_kind(dir, nsigners, if msd_only { Kind::MsdOnly } else { Kind::MsdCdb }).await
    }

    /// as `new`, with three uncertified parties whose ids are textually nested ("1", "10", "11")
    pub async fn new_nested_ids(dir: PathBuf) -> World {
        NESTED_IDS.with(|c| c.set(true));
        let w = World::new_kind(dir, 3, Kind::MsdCdb).await;
        NESTED_IDS.with(|c| c.set(false));
        w
    }

    pub async fn new_kind(dir: PathBuf, nsigners: usize, kind: Kind) -> World {
        let _ = std::fs::remove_dir_all(&dir);
        std::fs::create_dir_all(&dir).unwrap();
        let ctl = crate::ctl::Ctl::install();
        let config = configuration(&dir, kind);
        let start = start_time_point();
        let immutable_file_observer = Arc::new(DumbImmutableFileObserver::new());
        immutable_file_observer.shall_return(Some(start.immutable_file_number)).await;
        let outside = Outside {
            chain_observer: Arc::new(FakeChainObserver::new(Some(start))),
            immutable_file_observer,
            digester: Arc::new(DumbImmutableDigester::default()),
            uploader: Arc::new(DumbUploader::default()),
            era_reader_adapter: Arc::new(EraReaderDummyAdapter::from_markers(vec![EraMarker::new(
                &SupportedEra::dummy().to_string(),
                Some(Epoch(0)),
            )])),
            block_scanner: Arc::new(DumbBlockScanner::new()),
        };
        let Node { deps, runtime, routes, open_messages, ticker, metrics } = build_node(&config, &outside).await;
        let fixture = if NESTED_IDS.with(|c| c.get()) { fixture_nested_ids() } else { fixture(nsigners) };
        outside.chain_observer.set_signers(fixture.signers_with_stake()).await;
        let epoch = Epoch(1);
        deps.init_state_from_fixture_for_genesis(&fixture, epoch).await;
        let genesis = fixture.create_genesis_certificate(&config.network, epoch);
        deps.certificate_repository.create_certificate(genesis).await.expect("genesis stored");
        let w = World {
            dir,
            config,
            outside,
            deps,
            last_state: Cell::new(runtime.state_label()),
            runtime: RefCell::new(Some(runtime)),
            routes,
            open_messages,
            ticker,
            metrics,
            fixture,
            registered_in_epoch: RefCell::new(BTreeMap::new()),
            cert_order: RefCell::new(vec![]),
            restarts: 0,
            recorded_indexes: RefCell::new(BTreeMap::new()),
            needs_restart: Cell::new(false),
            panics: Cell::new(0),
            cfg_variant: 0,
            ref_settings: RefCell::new(BTreeMap::from([(0, protocol_parameters()), (1, protocol_parameters()), (2, protocol_parameters())])),
            acknowledged: RefCell::new(BTreeSet::new()),
            ctl,
        };
        // init_state_from_fixture_for_genesis stores every signer under epochs 0 and 1, i.e. as if
        // they had registered during epochs -1 and 0: they sign in epochs 1 and 2.
        let all: BTreeSet<usize> = (0..nsigners).collect();
        w.registered_in_epoch.borrow_mut().insert(u64::MAX, all.clone()); // "epoch -1"
        w.registered_in_epoch.borrow_mut().insert(0, all.clone());
        w.outside.chain_observer.set_signers(w.signers_with_stake_in(&all, 1)).await;
        w.update_digester().await;
        w
    }

    /// Drop the node (runtime, dependency container, routes) and build a new one on the same
    /// database directory: what a process restart does.
    pub async fn restart(&mut self) {
        let Node { deps, runtime, routes, open_messages, ticker, metrics } = build_node(&self.config, &self.outside).await;
        // start-up fills the epoch settings of the three working epochs that are still absent
        let c = self.outside.chain_observer.get_current_epoch().await.ok().flatten().map(|e| *e).unwrap_or(0);
        for e in [c.saturating_sub(1), c, c + 1] {
            self.ref_settings.borrow_mut().entry(e).or_insert_with(|| protocol_parameters_variant(self.cfg_variant));
        }
        self.deps = deps;
        self.last_state.set(runtime.state_label());
        *self.runtime.borrow_mut() = Some(runtime);
        self.routes = routes;
        self.open_messages = open_messages;
        self.ticker = ticker;
        self.metrics = metrics;
        self.ctl.node_restarted();
        self.restarts += 1;
    }

    /// The operator restarts the node with the other configuration variant (protocol parameters).
    pub async fn reconfigure(&mut self) {
        self.cfg_variant = (self.cfg_variant + 1) % 2;
        self.config.protocol_parameters = Some(protocol_parameters_variant(self.cfg_variant));
        self.restart().await;
    }

    /// protocol parameters in force for certificates of `epoch` according to the reference model
    /// (None: the model has no record, nothing is claimed)
    pub fn reference_parameters(&self, epoch: u64) -> Option<ProtocolParameters> {
        if epoch == 0 {
            return None;
        }
        self.ref_settings.borrow().get(&(epoch - 1)).cloned()
    }

    pub async fn time_point(&self) -> TimePoint {
        self.ticker.get_current_time_point().await.expect("time point")
    }

    pub async fn update_digester(&self) {
        let tp = self.time_point().await;
        self.outside
            .digester
            .update_digest(format!("n{}-e{}-i{}", self.config.network, tp.epoch, tp.immutable_file_number))
            .await;
        self.outside.digester.update_merkle_tree(vec![tp.immutable_file_number.to_string()]).await;
    }

    /// let spawned background work (artifact tasks) run to completion: the artifact gate is opened
    /// and the harness waits until no signed entity type is locked any more (artifact production
    /// uses the blocking thread pool, so a fixed number of yields would race with it)
    pub async fn quiesce(&self) {
        self.ctl.open_artifact_gate();
        let t0 = std::time::Instant::now();
        loop {
            for _ in 0..20 {
                tokio::task::yield_now().await;
            }
            if !self.deps.signed_entity_type_lock.has_locked_entities().await {
                break;
            }
            if t0.elapsed() > std::time::Duration::from_secs(30) {
                break;
            }
            tokio::time::sleep(std::time::Duration::from_millis(1)).await;
        }
        for _ in 0..20 {
            tokio::task::yield_now().await;
        }
        self.ctl.close_artifact_gate();
    }

    pub async fn tick(&self) -> Result<(), String> {
        let Some(mut rt) = self.runtime.borrow_mut().take() else {
            return Err("busy: a cycle is already running".to_string());
        };
        if self.last_state.get() == "idle" {
            // an idle node runs the epoch initialisation tasks of the chain's epoch (once per node
            // and epoch; the record is write-once, so repeating it here changes nothing)
            let c = self.outside.chain_observer.get_current_epoch().await.ok().flatten().map(|e| *e).unwrap_or(0);
            self.ref_settings.borrow_mut().entry(c + 1).or_insert_with(|| protocol_parameters_variant(self.cfg_variant));
        }
        let out = CatchUnwind(Box::pin(rt.cycle())).await;
        let r = match out {
            Ok(r) => r.map_err(|e| format!("{e:?}")),
            Err(p) => {
                // the node panicked: the process is gone
                self.node_panicked();
                drop(rt);
                self.last_state.set("crashed");
                return Err(format!("PANIC {} at {}", p.chars().take(80).collect::<String>(), mc_core::last_panic_location()));
            }
        };
        self.last_state.set(rt.state_label());
        *self.runtime.borrow_mut() = Some(rt);
        tokio::task::yield_now().await;
        r
    }

    pub fn node_panicked(&self) {
        self.panics.set(self.panics.get() + 1);
        self.needs_restart.set(true);
    }

    /// restart the node if one of its operations panicked (to be called between events)
    pub async fn restart_if_crashed(&mut self) -> bool {
        if self.needs_restart.get() {
            self.needs_restart.set(false);
            self.restart().await;
            true
        } else {
            false
        }
    }

    pub fn state(&self) -> &'static str {
        self.last_state.get()
    }

    pub async fn next_epoch(&self) {
        self.outside.chain_observer.next_epoch().await;
        // the chain's stake distribution changes with every epoch (see `stake_in`)
        let e = *self.time_point().await.epoch;
        let all: BTreeSet<usize> = (0..self.fixture.signers_with_stake().len()).collect();
        self.outside.chain_observer.set_signers(self.signers_with_stake_in(&all, e)).await;
        self.update_digester().await;
    }

    /// Stake of fixture signer `i` in the chain's stake distribution during `chain_epoch`
    /// (`u64::MAX` stands for "epoch -1"). The fixture's stake before epoch 1 (what
    /// `init_state_from_fixture_for_genesis` stores), then a different value in every epoch so
    /// that a stake distribution or aggregate key taken from the wrong epoch is visible. Every
    /// stake is multiplied by the epoch number: the stake *shares*, hence every lottery, stay
    /// exactly the same, so honest signatures remain valid under any epoch's distribution and a
    /// mix-up of epochs shows as a sealed certificate with the wrong aggregate key (total stake
    /// and Merkle leaves differ) rather than as mere lack of progress.
    pub fn stake_in(&self, i: usize, chain_epoch: u64) -> u64 {
        let base = self.fixture.signers_with_stake()[i].stake;
        if chain_epoch == u64::MAX || chain_epoch == 0 {
            return base;
        }
        base * (chain_epoch + 1)
    }

    /// the signers `idx` with the stake the chain showed during `chain_epoch`
    pub fn signers_with_stake_in(&self, idx: &BTreeSet<usize>, chain_epoch: u64) -> Vec<SignerWithStake> {
        let all = self.fixture.signers_with_stake();
        idx.iter()
            .map(|i| {
                let mut s = all[*i].clone();
                s.stake = self.stake_in(*i, chain_epoch);
                s
            })
            .collect()
    }

    /// the chain epoch whose registrations and stake distribution are in force in `signing_epoch`
    pub fn registration_epoch_of(signing_epoch: u64) -> Option<u64> {
        if signing_epoch >= 2 {
            Some(signing_epoch - 2)
        } else if signing_epoch == 1 {
            Some(u64::MAX)
        } else {
            None
        }
    }

    pub async fn next_immutable(&self) {
        self.outside.immutable_file_observer.increase().await.unwrap();
        self.update_digester().await;
    }

    /// epoch → indices of the fixture signers that sign in that epoch (reference offset rule:
    /// keys registered during epoch e are recorded for e+1 and sign in e+2)
    pub fn reference_signers(&self, epoch: u64) -> BTreeSet<usize> {
        let Some(reg_epoch) = World::registration_epoch_of(epoch) else { return BTreeSet::new() };
        self.registered_in_epoch.borrow().get(&reg_epoch).cloned().unwrap_or_default()
    }

    /// the signers `idx` with the stake in force when they sign in `signing_epoch`: the stake the
    /// chain showed during the epoch they registered in (two epochs earlier)
    pub fn signers_with_stake_of(&self, idx: &BTreeSet<usize>, signing_epoch: u64) -> Vec<SignerWithStake> {
        self.signers_with_stake_in(idx, World::registration_epoch_of(signing_epoch).unwrap_or(u64::MAX))
    }

    pub fn reference_signer_builder(&self, epoch: u64) -> Option<SignerBuilder> {
        let s = self.reference_signers(epoch);
        if s.is_empty() {
            return None;
        }
        SignerBuilder::new(&self.signers_with_stake_of(&s, epoch), &protocol_parameters()).ok()
    }

    /// the fixture initializer of signer `i` (same keys) carrying the stake in force in `signing_epoch`
    pub fn initializer_for(&self, i: usize, signing_epoch: u64) -> mithril_common::crypto_helper::ProtocolInitializer {
        let sf = &self.fixture.signers_fixture()[i];
        let stake = self.stake_in(i, World::registration_epoch_of(signing_epoch).unwrap_or(u64::MAX));
        let mut v = serde_json::to_value(&sf.protocol_initializer).expect("initializer to json");
        v["stm_initializer"]["stake"] = serde_json::json!(stake);
        serde_json::from_value(v).expect("initializer from json")
    }

    /// signer `i` registers through the aggregator's registerer, as the HTTP route does
    pub async fn register(&self, i: usize) -> Result<(), String> {
        let tp = self.time_point().await;
        let signer = self.fixture.signers_with_stake()[i].clone();
        let signer: mithril_common::entities::Signer = signer.into();
        let res = match CatchUnwind(Box::pin(self.deps.signer_registerer.register_signer(tp.epoch.offset_to_recording_epoch(), &signer))).await {
            Ok(r) => r,
            Err(p) => {
                self.node_panicked();
                return Err(format!("PANIC {p}"));
            }
        };
        match res {
            Ok(_) => {
                self.registered_in_epoch.borrow_mut().entry(*tp.epoch).or_default().insert(i);
                Ok(())
            }
            Err(e) => Err(format!("{e:?}")),
        }
    }

    /// What the aggregator announces to signer nodes (GET /epoch-settings): its epoch, the signers
    /// of that epoch and those of the next one. None while the route cannot answer.
    pub async fn served_signer_sets(&self) -> Option<(u64, Vec<mithril_common::entities::Signer>, Vec<mithril_common::entities::Signer>)> {
        use mithril_common::messages::{EpochSettingsMessage, SignerMessagePart};
        let resp = warp::test::request().method("GET").path("/aggregator/epoch-settings").reply(&self.routes).await;
        if !resp.status().is_success() {
            return None;
        }
        let m: EpochSettingsMessage = serde_json::from_slice(resp.body()).ok()?;
        let cur = SignerMessagePart::try_into_signers(m.current_signers).ok()?;
        let next = SignerMessagePart::try_into_signers(m.next_signers).ok()?;
        Some((*m.epoch, cur, next))
    }

    fn index_of_party(&self, party_id: &str) -> Option<usize> {
        self.fixture.signers_fixture().iter().position(|s| s.signer_with_stake.party_id == party_id)
    }

    /// The signature the honest signer node `i` produces for `message` in `epoch`. As a real signer
    /// node does, it takes the list of signers of the epoch from what the aggregator ANNOUNCES
    /// (epoch settings: the current list when the aggregator is in `epoch`, the next list when it
    /// is one epoch behind), joins it with the stakes its own chain view recorded for that epoch,
    /// and signs with its own key if it is announced. Only when the aggregator announces nothing
    /// for `epoch` does it fall back to the reference rule (the registrations the harness saw
    /// accepted two epochs earlier). On a correct aggregator both coincide; on an aggregator that
    /// announces a wrong set the honest signers follow it, the certificate is sealed, and the
    /// invariants - which always use the reference rule - show it. None when the signer is not
    /// eligible or wins no lottery.
    pub async fn sign(&self, i: usize, epoch: u64, message: &ProtocolMessage) -> Option<SingleSignature> {
        let sf = &self.fixture.signers_fixture()[i];
        let me = sf.signer_with_stake.party_id.clone();
        let announced = match self.served_signer_sets().await {
            Some((e, cur, _)) if e == epoch => Some(cur),
            Some((e, _, next)) if e + 1 == epoch => Some(next),
            _ => None,
        };
        let builder = match announced {
            Some(list) => {
                if !list.iter().any(|s| s.party_id == me) {
                    return None;
                }
                let reg_epoch = World::registration_epoch_of(epoch)?;
                let mut sws = vec![];
                for s in list {
                    // a party the signer's own stake distribution does not know: it cannot build the set
                    let idx = self.index_of_party(&s.party_id)?;
                    sws.push(SignerWithStake::from_signer(s, self.stake_in(idx, reg_epoch)));
                }
                SignerBuilder::new(&sws, &protocol_parameters()).ok()?
            }
            None => {
                if !self.reference_signers(epoch).contains(&i) {
                    return None;
                }
                self.reference_signer_builder(epoch)?
            }
        };
        let signer = builder.restore_signer_from_initializer(me, self.initializer_for(i, epoch)).ok()?;
        signer.sign(message).ok().flatten()
    }

    /// signer `i` sends a registration that names the round of the PREVIOUS epoch (already closed):
    /// it must be refused; the harness records nothing (by the reference rule it registers nobody)
    pub async fn register_late(&self, i: usize) -> Result<(), String> {
        let tp = self.time_point().await;
        let signer = self.fixture.signers_with_stake()[i].clone();
        self.deps.signer_registerer.register_signer(tp.epoch, &signer.into()).await.map(|_| ()).map_err(|e| format!("{e:?}"))
    }

    pub async fn current_entity(&self, d: SignedEntityTypeDiscriminants) -> SignedEntityType {
        let tp = self.time_point().await;
        match d {
            SignedEntityTypeDiscriminants::MithrilStakeDistribution => SignedEntityType::MithrilStakeDistribution(tp.epoch),
            SignedEntityTypeDiscriminants::CardanoDatabase => {
                SignedEntityType::CardanoDatabase(CardanoDbBeacon::new(*tp.epoch, tp.immutable_file_number))
            }
            SignedEntityTypeDiscriminants::CardanoStakeDistribution => {
                SignedEntityType::CardanoStakeDistribution(Epoch((*tp.epoch).saturating_sub(1)))
            }
            other => panic!("entity {other} not driven by this harness"),
        }
    }

    /// The protocol message an honest signer computes for `entity` (same builders as a signer node
    /// uses; the aggregator's own open message is not consulted).
    pub async fn protocol_message(&self, entity: &SignedEntityType) -> StdResult<ProtocolMessage> {
        self.deps.signable_builder_service.compute_protocol_message(entity.clone()).await
    }

    /// POST /register-signatures through the real warp routes
    pub async fn post_signature(&self, entity: &SignedEntityType, sig: &SingleSignature, signed_message: &str) -> u16 {
        let msg = RegisterSignatureMessageHttp {
            signed_entity_type: mithril_common::messages::SignedEntityTypeMessage::Known(entity.clone()),
            party_id: sig.party_id.clone(),
            signature: sig.signature.clone().try_into().expect("signature encodes"),
            won_indexes: sig.won_indexes.clone(),
            signed_message: signed_message.to_string(),
        };
        let fut = warp::test::request().method("POST").path("/aggregator/register-signatures").json(&msg).reply(&self.routes);
        match CatchUnwind(Box::pin(fut)).await {
            Ok(resp) => resp.status().as_u16(),
            Err(_) => {
                self.node_panicked();
                599
            }
        }
    }

    /// the epoch the aggregator serves in its epoch settings (what a signer node reads before it
    /// signs): None while the route cannot answer
    pub async fn served_epoch(&self) -> Option<u64> {
        let resp = warp::test::request().method("GET").path("/aggregator/epoch-settings").reply(&self.routes).await;
        if !resp.status().is_success() {
            return None;
        }
        let v: serde_json::Value = serde_json::from_slice(resp.body()).ok()?;
        v.get("epoch").and_then(|e| e.as_u64())
    }

    pub async fn all_certificates(&self) -> Vec<Certificate> {
        self.deps.certificate_repository.get_latest_certificates::<Certificate>(100_000).await.expect("certificates")
    }

    /// record certificates that appeared since the last call (order of appearance)
    pub async fn observe_new_certificates(&self) -> Vec<Certificate> {
        let mut all = self.all_certificates().await;
        all.reverse(); // oldest first
        let mut new = vec![];
        for c in all {
            if !self.cert_order.borrow().contains(&c.hash) {
                self.cert_order.borrow_mut().push(c.hash.clone());
                new.push(c);
            }
        }
        new
    }

    /// raw read-only query on the aggregator's main database file (independent of the repositories)
    pub fn raw_rows(&self, sql: &str) -> Vec<Vec<String>> {
        let path = self.config.data_stores_directory.join("aggregator.sqlite3");
        let Ok(conn) = sqlite::Connection::open_with_flags(&path, sqlite::OpenFlags::new().with_read_only()) else {
            return vec![];
        };
        let mut out = vec![];
        let Ok(mut st) = conn.prepare(sql) else {
            return vec![];
        };
        while let Ok(sqlite::State::Row) = st.next() {
            let mut row = vec![];
            for i in 0..st.column_count() {
                row.push(st.read::<Option<String>, _>(i).ok().flatten().unwrap_or_default());
            }
            out.push(row);
        }
        out
    }

    pub fn message_text(m: &ProtocolMessage) -> String {
        m.to_message()
    }
}
