//! C16 — a stored signature is attributed to the party whose registered key produced it.
//!
//! From two prepared states of the real aggregator (an open message exists / does not exist yet, so
//! that submissions are buffered), ALL sequences of ≤ L submissions over the alphabet
//! {label j} × {signature made by i} × {index-list variant} × {HTTP route, message-queue consumer}
//! are replayed, followed by the cycles that seal a certificate. The database is inspected after
//! every step.

use std::collections::{BTreeMap, BTreeSet};
use std::sync::Arc;

use mc_core::explore::RunResult;
use mc_core::{Ctx, Report, Violation, par_map, sequences};
use mithril_aggregator::services::{FakeSignatureConsumer, SequentialSignatureProcessor, SignatureProcessor};
use mithril_common::entities::{SignedEntityType, SingleSignature};
use mithril_common::protocol::ToMessage;
use serde::{Deserialize, Serialize};
use serde_json::json;

use crate::sys::{Ev, Ty, apply_mut, fresh_dir, honest_message};
use crate::world::{World, protocol_parameters};

#[derive(Clone, Copy, Debug, Serialize, Deserialize, PartialEq, Eq, Hash)]
pub enum Idx {
    AsSigned,
    /// the signature keeps only the first half of its won indexes (still a valid signature)
    InnerSubset,
    /// the signature keeps only the second half of its won indexes (the complement of `InnerSubset`)
    InnerComplement,
    /// the announced index list claims other indexes than the signature carries
    AnnouncedAltered,
    /// an index that was not won is added inside the signature (invalid)
    InnerExtraUnwon,
    /// the signature is made with the party's key as registered for the NEXT epoch (another
    /// registration set, hence another aggregate key): not a signature of the current round
    NextEpochRegistration,
    /// a genuine signature of the party on ANOTHER message of the same epoch (e.g. the one it
    /// published for another signed entity type), re-posted by anybody under the party's name with
    /// that other message as `signed_message` and the current entity type as label
    OtherMessage,
}

#[derive(Clone, Copy, Debug, Serialize, Deserialize, PartialEq, Eq, Hash)]
pub enum Route {
    Http,
    /// the message-queue (DMQ) consumer path: SequentialSignatureProcessor::process_signatures
    Queue,
    /// the message-queue path as the aggregator wires it: the processor reads from
    /// SignatureConsumerDmq over the real DmqConsumerClientDeduplicator (one per replay, so what
    /// it has seen persists between submissions); the submission's label is the party the
    /// message queue authenticated as the publisher
    QueueDedup,
}

/// the network side of the message queue: what the harness publishes is what the next
/// `consume_messages` returns
#[derive(Default)]
struct Inbox(tokio::sync::Mutex<Vec<(mithril_common::messages::RegisterSignatureMessageDmq, String)>>);

#[async_trait::async_trait]
impl mithril_dmq::DmqConsumerClient<mithril_common::messages::RegisterSignatureMessageDmq> for Inbox {
    async fn consume_messages(&self) -> mithril_common::StdResult<Vec<(mithril_common::messages::RegisterSignatureMessageDmq, String)>> {
        Ok(std::mem::take(&mut *self.0.lock().await))
    }
}

#[derive(Clone, Copy, Debug, Serialize, Deserialize, PartialEq, Eq, Hash)]
pub struct Sub {
    /// whose key made the signature
    pub by: usize,
    /// party id it is submitted under
    pub label: usize,
    pub idx: Idx,
    pub route: Route,
}

#[derive(Clone, Copy, Debug, Serialize, Deserialize, PartialEq, Eq, Hash)]
pub enum Start {
    /// SIGNING: the open message of the round exists
    Open,
    /// READY, no open message yet: submissions are buffered and handed over when it is created
    NotYetOpen,
    /// as `Open`, but only parties 0 and 1 registered for the next epoch: the current and the next
    /// signer sets (and aggregate keys) differ
    OpenNextSetDiffers,
    /// as `NotYetOpen`, with differing current and next signer sets
    NotYetOpenNextSetDiffers,
    /// as `Open`, in a world of three uncertified parties whose ids are textually nested
    /// ("1", "10", "11"): an inexact comparison of party ids attributes a signature, or a place in
    /// the certificate's signer list, to a party that did not sign
    OpenNestedIds,
}

impl Start {
    fn is_open(&self) -> bool {
        matches!(self, Start::Open | Start::OpenNextSetDiffers | Start::OpenNestedIds)
    }
}

fn prefix(s: Start) -> Vec<Ev> {
    let mut p = match s {
        Start::Open | Start::NotYetOpen | Start::OpenNestedIds => vec![Ev::Tick, Ev::RegisterAll],
        _ => vec![Ev::Tick, Ev::Register(0), Ev::Register(1)],
    };
    p.extend([Ev::Epoch(1), Ev::Tick, Ev::Tick]);
    if s.is_open() {
        p.push(Ev::Tick);
    }
    p
}

/// another message the parties sign in the same epoch
fn other_message(msg: &mithril_common::entities::ProtocolMessage) -> mithril_common::entities::ProtocolMessage {
    let mut other = msg.clone();
    other.set_message_part(mithril_common::entities::ProtocolMessagePartKey::LatestBlockNumber, "4242".to_string());
    other
}

async fn build_signature(w: &World, epoch: u64, msg: &mithril_common::entities::ProtocolMessage, s: &Sub) -> Option<SingleSignature> {
    let mut sig = if s.idx == Idx::NextEpochRegistration {
        w.sign(s.by, epoch + 1, msg).await?
    } else if s.idx == Idx::OtherMessage {
        w.sign(s.by, epoch, &other_message(msg)).await?
    } else {
        w.sign(s.by, epoch, msg).await?
    };
    let m = protocol_parameters().m;
    match s.idx {
        Idx::AsSigned | Idx::NextEpochRegistration | Idx::OtherMessage => {}
        Idx::InnerSubset => {
            let keep: Vec<u64> = sig.won_indexes[..sig.won_indexes.len().div_ceil(2)].to_vec();
            let mut p = sig.to_protocol_signature();
            p.set_concatenation_signature_indices(&keep);
            sig = SingleSignature::new(sig.party_id.clone(), p.into(), keep);
        }
        Idx::InnerComplement => {
            let keep: Vec<u64> = sig.won_indexes[sig.won_indexes.len().div_ceil(2)..].to_vec();
            if keep.is_empty() {
                return None;
            }
            let mut p = sig.to_protocol_signature();
            p.set_concatenation_signature_indices(&keep);
            sig = SingleSignature::new(sig.party_id.clone(), p.into(), keep);
        }
        Idx::AnnouncedAltered => {
            sig.won_indexes = (0..m).collect();
        }
        Idx::InnerExtraUnwon => {
            let unwon = (0..m).find(|i| !sig.won_indexes.contains(i))?;
            let mut all = sig.won_indexes.clone();
            all.push(unwon);
            all.sort();
            let mut p = sig.to_protocol_signature();
            p.set_concatenation_signature_indices(&all);
            sig = SingleSignature::new(sig.party_id.clone(), p.into(), all);
        }
    }
    sig.party_id = w.fixture.signers_fixture()[s.label].signer_with_stake.party_id.clone();
    Some(sig)
}

/// is `sig` (as stored) a valid signature of `msg` under the key party `p` registered?
fn valid_under_party(w: &World, epoch: u64, p: usize, sig: &SingleSignature, msg: &str) -> bool {
    let Some(b) = w.reference_signer_builder(epoch) else {
        return false;
    };
    if !w.reference_signers(epoch).contains(&p) {
        return false;
    }
    let avk = b.compute_aggregate_verification_key();
    let sws = &w.signers_with_stake_of(&std::collections::BTreeSet::from([p]), epoch)[0];
    let vk = sws.verification_key_for_concatenation.clone().into_inner();
    sig.to_protocol_signature()
        .verify(&protocol_parameters().into(), &vk.vk, &sws.stake, &avk, msg.as_bytes())
        .is_ok()
}

fn party_index(w: &World, party_id: &str) -> Option<usize> {
    w.fixture.signers_fixture().iter().position(|s| s.signer_with_stake.party_id == party_id)
}

struct Accepted {
    sub: Sub,
    answer: String,
}

async fn check_rows(
    w: &World,
    entity: &SignedEntityType,
    epoch: u64,
    msg: &str,
    honest_accepted: &BTreeSet<usize>,
    out: &mut Vec<Violation>,
    ctx: &serde_json::Value,
) -> usize {
    let Ok(Some(om)) = w.open_messages.get_open_message_with_single_signatures(entity).await else {
        return 0;
    };
    let mut by_sigma: BTreeMap<String, Vec<String>> = BTreeMap::new();
    for row in &om.single_signatures {
        let Some(p) = party_index(w, &row.party_id) else {
            out.push(Violation { key: "C16/row-for-unknown-party".into(), what: format!("row for unknown party {}", row.party_id), replay: ctx.clone() });
            continue;
        };
        let sigma = hex::encode(row.to_protocol_signature().get_concatenation_signature_sigma().to_bytes());
        by_sigma.entry(sigma).or_default().push(row.party_id.clone());
        if valid_under_party(w, epoch, p, row, msg) && !om.is_certified {
            // a recorded contribution does not shrink: the signature does not cover its index list,
            // so anybody can submit a copy restricted to some of the indexes under the party's name
            let now: BTreeSet<u64> = row.to_protocol_signature().get_concatenation_signature_indices().into_iter().collect();
            let k = (format!("{entity:?}"), row.party_id.clone());
            let mut rec = w.recorded_indexes.borrow_mut();
            if let Some(before) = rec.get(&k)
                && !before.is_subset(&now)
            {
                out.push(Violation {
                    key: "C16/recorded-contribution-reduced-by-resubmitted-copy".into(),
                    what: format!(
                        "the signature recorded for party #{p} contributed the {} indexes {:?}; after a further submission under its name the recorded signature contributes only {:?}",
                        before.len(),
                        before,
                        now
                    ),
                    replay: ctx.clone(),
                });
            }
            let e = rec.entry(k).or_default();
            if now.is_superset(e) {
                *e = now;
            }
        }
        if !valid_under_party(w, epoch, p, row, msg) {
            // whose key does verify it?
            let real: Vec<usize> = (0..w.fixture.signers_fixture().len()).filter(|q| valid_under_party(w, epoch, *q, row, msg)).collect();
            out.push(Violation {
                key: "C16/signature-stored-under-other-party".into(),
                what: format!(
                    "the row stored for party #{p} ({}) holds a signature that does not verify under the key this party registered (it verifies under the key of party {:?})",
                    row.party_id, real
                ),
                replay: ctx.clone(),
            });
        }
    }
    for (_, names) in by_sigma {
        if names.len() > 1 {
            out.push(Violation {
                key: "C16/one-signature-under-two-names".into(),
                what: format!("the same signature is stored under the names {names:?}"),
                replay: ctx.clone(),
            });
        }
    }
    // an honest party whose own submission was accepted keeps a row with its own signature
    for h in honest_accepted {
        let pid = &w.fixture.signers_fixture()[*h].signer_with_stake.party_id;
        let own = om.single_signatures.iter().any(|r| &r.party_id == pid && valid_under_party(w, epoch, *h, r, msg));
        if !own && !om.is_certified {
            out.push(Violation {
                key: "C16/honest-contribution-disappeared".into(),
                what: format!("party #{h} submitted its own valid signature and it was accepted, but the store no longer holds a signature of its key under its name"),
                replay: ctx.clone(),
            });
        }
    }
    om.single_signatures.len()
}

pub fn replay(scratch: &std::path::Path, start: Start, subs: &[Sub]) -> RunResult {
    match mc_core::catch(|| replay_inner(scratch, start, subs)) {
        Ok(r) => r,
        Err(e) => crate::sys::panic_result(e),
    }
}

fn replay_inner(scratch: &std::path::Path, start: Start, subs: &[Sub]) -> RunResult {
    let dir = fresh_dir(scratch);
    let rt = tokio::runtime::Builder::new_current_thread().enable_all().build().expect("tokio runtime");
    let replay_json = json!({"start": start, "submissions": subs});
    let res = rt.block_on(async {
        let mut w = if start == Start::OpenNestedIds { World::new_nested_ids(dir.clone()).await } else { World::new(dir.clone(), 3, false).await };
        let mut log = vec![];
        for ev in prefix(start) {
            apply_mut(&mut w, &ev, &mut log).await;
        }
        let tp = w.time_point().await;
        let epoch = *tp.epoch;
        let entity = w.current_entity(Ty::Msd.disc()).await;
        let mut violations = vec![];
        let Ok(pm) = honest_message(&w, &entity).await else {
            return RunResult { canon: "no-message".into(), outcome: "machinery:no-message".into(), ..Default::default() };
        };
        let msg = pm.to_message();
        let inbox = Arc::new(Inbox::default());
        let dmq_consumer = Arc::new(mithril_aggregator::services::SignatureConsumerDmq::new(Arc::new(
            mithril_dmq::DmqConsumerClientDeduplicator::new_with_default_ttl(
                inbox.clone(),
                Arc::new(mithril_dmq::test::double::FakeUnixTimestampProvider::new(1_700_000_000)),
            ),
        )));
        let mut dedup_dropped: BTreeMap<usize, usize> = BTreeMap::new();
        // not-yet-open starts: parties whose own valid signature was answered 202 (buffered), and
        // parties under whose name an older genuine signature was replayed (also answered 202)
        let mut honest_buffered: BTreeSet<usize> = BTreeSet::new();
        let mut replayed_under: BTreeSet<usize> = BTreeSet::new();
        let mut mislabelled_queue_under: BTreeSet<usize> = BTreeSet::new();
        let mut accepted: Vec<Accepted> = vec![];
        let mut honest_accepted: BTreeSet<usize> = BTreeSet::new();
        let mut answers = vec![];
        for (n, s) in subs.iter().enumerate() {
            let Some(sig) = build_signature(&w, epoch, &pm, s).await else {
                answers.push("unbuildable".to_string());
                continue;
            };
            let answer = match s.route {
                Route::Http => {
                    let code = if s.idx == Idx::OtherMessage {
                        w.post_signature(&entity, &sig, &other_message(&pm).to_message()).await
                    } else {
                        w.post_signature(&entity, &sig, &msg).await
                    };
                    format!("http-{code}")
                }
                Route::Queue => {
                    let consumer = Arc::new(FakeSignatureConsumer::new(vec![Ok(vec![(sig.clone(), entity.clone())])]));
                    let (_tx, rx) = tokio::sync::watch::channel(());
                    let p = SequentialSignatureProcessor::new(
                        consumer,
                        w.deps.certifier_service.clone(),
                        rx,
                        w.metrics.clone(),
                        std::time::Duration::from_millis(1),
                        crate::world::logger(),
                    );
                    match p.process_signatures().await {
                        Ok(()) => "queue-ok".to_string(),
                        Err(_) => "queue-error".to_string(),
                    }
                }
                Route::QueueDedup => {
                    inbox.0.lock().await.push((
                        mithril_common::messages::RegisterSignatureMessageDmq {
                            signed_entity_type: mithril_common::messages::SignedEntityTypeMessage::Known(entity.clone()),
                            signature: sig.signature.clone(),
                        },
                        sig.party_id.clone(),
                    ));
                    let (_tx, rx) = tokio::sync::watch::channel(());
                    let p = SequentialSignatureProcessor::new(
                        dmq_consumer.clone(),
                        w.deps.certifier_service.clone(),
                        rx,
                        w.metrics.clone(),
                        std::time::Duration::from_millis(1),
                        crate::world::logger(),
                    );
                    match p.process_signatures().await {
                        Ok(()) => "queue-ok".to_string(),
                        Err(_) => "queue-error".to_string(),
                    }
                }
            };
            let ok = answer == "http-201" || answer == "http-202" || answer == "queue-ok";
            let is_valid_own = s.by == s.label && matches!(s.idx, Idx::AsSigned | Idx::InnerSubset | Idx::InnerComplement | Idx::AnnouncedAltered);
            let ctx = json!({"replay": replay_json, "step": n, "submission": s, "answer": answer});
            // a mismatching label must be answered with a rejection (HTTP; the queue path has no
            // answer channel: there the store is what counts)
            if s.route == Route::Http && s.by != s.label && ok && start.is_open() {
                violations.push(Violation {
                    key: "C16/mismatching-label-accepted".into(),
                    what: format!("a signature made by party #{} submitted under the name of party #{} was answered {answer}", s.by, s.label),
                    replay: ctx.clone(),
                });
            }
            if ok && is_valid_own && start.is_open() {
                honest_accepted.insert(s.by);
            }
            if answer == "http-202" && is_valid_own && !start.is_open() {
                honest_buffered.insert(s.by);
            }
            // a submission answered "buffered" under a party's name that is not a valid signature of
            // this round by that party takes the place of whatever the buffer held for that party
            if ok && !is_valid_own && !start.is_open() {
                if s.by == s.label {
                    replayed_under.insert(s.label);
                } else if s.route != Route::Http {
                    mislabelled_queue_under.insert(s.label);
                }
            }
            if ok {
                accepted.push(Accepted { sub: *s, answer: answer.clone() });
            }
            answers.push(answer);
            check_rows(&w, &entity, epoch, &msg, &honest_accepted, &mut violations, &ctx).await;
            // an honest publication made after the SAME payload had been published by another party
            // (refused for that party): the deduplicator remembers payloads only
            if s.route == Route::QueueDedup && s.by == s.label {
                if let Some(copycat) = subs[..n].iter().find(|e| e.route == Route::QueueDedup && e.by == s.by && e.label != s.by && e.idx == s.idx) {
                    dedup_dropped.insert(s.by, copycat.label);
                }
            }
        }
        // seal: cycles until the certificate is produced (or not)
        let mut rows_seen = 0;
        for (n, ev) in [Ev::Tick, Ev::Quiesce, Ev::Tick, Ev::Quiesce].iter().enumerate() {
            // what is stored right before this cycle is what a certificate sealed by it is built from
            let stored_before = w.open_messages.get_open_message_with_single_signatures(&entity).await.ok().flatten();
            apply_mut(&mut w, ev, &mut log).await;
            let ctx = json!({"replay": replay_json, "step": format!("seal-{n}"), "answers": answers, "log": log});
            rows_seen = rows_seen.max(check_rows(&w, &entity, epoch, &msg, &honest_accepted, &mut violations, &ctx).await);
            // the signer list of a sealed certificate names only parties whose own key signed
            let certs = w.all_certificates().await;
            if let (Some(c), Some(om)) = (certs.iter().find(|c| !c.is_genesis() && c.signed_entity_type() == entity), stored_before) {
                for named in &c.metadata.signers {
                    let Some(p) = party_index(&w, &named.party_id) else { continue };
                    let own = om.single_signatures.iter().any(|r| r.party_id == named.party_id && valid_under_party(&w, epoch, p, r, &msg))
                        || {
                            let now = w.open_messages.get_open_message_with_single_signatures(&entity).await.ok().flatten();
                            now.map(|o| o.single_signatures.iter().any(|r| r.party_id == named.party_id && valid_under_party(&w, epoch, p, r, &msg))).unwrap_or(false)
                        };
                    if !own {
                        violations.push(Violation {
                            key: "C16/certificate-names-party-that-did-not-sign".into(),
                            what: format!("certificate {} names party #{p} ({}) among its signers, but no signature made with that party's registered key was stored", c.hash, named.party_id),
                            replay: ctx.clone(),
                        });
                    }
                }
            }
        }
        if !start.is_open() {
            // the open message exists by now and the hand-over has run: every buffered honest
            // contribution must be recorded (or the message be certified)
            if let Ok(Some(om)) = w.open_messages.get_open_message_with_single_signatures(&entity).await
                && !om.is_certified
            {
                for h in &honest_buffered {
                    let pid = &w.fixture.signers_fixture()[*h].signer_with_stake.party_id;
                    let own = om.single_signatures.iter().any(|r| &r.party_id == pid && valid_under_party(&w, epoch, *h, r, &msg));
                    if !own {
                        let replay = json!({"replay": replay_json, "step": "after hand-over", "answers": answers, "log": log});
                        if replayed_under.contains(h) {
                            violations.push(Violation {
                                key: "C16/buffered-contribution-evicted-by-replayed-signature".into(),
                                what: format!(
                                    "party #{h}'s own valid signature was answered 202 (buffered); then another submission made with party #{h}'s key that is not a valid signature of this round (a genuine signature on ANOTHER message of the epoch posted with that message as signed_message, one made under its registration for the next epoch, or - through the message queue, which marks everything authenticated - one carrying an index it did not win) arrived under its name with the same entity type as label: answered 202 / accepted, it replaced the buffered entry (the buffer holds one entry per (type, party) and the route authenticates against the peer-supplied message); at hand-over it is refused and nothing is recorded for party #{h}"
                                ),
                                replay,
                            });
                        } else if mislabelled_queue_under.contains(h) {
                            violations.push(Violation {
                                key: "C16/buffered-contribution-evicted-by-mislabelled-queue-signature".into(),
                                what: format!(
                                    "party #{h}'s own valid signature was answered 202 (buffered); then the message-queue consumer delivered a signature made by another party under party #{h}'s name (the processor marks every queue signature authenticated): it was buffered in place of the honest entry (one entry per (type, party)); at hand-over it is refused and nothing is recorded for party #{h}"
                                ),
                                replay,
                            });
                        } else {
                            violations.push(Violation {
                                key: "C16/buffered-contribution-disappeared".into(),
                                what: format!("party #{h}'s own valid signature was answered 202 (buffered), yet after the open message was created nothing is recorded for it"),
                                replay,
                            });
                        }
                    }
                }
            }
        }
        for v in violations.iter_mut() {
            if v.key == "C16/honest-contribution-disappeared" {
                for (h, copycat) in &dedup_dropped {
                    if v.what.starts_with(&format!("party #{h} ")) {
                        v.key = "C16/honest-contribution-dropped-by-message-queue-deduplicator".into();
                        v.what = format!(
                            "party #{h} published its own valid signature on the message queue after party #{copycat} had published a copy of the same payload (refused for that party): DmqConsumerClientDeduplicator keys its seen-cache on the payload only and drops the honest publication (for its 30 min TTL); the store holds no signature of party #{h}"
                        );
                    }
                }
            }
        }
        let certs = w.all_certificates().await;
        let sealed = certs.iter().any(|c| !c.is_genesis() && c.signed_entity_type() == entity);
        // completeness: the three honest own-name signatures always reach the quorum
        let honest_all = (0..3).all(|i| subs.iter().any(|s| s.by == i && s.label == i && s.idx == Idx::AsSigned));
        if honest_all && !sealed && start.is_open() {
            violations.push(Violation {
                key: "C16/honest-quorum-not-certified".into(),
                what: format!("all three parties submitted their own valid signature, yet no certificate was produced; answers {answers:?}"),
                replay: json!({"replay": replay_json, "answers": answers, "log": log}),
            });
        }
        let mut a: Vec<String> = answers.clone();
        a.sort();
        a.dedup();
        RunResult {
            canon: json!({"start": start, "subs": subs, "answers": answers, "rows": rows_seen, "sealed": sealed}).to_string(),
            violations,
            nontrivial: !accepted.is_empty(),
            outcome: format!("accepted={},sealed={sealed}", accepted.len()),
            disabled: false,
        }
    });
    drop(rt);
    let _ = std::fs::remove_dir_all(&dir);
    let _ = Accepted { sub: Sub { by: 0, label: 0, idx: Idx::AsSigned, route: Route::Http }, answer: String::new() }.sub;
    res
}

pub fn alphabet(quick: bool) -> Vec<Sub> {
    let mut v = vec![];
    let idxs: &[Idx] = if quick { &[Idx::AsSigned, Idx::InnerSubset] } else { &[Idx::AsSigned, Idx::InnerSubset, Idx::AnnouncedAltered, Idx::InnerExtraUnwon] };
    for route in [Route::Http, Route::Queue] {
        for by in 0..3 {
            for label in 0..3 {
                for idx in idxs {
                    if quick && (by == 2 || label == 2) && !(by == 2 && label == 2 && *idx == Idx::AsSigned) {
                        continue;
                    }
                    v.push(Sub { by, label, idx: *idx, route });
                }
            }
        }
    }
    v
}

pub fn run(ctx: &Ctx) -> ! {
    let scratch = ctx.scratch();
    let mut rep = Report::new(
        "model_checking",
        "all sequences of <= L submissions (label j, signature of i, index-list variant, HTTP route or message-queue consumer) \
         from two prepared states of the real aggregator (open message exists / not yet: buffered path), followed by the cycles \
         that seal a certificate; the single_signature rows and the certificate signer list are checked against the keys the \
         harness registered; non-trivial = at least one submission was accepted; distinct = distinct (start, sequence, answers)",
    );
    if let Some(path) = &ctx.replay {
        let v = mc_core::load_replay(path);
        let r = if v.get("replay").is_some() { v["replay"].clone() } else { v.clone() };
        let start: Start = serde_json::from_value(r["start"].clone()).expect("start");
        let subs: Vec<Sub> = serde_json::from_value(r["submissions"].clone()).expect("submissions");
        let res = replay(&scratch, start, &subs);
        eprintln!("replayed: {}", res.outcome);
        rep.eval();
        for v in res.violations {
            rep.push_violation(v);
        }
        rep.nontrivial(&0);
        rep.nontrivial(&1);
        rep.states = Some(1);
        rep.transitions = Some(1);
        rep.traces_validated = Some(1);
        rep.sample(json!({"start": start, "submissions": subs}));
        rep.finish(ctx);
    }
    let quick = ctx.tier == mc_core::Tier::Quick;
    let alpha = alphabet(quick);
    let len = 2;
    let mut jobs: Vec<(Start, Vec<Sub>)> = vec![];
    for start in [Start::Open, Start::NotYetOpen] {
        for s in sequences(alpha.len(), len) {
            if s.is_empty() {
                continue;
            }
            jobs.push((start, s.iter().map(|i| alpha[*i]).collect()));
        }
    }
    if !quick {
        // every adversarial single submission placed at every position among the three honest ones
        let honest: Vec<Sub> = (0..3).map(|i| Sub { by: i, label: i, idx: Idx::AsSigned, route: Route::Http }).collect();
        for perm in mc_core::permutations(3) {
            let h: Vec<Sub> = perm.iter().map(|i| honest[*i]).collect();
            for a in &alpha {
                for pos in 0..=3 {
                    let mut s = h.clone();
                    s.insert(pos, *a);
                    jobs.push((Start::Open, s.clone()));
                    jobs.push((Start::NotYetOpen, s));
                }
            }
        }
    } else {
        let honest: Vec<Sub> = (0..3).map(|i| Sub { by: i, label: i, idx: Idx::AsSigned, route: Route::Http }).collect();
        for a in alpha.iter().filter(|a| a.by != a.label && a.idx == Idx::AsSigned) {
            for pos in [0usize, 3] {
                let mut s = honest.clone();
                s.insert(pos, *a);
                jobs.push((Start::Open, s));
            }
        }
    }
    // current and next signer sets differ: signatures made under the NEXT epoch's registration of a
    // party (same key, other registration set) sent for the current round, under the party's own name
    let mut alpha2: Vec<Sub> = (0..3).map(|i| Sub { by: i, label: i, idx: Idx::AsSigned, route: Route::Http }).collect();
    for route in [Route::Http, Route::Queue] {
        for by in 0..2 {
            alpha2.push(Sub { by, label: by, idx: Idx::NextEpochRegistration, route });
        }
    }
    alpha2.push(Sub { by: 0, label: 1, idx: Idx::NextEpochRegistration, route: Route::Http });
    alpha2.push(Sub { by: 0, label: 1, idx: Idx::AsSigned, route: Route::Http });
    for start in [Start::OpenNextSetDiffers, Start::NotYetOpenNextSetDiffers] {
        for s in sequences(alpha2.len(), 2) {
            if s.is_empty() {
                continue;
            }
            jobs.push((start, s.iter().map(|i| alpha2[*i]).collect()));
        }
        let honest: Vec<Sub> = (0..3).map(|i| Sub { by: i, label: i, idx: Idx::AsSigned, route: Route::Http }).collect();
        for a in alpha2.iter().filter(|a| a.idx == Idx::NextEpochRegistration) {
            for pos in [0usize, 3] {
                let mut s = honest.clone();
                s.insert(pos, *a);
                jobs.push((start, s));
            }
        }
    }
    // textually nested party ids ("1", "10", "11"), uncertified parties: every non-empty subset of
    // the parties signs under its own name (both routes), and every subset with one submission
    // under another party's name added at the front or the back
    let mut nested = 0u64;
    for route in [Route::Http, Route::Queue] {
        for mask in 1u32..8 {
            let own: Vec<Sub> = (0..3).filter(|i| mask & (1 << i) != 0).map(|i| Sub { by: i, label: i, idx: Idx::AsSigned, route }).collect();
            jobs.push((Start::OpenNestedIds, own.clone()));
            nested += 1;
            if route == Route::Http {
                for by in 0..3 {
                    for label in 0..3 {
                        if by != label {
                            for front in [true, false] {
                                let mut s = own.clone();
                                let adv = Sub { by, label, idx: Idx::AsSigned, route };
                                if front { s.insert(0, adv) } else { s.push(adv) }
                                jobs.push((Start::OpenNestedIds, s));
                                nested += 1;
                            }
                        }
                    }
                }
            }
        }
    }
    // replay of a party's genuine signature on another message while its contribution is buffered
    let mut replays = 0u64;
    {
        let honest: Vec<Sub> = (0..3).map(|i| Sub { by: i, label: i, idx: Idx::AsSigned, route: Route::Http }).collect();
        for p in 0..3 {
            let r = Sub { by: p, label: p, idx: Idx::OtherMessage, route: Route::Http };
            for pos in 0..=3 {
                let mut s = honest.clone();
                s.insert(pos, r);
                jobs.push((Start::NotYetOpen, s.clone()));
                jobs.push((Start::Open, s));
                replays += 2;
            }
        }
        let mut all = honest.clone();
        all.extend((0..3).map(|p| Sub { by: p, label: p, idx: Idx::OtherMessage, route: Route::Http }));
        jobs.push((Start::NotYetOpen, all.clone()));
        jobs.push((Start::Open, all));
        replays += 2;
    }
    // restricted copies of one party's signature in every order (a recorded contribution never loses an index)
    {
        let kinds = [Idx::AsSigned, Idx::InnerSubset, Idx::InnerComplement];
        for a in kinds {
            for b in kinds {
                for c in kinds {
                    let s: Vec<Sub> = [a, b, c].iter().map(|i| Sub { by: 0, label: 0, idx: *i, route: Route::Http }).collect();
                    jobs.push((Start::Open, s[..2].to_vec()));
                    jobs.push((Start::Open, s));
                }
            }
        }
    }
    rep.extra("histories_with_a_replayed_signature_on_another_message", json!(replays));
    rep.extra("histories_in_the_nested_party_id_world", json!(nested));
    // the message queue as wired (real deduplicator): all sequences of <= 2 publications over
    // (publisher, whose key signed), from both prepared states
    let dq: Vec<Sub> = (0..3).flat_map(|by| (0..3).map(move |label| Sub { by, label, idx: Idx::AsSigned, route: Route::QueueDedup })).collect();
    let mut dedup_histories = 0u64;
    for start in [Start::Open, Start::NotYetOpen] {
        for s in sequences(dq.len(), 2) {
            if s.is_empty() {
                continue;
            }
            jobs.push((start, s.iter().map(|i| dq[*i]).collect()));
            dedup_histories += 1;
        }
    }
    rep.extra("histories_through_the_real_message_queue_deduplicator", json!(dedup_histories));
    rep.extra("alphabet", json!(alpha.len()));
    rep.extra("alphabet_when_next_signer_set_differs", json!(alpha2.len()));
    rep.extra("max_sequence_length", json!(len));
    rep.extra("histories", json!(jobs.len()));
    let results = par_map(&jobs, ctx.threads(), |_, (st, subs)| replay(&scratch, *st, subs));
    let mut states = std::collections::HashSet::new();
    let mut transitions = 0u64;
    for ((st, subs), r) in jobs.iter().zip(results) {
        rep.eval();
        transitions += subs.len() as u64 + 4;
        rep.outcome(&r.outcome);
        if r.outcome.starts_with("machinery") {
            rep.machinery_error(format!("replay could not compute the honest message for {st:?}"));
        }
        if r.nontrivial {
            rep.nontrivial(&r.canon);
        }
        states.insert(r.canon.clone());
        if rep.evaluations % 97 == 3 {
            rep.sample(json!({"start": st, "submissions": subs, "outcome": r.outcome}));
        }
        for v in r.violations {
            rep.push_violation(v);
        }
    }
    rep.states = Some(states.len() as u64);
    rep.transitions = Some(transitions);
    rep.traces_validated = Some(transitions);
    rep.assume("party keys are the repository's deterministic fixtures; 'verifies under the key the party registered' is evaluated with mithril-stm's single-signature verification given that party's key and stake explicitly (C01 checks that function)");
    rep.assume("the announced won-index list of a submission is informational: only the indexes carried inside the signature are judged");
    rep.finish(ctx)
}
