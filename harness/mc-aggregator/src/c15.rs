//! C15 — an aggregator crash at any persistence step leaves a verifiable store and resumable rounds.
//!
//! For a schedule, a recording run lists every occurrence of every hook point. Each occurrence is
//! then armed once: the operation parks there for ever, the harness drops the node (nothing after
//! the point runs) and rebuilds it on the same database, the rest of the schedule and a fixed tail
//! (more ticks, a new immutable, a new epoch with a full signing round) run, and the store
//! invariants and the progress clause are evaluated.

use mc_core::explore::standard_edits;
use mc_core::{Ctx, Report, Violation, par_map};
use mithril_common::entities::{Epoch, SignedEntityType};
use serde_json::json;

use crate::ctl::{Ctl, Mode};
use crate::sys::{Checker, Ev, Ty, apply_mut, check_store, doubly_certified, fresh_dir, has_certificate_and_artifact};
use crate::world::World;

pub fn base_schedule() -> Vec<Ev> {
    use Ev::*;
    vec![
        Tick, RegisterAll, Epoch(1), Tick, Tick, Tick, RegisterAll,
        SigAll(Ty::Msd), Tick, Quiesce, Tick,
        Sig { signer: 2, ty: Ty::Cdb, variant: crate::sys::Variant::NextBeacon },
        SigAll(Ty::Cdb), Tick, Quiesce,
        Immutable, Tick, Tick, SigAll(Ty::Cdb), Tick, Quiesce,
    ]
}

/// The fair closing environment that follows the schedule (and every restart): honest signers
/// resubmit in every cycle, a new immutable file appears, then a new epoch starts.
pub fn closing(honest_once: bool) -> Vec<Ev> {
    use Ev::*;
    let round = if honest_once {
        [Tick, HonestSigs(Ty::Msd), HonestSigs(Ty::Cdb), Tick, Quiesce]
    } else {
        [Tick, SigAll(Ty::Msd), SigAll(Ty::Cdb), Tick, Quiesce]
    };
    // a restarted node cycles at once (IDLE -> READY -> resumes or opens a round) before any signer
    // has had the time to send anything again
    let mut v = vec![Tick, Tick];
    for _ in 0..5 {
        v.extend(round.iter().cloned());
    }
    v.push(Immutable);
    for _ in 0..4 {
        v.extend(round.iter().cloned());
    }
    v.extend([RegisterAll, Epoch(1)]);
    for _ in 0..6 {
        v.extend(round.iter().cloned());
    }
    v
}

#[derive(Clone, Debug, serde::Serialize, serde::Deserialize)]
pub struct Cut {
    /// index of the schedule event during which the point is reached (informational)
    pub event: usize,
    pub point: String,
    /// occurrence number of the point: absolute for the first cut of a run, counted from the
    /// previous crash for the following ones
    pub occurrence: u32,
}

pub struct CrashRun {
    pub violations: Vec<Violation>,
    pub crashes: usize,
    pub doubly_certified: usize,
    pub outcome: String,
    /// cuts found (recording mode only)
    pub cuts: Vec<Cut>,
}

/// One execution: the schedule, then the closing environment. Each cut is armed in turn; when the
/// node parks there it is dropped and rebuilt on the same database, the remaining schedule is
/// abandoned (the process that was executing it is gone) and the closing environment starts over.
/// the default configuration (Mithril stake distribution only): two epochs, one round each
pub fn msd_only_schedule() -> Vec<Ev> {
    use Ev::*;
    vec![
        Tick, RegisterAll, Epoch(1), Tick, Tick, Tick, RegisterAll, SigAll(Ty::Msd), Tick, Quiesce, Tick,
        Epoch(1), Tick, Tick, Tick, RegisterAll, SigAll(Ty::Msd), Tick, Quiesce,
    ]
}

/// Default configuration, every signer faster than the aggregator: all signatures of a round arrive
/// before its open message exists (answered "buffered"), the open message is created by the next
/// cycle and the buffered signatures are handed over to it.
pub fn buffered_schedule() -> Vec<Ev> {
    use Ev::*;
    vec![
        Tick, RegisterAll, Epoch(1), Tick, Tick, SigAll(Ty::Msd), Tick, RegisterAll, Tick, Quiesce, Tick,
        Epoch(1), Tick, Tick, SigAll(Ty::Msd), Tick, RegisterAll, Tick, Quiesce,
    ]
}

pub fn run_with_cuts(scratch: &std::path::Path, history: &[Ev], cuts: &[Cut], msd_only: bool, honest_once: bool) -> CrashRun {
    match mc_core::catch(|| run_with_cuts_inner(scratch, history, cuts, msd_only, honest_once)) {
        Ok(r) => r,
        Err(e) => {
            // a panic of the node under test: recorded as the outcome of this one run (see sys::panic_result)
            let r = crate::sys::panic_result(e);
            CrashRun { violations: vec![], crashes: 0, doubly_certified: 0, outcome: r.outcome, cuts: vec![] }
        }
    }
}

fn run_with_cuts_inner(scratch: &std::path::Path, history: &[Ev], cuts: &[Cut], msd_only: bool, honest_once: bool) -> CrashRun {
    let dir = fresh_dir(scratch);
    let rt = tokio::runtime::Builder::new_current_thread().enable_all().build().expect("tokio runtime");
    let hist_json = serde_json::to_value(history).unwrap();
    let cuts_json = serde_json::to_value(cuts).unwrap();
    // in the honest-signer environment every signer sends its signature for an entity until it is
    // acknowledged once, and never again
    let mapped: Vec<Ev> = history
        .iter()
        .map(|e| match e {
            Ev::SigAll(t) if honest_once => Ev::HonestSigs(*t),
            other => other.clone(),
        })
        .collect();
    let history: &[Ev] = &mapped;
    let res = rt.block_on(async {
        let mut w = World::new(dir.clone(), 3, msd_only).await;
        let ctl = w.ctl.clone();
        let mut chk = Checker::new();
        let mut log = vec![];
        let mut violations = vec![];
        let mut found = vec![];
        let mut pending: Vec<Cut> = cuts.to_vec();
        let mut crashes = 0usize;
        if let Some(c) = pending.first() {
            ctl.arm(&c.point, c.occurrence, Mode::Crash);
        }
        let mut queue: std::collections::VecDeque<(usize, Ev)> = history.iter().cloned().enumerate().collect();
        let mut in_closing = false;
        let mut step = 0usize;
        loop {
            let Some((i, ev)) = queue.pop_front() else {
                if in_closing {
                    break;
                }
                in_closing = true;
                queue = closing(honest_once).into_iter().map(|e| (usize::MAX, e)).collect();
                continue;
            };
            step += 1;
            if in_closing && !msd_only && matches!(ev, Ev::RegisterAll) {
                // progress inside the epoch of the crash: the closing environment has, by now, run
                // five rounds, shown a new immutable file and run four more rounds; the round of
                // that later beacon must be certified and have its artifact before the epoch ends
                let tp = w.time_point().await;
                let entity = SignedEntityType::CardanoDatabase(mithril_common::entities::CardanoDbBeacon::new(*tp.epoch, tp.immutable_file_number));
                if !has_certificate_and_artifact(&w, &entity).await {
                    violations.push(Violation {
                        key: "C15/no-progress-after-crash".into(),
                        what: format!(
                            "after crash(es) at {:?} and restart, nine closing rounds and a new immutable file later, the later round {entity:?} of the same epoch is still not certified with its artifact; state {}, last log lines {:?}",
                            cuts.iter().map(|c| format!("{}#{}", c.point, c.occurrence)).collect::<Vec<_>>(),
                            w.state(),
                            &log[log.len().saturating_sub(6)..]
                        ),
                        replay: json!({"history": hist_json, "cuts": cuts_json, "msd_only": msd_only, "honest_once": honest_once, "step": "before the epoch change of the closing environment", "log": log}),
                    });
                }
            }
            let before = ctl.trace_len();
            let crashed = {
                let parked = ctl.parked.clone();
                tokio::select! {
                    biased;
                    _ = apply_mut(&mut w, &ev, &mut log) => false,
                    _ = parked.notified() => true,
                }
            };
            if cuts.is_empty() && !in_closing {
                for (p, o) in ctl.trace().into_iter().skip(before) {
                    found.push(Cut { event: i, point: p.to_string(), occurrence: o });
                }
            }
            let ctx = json!({"history": hist_json, "cuts": cuts_json, "msd_only": msd_only, "honest_once": honest_once, "step": step, "event": ev, "crashed_here": crashed, "log": log});
            if crashed {
                crashes += 1;
                log.push(format!("CRASH@{}#{} during {:?}", pending[0].point, pending[0].occurrence, ev));
                pending.remove(0);
                // the process is gone: nothing after the point ran. Restart on the same database.
                w.restart().await;
                match pending.first() {
                    Some(c) => {
                        let base = ctl.trace().iter().filter(|(p, _)| *p == c.point.as_str()).count() as u32;
                        ctl.arm(&c.point, base + c.occurrence, Mode::Crash)
                    }
                    None => ctl.disarm(),
                }
                in_closing = true;
                queue = closing(honest_once).into_iter().map(|e| (usize::MAX, e)).collect();
            }
            violations.extend(check_store(&w, &mut chk, &ctx).await);
        }
        // progress: the rounds of the closing environment (a later immutable beacon, then a later
        // epoch) are certified and have their artifacts
        let tp = w.time_point().await;
        let ctx = json!({"history": hist_json, "cuts": cuts_json, "msd_only": msd_only, "honest_once": honest_once, "step": "end", "log": log});
        let mut expected = vec![SignedEntityType::MithrilStakeDistribution(Epoch(*tp.epoch))];
        if !msd_only {
            expected.push(SignedEntityType::CardanoDatabase(mithril_common::entities::CardanoDbBeacon::new(*tp.epoch, tp.immutable_file_number)));
        }
        for entity in expected {
            if !has_certificate_and_artifact(&w, &entity).await {
                violations.push(Violation {
                    key: "C15/no-progress-after-crash".into(),
                    what: format!(
                        "after crash(es) at {:?} and restart, with every signer resubmitting in every cycle, {entity:?} is still not certified with its artifact; state {}, last log lines {:?}",
                        cuts.iter().map(|c| format!("{}#{}", c.point, c.occurrence)).collect::<Vec<_>>(),
                        w.state(),
                        &log[log.len().saturating_sub(6)..]
                    ),
                    replay: ctx.clone(),
                });
            }
        }
        if w.panics.get() > 0 && !cuts.is_empty() {
            // the restarted node did not resume: it crashed again by itself (a panic of the node,
            // not an injected stop), however many times; the harness restarted it like a supervisor
            violations.push(Violation {
                key: "C15/restarted-node-crashes-again".into(),
                what: format!(
                    "after the stop at {:?} and the restart on the same database the node panicked {} time(s) by itself while resuming (it was restarted each time); last log lines {:?}",
                    cuts.iter().map(|c| format!("{}#{}", c.point, c.occurrence)).collect::<Vec<_>>(),
                    w.panics.get(),
                    &log[log.len().saturating_sub(8)..]
                ),
                replay: json!({"history": hist_json, "cuts": cuts_json, "msd_only": msd_only, "honest_once": honest_once, "step": "end", "log": log}),
            });
        }
        let dc = doubly_certified(&w).await;
        let ncert = w.all_certificates().await.len();
        Ctl::uninstall();
        CrashRun {
            violations,
            crashes,
            doubly_certified: dc,
            outcome: format!("crashes={crashes},certificates={ncert},double={dc},state={}{}", w.state(), if w.panics.get() > 0 { ",node-panicked" } else { "" }),
            cuts: found,
        }
    });
    drop(rt);
    let _ = std::fs::remove_dir_all(&dir);
    res
}

pub fn run(ctx: &Ctx) -> ! {
    let scratch = ctx.scratch();
    let mut rep = Report::new(
        "fault_enumeration",
        "for each schedule, every occurrence of every persistence hook point (single-signature insert, certificate insert, \
         open-message update, artifact compute/store, buffered hand-over) is armed once as a crash cut: the real aggregator \
         parks there, is dropped and rebuilt on the same SQLite files, then the rest of the schedule and a tail with new rounds \
         run; a case is non-trivial when the crash cut was really reached; distinct = distinct (schedule, cut)",
    );
    if let Some(path) = &ctx.replay {
        let v = mc_core::load_replay(path);
        let h: Vec<Ev> = serde_json::from_value(v["history"].clone()).expect("history");
        let cuts: Vec<Cut> = serde_json::from_value(v["cuts"].clone()).unwrap_or_default();
        let msd_only = v["msd_only"].as_bool().unwrap_or(false);
        let honest_once = v["honest_once"].as_bool().unwrap_or(false);
        let r = run_with_cuts(&scratch, &h, &cuts, msd_only, honest_once);
        eprintln!("replayed: {}", r.outcome); if std::env::var_os("VERIF_TRACE").is_some() { for v in &r.violations { eprintln!("  {}", v.key); } }
        rep.eval();
        for v in r.violations {
            rep.push_violation(v);
        }
        rep.nontrivial(&0);
        rep.nontrivial(&1);
        rep.sample(json!({"history": h, "cuts": cuts}));
        rep.finish(ctx);
    }
    // schedules: the base schedule, and (thorough) its 1-deviation ball
    let base = base_schedule();
    // (schedule, msd_only): the second world is the default configuration, in which the Mithril
    // stake distribution is the only signed entity type - there an epoch without its certificate
    // is a gap that blocks the aggregator until manual repair
    let mut schedules: Vec<(Vec<Ev>, bool)> = vec![(base.clone(), false), (msd_only_schedule(), true), (buffered_schedule(), true)];
    let dev: Vec<Ev> = {
        use Ev::*;
        vec![Tick, Quiesce, Immutable, Epoch(1), Restart, Expire(Ty::Cdb), Sig { signer: 1, ty: Ty::Cdb, variant: crate::sys::Variant::NextBeacon }]
    };
    if ctx.tier == mc_core::Tier::Thorough {
        let mut seen = std::collections::HashSet::new();
        seen.insert(serde_json::to_string(&base).unwrap());
        for h in standard_edits(&base, &dev, 7) {
            if seen.insert(serde_json::to_string(&h).unwrap()) {
                schedules.push((h, false));
            }
        }
    }
    // recording runs: which cuts exist on each schedule; also the no-crash baseline must progress
    let recs = par_map(&schedules, ctx.threads(), |_, (h, msd_only)| run_with_cuts(&scratch, h, &[], *msd_only, false));
    // (schedule, cuts, honest-once environment)
    let mut jobs: Vec<(usize, Vec<Cut>, bool)> = vec![];
    for (si, r) in recs.iter().enumerate() {
        rep.eval();
        rep.outcome(&format!("baseline:{}", r.outcome));
        if si <= 2 && !r.violations.is_empty() {
            // the tree under test does not satisfy the oracle on the base schedule even without a
            // stop (never so on the unchanged tree). The cuts are still enumerated: what C15
            // promises after a stop and restart is judged on the runs that have one.
            rep.extra(
                match si {
                    0 => "base_schedule_without_crash_violates",
                    1 => "default_configuration_schedule_without_crash_violates",
                    _ => "buffered_signatures_schedule_without_crash_violates",
                },
                json!(r.violations.iter().map(|v| v.key.clone()).collect::<Vec<_>>()),
            );
        }
        if si > 2 && !r.violations.is_empty() {
            // a deviated schedule that does not progress even without a crash says nothing about crashes
            rep.add_extra("schedules_skipped_no_baseline_progress", 1);
            continue;
        }
        for c in &r.cuts {
            jobs.push((si, vec![c.clone()], false));
            jobs.push((si, vec![c.clone()], true));
        }
        if si == 0 && ctx.tier == mc_core::Tier::Thorough {
            // repeated stops: after every first cut, every point again at its 1st and 2nd occurrence
            // following the restart
            let points: std::collections::BTreeSet<String> = r.cuts.iter().map(|c| c.point.clone()).collect();
            for ca in &r.cuts {
                for p in &points {
                    for k in 1..=2u32 {
                        jobs.push((0, vec![ca.clone(), Cut { event: usize::MAX, point: p.clone(), occurrence: k }], k == 2));
                    }
                }
            }
        }
    }
    rep.extra("schedules", json!(schedules.len()));
    rep.extra("cuts_on_base_schedule", json!(recs[0].cuts.iter().map(|c| format!("{}#{}@{}", c.point, c.occurrence, c.event)).collect::<Vec<_>>()));
    let results = par_map(&jobs, ctx.threads(), |_, (si, cuts, honest)| run_with_cuts(&scratch, &schedules[*si].0, cuts, schedules[*si].1, *honest));
    let mut points_hit: std::collections::BTreeMap<String, u64> = Default::default();
    for ((si, cuts, honest), r) in jobs.iter().zip(results) {
        rep.eval();
        rep.outcome(&r.outcome);
        if r.crashes == cuts.len() {
            rep.nontrivial(&(si, serde_json::to_string(cuts).unwrap(), honest));
            for c in cuts {
                *points_hit.entry(c.point.clone()).or_default() += 1;
            }
        }
        if r.doubly_certified > 0 {
            rep.add_extra("observation_runs_with_an_entity_certified_twice_after_crash", 1);
        }
        if rep.samples.len() < 4 && r.crashes > 0 && (rep.evaluations % 5 == 0 || rep.samples.is_empty()) {
            rep.sample(json!({"schedule": schedules[*si].0, "msd_only": schedules[*si].1, "signers_send_once": honest, "cuts": cuts, "outcome": r.outcome}));
        }
        for v in r.violations {
            rep.push_violation(v);
        }
    }
    rep.extra("crash_runs_per_point", json!(points_hit));
    rep.extra("crash_runs", json!(jobs.len()));
    rep.assume("every crash cut is followed by two closing environments: signers that resubmit in every cycle, and honest signers that send each signature until it is acknowledged once (201/202) and never again");
    rep.assume("a crash is modelled as the loss of everything after an await point between persistence steps; torn SQLite pages / power loss are not modelled");
    rep.assume("an entity certified by two certificates after a crash between certificate insert and open-message update is reported as an observation: C15 does not forbid it");
    rep.finish(ctx)
}
