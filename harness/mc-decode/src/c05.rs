//! C05 — decoding untrusted bytes never crashes the process and round-trips honest values.
//!
//! Bounded exhaustive enumeration (no sampling): the input space is an explicit list of segments
//! (`c05/space.rs`), each a finite indexed family of inputs for one decoder — blind short strings,
//! boundary-u64 prefixes, every structural mutation of honest encodings at every nesting level and
//! in both the CBOR and the legacy form (`c05/honest.rs`, `c05/mutate.rs`), JSON structure
//! mutations, nesting bombs. Every input is executed on the real decoders (`c05/decoders.rs`) in
//! worker subprocesses (`mc_core::isolate`): a worker that dies (abort on allocation failure, stack
//! overflow, watchdog) is attributed to the input it was processing.

mod decoders;
mod honest;
mod mutate;
mod space;

use std::collections::BTreeMap;
use std::io::Write;
use std::os::unix::fs::FileExt;
use std::path::{Path, PathBuf};

use mc_core::isolate::{self, WorkerArgs};
use mc_core::{Ctx, Report, catch, hash64};
use serde_json::{Value, json};

use decoders::DECODERS;
use space::Space;

#[global_allocator]
static A: mc_core::isolate::CountingAlloc = mc_core::isolate::CountingAlloc;

/// the decode runs on a thread with the default main-thread stack of Linux (tokio workers: 2 MiB)
const STACK_BYTES: usize = 8 << 20;
/// refuse single requests above this: the worker aborts at a known index instead of swapping
const HARD_CAP: usize = 4 << 30;
const ALLOC_FLOOR: usize = 64 << 20;
const ALLOC_FACTOR: usize = 1024;
const ITEM_TIMEOUT_MS: u64 = 60_000;
/// after this many watchdog deaths of one worker slot the remaining items of that slot get the
/// short timeout (a defect that hangs on thousands of inputs must not cost a minute each)
const FULL_TIMEOUT_HANGS: u64 = 3;
const SHORT_TIMEOUT_MS: u64 = 10_000;
/// mc-core's own watchdog reads the wall clock (a clock step fires it); it is kept as a distant
/// backstop only and the monotonic watchdog below decides
const BACKSTOP_TIMEOUT_MS: u64 = 15 * 60_000;
const NCOUNTERS: usize = 6; // inputs, accepted, rejected, panics, honest_ok, flagged
const INLINE_INPUT_LIMIT: usize = 2 << 20;

fn alloc_limit(input_len: usize) -> usize {
    ALLOC_FLOOR.max(input_len.saturating_mul(ALLOC_FACTOR))
}

/// classifier site from a panic location inside the repository (stable across line changes)
fn site_from_location(loc: &str) -> Option<String> {
    let file = loc.rsplit_once(':').map(|x| x.0).unwrap_or(loc);
    let table: [(&str, &str); 14] = [
        ("mithril-stm/src/proof_system/concatenation/proof.rs", "aggregate-signature-legacy"),
        ("mithril-stm/src/protocol/aggregate_signature/signature.rs", "aggregate-signature"),
        ("mithril-stm/src/protocol/single_signature/signature_registered_party.rs", "single-signature-with-registered-party-legacy"),
        ("mithril-stm/src/protocol/single_signature/signature.rs", "single-signature-legacy"),
        ("mithril-stm/src/protocol/key_registration/closed_registration_entry.rs", "closed-registration-entry-legacy"),
        ("mithril-stm/src/membership_commitment/merkle_tree/path.rs", "merkle-batch-path-legacy"),
        ("mithril-stm/src/membership_commitment/merkle_tree/commitment.rs", "merkle-commitment-legacy"),
        ("mithril-stm/src/proof_system/concatenation/aggregate_key.rs", "aggregate-verification-key-legacy"),
        ("mithril-stm/src/protocol/parameters.rs", "parameters-legacy"),
        ("mithril-stm/src/protocol/participant/initializer.rs", "initializer-legacy"),
        ("mithril-stm/src/codec.rs", "stm-codec"),
        ("internal/mithril-merkle-tree/src/merkle_map.rs", "mk-map-proof"),
        ("internal/mithril-merkle-tree/src/merkle_tree.rs", "mk-proof"),
        ("mithril-common/src/messages/register_signature.rs", "register-signature-dmq"),
    ];
    for (suffix, site) in table {
        if file.ends_with(suffix) {
            return Some(site.to_string());
        }
    }
    // any other file of the repository: its path below the crate's src/
    for marker in ["/mithril-stm/src/", "/mithril-common/src/", "/mithril-merkle-tree/src/"] {
        if let Some(p) = file.find(marker) {
            return Some(file[p + 1..].replace("/src/", ":").replace('/', "."));
        }
    }
    // third-party crate: registry/src/<index>/<crate-version>/...
    if let Some(p) = file.find("/registry/src/") {
        let rest = &file[p + "/registry/src/".len()..];
        let mut it = rest.split('/');
        let _index = it.next();
        if let Some(krate) = it.next() {
            return Some(format!("dependency:{krate}"));
        }
    }
    None
}

fn panic_class(msg: &str) -> &'static str {
    if msg.starts_with("attempt to ") && msg.contains("overflow") {
        "arithmetic-overflow"
    } else if msg.contains("capacity overflow") {
        "disproportionate-allocation"
    } else {
        "panic"
    }
}

struct Verdict {
    class: Option<&'static str>,
    msg: String,
    loc: String,
    accepted: bool,
    rejected: bool,
    panicked: bool,
    honest_ok: bool,
    max_request: usize,
}

/// run one input through one decoder and judge it (oracle clauses 1–3, 5)
fn judge(decoder: usize, bytes: &[u8], honest: Option<&[u8]>) -> Verdict {
    let d = &DECODERS[decoder];
    let mut v = Verdict { class: None, msg: String::new(), loc: String::new(), accepted: false, rejected: false, panicked: false, honest_ok: false, max_request: 0 };
    isolate::reset_max_request();
    let r = catch(|| (d.run)(bytes));
    v.max_request = isolate::max_request();
    match r {
        Err(p) => {
            v.panicked = true;
            v.class = Some(panic_class(&p));
            v.msg = format!("panicked with '{p}'");
            v.loc = mc_core::last_panic_location();
        }
        Ok(Ok(canon)) => {
            v.accepted = true;
            if let Some(exp) = honest {
                if canon == exp {
                    v.honest_ok = true;
                } else {
                    v.class = Some("roundtrip-mismatch");
                    v.msg = format!(
                        "decoded an honest encoding to a different value: re-encoding {} differs from the original's {}",
                        short_hex(&canon, 48),
                        short_hex(exp, 48)
                    );
                }
            }
        }
        Ok(Err(e)) => {
            v.rejected = true;
            if honest.is_some() {
                v.class = Some("roundtrip-mismatch");
                v.msg = format!("rejected an honest encoding: {e}");
            }
        }
    }
    if v.class.is_none() && v.max_request > alloc_limit(bytes.len()) {
        v.class = Some("disproportionate-allocation");
        v.msg = format!("requested a single allocation of {} bytes for an input of {} bytes", v.max_request, bytes.len());
    }
    v
}

fn short_hex(b: &[u8], max: usize) -> String {
    if b.len() <= max { hex::encode(b) } else { format!("{}…({} bytes)", hex::encode(&b[..max]), b.len()) }
}

fn side_file(progress: &Path, what: &str, start: u64) -> PathBuf {
    PathBuf::from(format!("{}.{what}.{start}", progress.display()))
}

// ------------------------------------------------------------------------------------------------
// worker
// ------------------------------------------------------------------------------------------------

/// start of the item in progress, in ms since `CLOCK_BASE` (+1; 0 = no item in progress)
static ITEM_T0_MS: std::sync::atomic::AtomicU64 = std::sync::atomic::AtomicU64::new(0);
static CLOCK_BASE: std::sync::OnceLock<std::time::Instant> = std::sync::OnceLock::new();

fn mono_ms() -> u64 {
    CLOCK_BASE.get_or_init(std::time::Instant::now).elapsed().as_millis() as u64
}

fn item_started() {
    ITEM_T0_MS.store(mono_ms() + 1, std::sync::atomic::Ordering::Relaxed);
}

/// Monotonic per-item watchdog. Exits with 97 like mc-core's, so the parent records a hang at the
/// published index. The number of earlier hangs of this worker slot is kept next to its progress file.
fn start_watchdog(slot_progress: Option<&Path>) {
    let hang_file = slot_progress.map(|p| PathBuf::from(format!("{}.hangs", p.display())));
    let earlier: u64 = hang_file.as_ref().and_then(|f| std::fs::read_to_string(f).ok()).and_then(|s| s.trim().parse().ok()).unwrap_or(0);
    let timeout = if earlier < FULL_TIMEOUT_HANGS { ITEM_TIMEOUT_MS } else { SHORT_TIMEOUT_MS };
    let _ = mono_ms();
    std::thread::spawn(move || {
        loop {
            std::thread::sleep(std::time::Duration::from_millis(100));
            let t0 = ITEM_T0_MS.load(std::sync::atomic::Ordering::Relaxed);
            if t0 != 0 && mono_ms() + 1 > t0 + timeout {
                if let Some(f) = &hang_file {
                    let _ = std::fs::write(f, format!("{}", earlier + 1));
                }
                eprintln!("watchdog: the item in progress did not return within {timeout} ms");
                std::process::exit(97);
            }
        }
    });
}

fn worker(ctx: &Ctx, args: WorkerArgs) -> ! {
    isolate::HARD_CAP.store(HARD_CAP, std::sync::atomic::Ordering::Relaxed);
    let tier = ctx.tier;
    let replay = std::env::var("C05_REPLAY_INPUT").ok().filter(|_| args.sweep == "replay");
    let h = std::thread::Builder::new()
        .stack_size(STACK_BYTES)
        .name("c05-decode".into())
        .spawn(move || {
            if let Some(path) = replay {
                let bytes = std::fs::read(&path).expect("replay input");
                let decoder = decoders::index_of(&std::env::var("C05_REPLAY_DECODER").expect("decoder")).expect("known decoder");
                start_watchdog(None);
                args.run(1, BACKSTOP_TIMEOUT_MS, |_| {
                    item_started();
                    let v = judge(decoder, &bytes, None);
                    Some(json!({"c": v.class, "msg": v.msg, "loc": v.loc, "maxreq": v.max_request, "accepted": v.accepted}).to_string())
                });
            }
            let worlds = space::worlds();
            let sp = space::build(tier, &worlds);
            let counters_file = std::fs::File::create(side_file(&args.progress, "cnt", args.start)).expect("counter file");
            let mut nt_file = std::fs::File::create(side_file(&args.progress, "nt", args.start)).expect("nontrivial file");
            let mut counters = vec![[0u64; NCOUNTERS]; DECODERS.len()];
            // throttle: per (class, decoder, location) how many were reported and the shortest input
            let mut reported: BTreeMap<(String, usize, String), (u64, usize)> = BTreeMap::new();
            let profile = std::env::var_os("C05_PROFILE").is_some();
            let mut prof: BTreeMap<String, (u64, f64, f64)> = BTreeMap::new();
            let (total, step) = (sp.total, args.nworkers);
            start_watchdog(Some(&args.progress));
            args.run(sp.total, BACKSTOP_TIMEOUT_MS, |i| {
                item_started();
                let t0 = std::time::Instant::now();
                let inp = sp.input(i);
                let t1 = std::time::Instant::now();
                let d = inp.seg.decoder;
                let v = judge(d, &inp.bytes, inp.seg.honest.as_deref());
                if profile {
                    // developer aid only: where does the time go (never influences a verdict)
                    let e = prof.entry(format!("{} | {}", DECODERS[d].name, inp.seg.label)).or_insert((0, 0.0, 0.0));
                    e.0 += 1;
                    e.1 += (t1 - t0).as_secs_f64();
                    e.2 += t1.elapsed().as_secs_f64();
                    if i + step >= total || (i / step) % 100_000 == 99_999 {
                        let mut v: Vec<_> = prof.iter().collect();
                        v.sort_by(|a, b| (b.1.1 + b.1.2).partial_cmp(&(a.1.1 + a.1.2)).unwrap());
                        for (k, (n, g, r)) in v.iter().take(40) {
                            eprintln!("PROFILE {n:8} gen {g:8.3}s run {r:8.3}s  {k}");
                        }
                    }
                }
                let c = &mut counters[d];
                c[0] += 1;
                c[1] += v.accepted as u64;
                c[2] += v.rejected as u64;
                c[3] += v.panicked as u64;
                c[4] += v.honest_ok as u64;
                c[5] += v.class.is_some() as u64;
                let mut row = [0u8; NCOUNTERS * 8];
                for (j, x) in c.iter().enumerate() {
                    row[j * 8..j * 8 + 8].copy_from_slice(&x.to_le_bytes());
                }
                let _ = counters_file.write_at(&row, (d * NCOUNTERS * 8) as u64);
                if inp.seg.derived || v.accepted {
                    let _ = nt_file.write_all(&hash64(&(d, &inp.bytes)).to_le_bytes());
                }
                let class = v.class?;
                let e = reported.entry((class.to_string(), d, v.loc.clone())).or_insert((0, usize::MAX));
                e.0 += 1;
                if e.0 > 5000 && inp.bytes.len() >= e.1 {
                    return None;
                }
                e.1 = e.1.min(inp.bytes.len());
                Some(json!({"c": class, "msg": v.msg, "loc": v.loc, "maxreq": v.max_request}).to_string())
            })
        })
        .expect("spawn decode thread");
    let _ = h.join();
    std::process::exit(3)
}

// ------------------------------------------------------------------------------------------------
// parent
// ------------------------------------------------------------------------------------------------

struct Finding {
    key: String,
    bytes_len: usize,
    bytes: Vec<u8>,
    what: String,
    replay: Value,
}

fn replay_value(decoder: &str, site: &str, bytes: &[u8], tier: &str, index: Option<u64>) -> Value {
    let mut v = json!({"decoder": decoder, "site": site, "input_len": bytes.len()});
    if bytes.len() <= INLINE_INPUT_LIMIT {
        v["input_hex"] = json!(hex::encode(bytes));
    } else {
        v["input_hex"] = Value::Null;
        v["input_index"] = json!({"tier": tier, "index": index});
    }
    v
}

fn death_class(status: &str, stderr: &str) -> (&'static str, String) {
    if status.starts_with("hang") {
        ("hang", format!("did not return in time (watchdog): {}", stderr.trim()))
    } else if stderr.contains("memory allocation of") {
        ("disproportionate-allocation", format!("aborted the process: {}", stderr.trim()))
    } else if stderr.contains("overflowed its stack") || status == "signal 11" {
        ("abort", format!("overflowed the {} MiB stack and killed the process ({status}): {}", STACK_BYTES >> 20, stderr.trim()))
    } else {
        ("abort", format!("killed the process ({status}): {}", stderr.trim()))
    }
}

fn rule_text() -> &'static str {
    "every element of the explicitly generated input space of every decoder entry point is decoded by the real code in a \
     worker subprocess: (a) all byte strings of length <= 2 and all strings over {00,01,7f,80,ff} up to the stated length, \
     boundary-u64 prefixes; (b) for honest values in every encoding (versioned CBOR, legacy fixed layout, bincode, JSON, \
     bytes-hex, json-hex) and at every nesting level (component re-wrapped with correct outer lengths, CBOR and legacy \
     chosen independently per level): every truncation, every position x {00,01,7f,80,ff,b^1,b+1}, every 8-byte window x \
     boundary u64 values, every CBOR head -> 8-byte/4-byte/indefinite length, every bincode varint inflated, byte \
     deletions/insertions, appended tails, pairs of legacy length fields; (c) JSON: every number/string/array/object node \
     replaced by boundary numbers, malformed strings, empty/10^4-element arrays, missing/unknown/duplicate keys, and nesting \
     bombs. An input is non-trivial when it is derived from an honest encoding or is accepted by the decoder; distinct = \
     distinct (decoder, input bytes)"
}

fn base_report(ctx: &Ctx) -> Report {
    let mut rep = Report::new("exploration", rule_text());
    let t = space::Tiering::new(ctx.tier);
    rep.extra("bounds", t.describe());
    rep.extra(
        "oracle",
        json!({
            "no_panic": true,
            "no_process_death": "abort / SIGSEGV / stack overflow of the worker is attributed to the input",
            "stack_bytes": STACK_BYTES,
            "max_single_allocation": format!("max({} MiB, {} x input length); requests above {} GiB are refused (abort)", ALLOC_FLOOR >> 20, ALLOC_FACTOR, HARD_CAP >> 30),
            "per_input_timeout_ms": ITEM_TIMEOUT_MS,
            "per_input_timeout_after_3_hangs_of_a_worker_ms": SHORT_TIMEOUT_MS,
            "hang_confirmation": "a watchdog death is re-run alone (full timeout) and reported only if it does not return again",
            "round_trip": "decode(encode(honest value)) re-encodes to the bytes of the original value, for every accepted form",
            "overflow_checks": "on (arithmetic overflow panics; reported under C05/arithmetic-overflow:*)",
        }),
    );
    rep.extra(
        "decoders",
        Value::Array(DECODERS.iter().map(|d| json!({"name": d.name, "input": if d.text { "text" } else { "bytes" }, "entry_points": d.entry_points})).collect()),
    );
    rep.assume("mithril-stm / mithril-common are built with their default features (no future_snark): SNARK decoders, MerklePath and MerkleTreeCommitment are not compiled and not covered");
    rep.assume("the legacy fixed layouts have no encoder in the code base; honest legacy encodings are written by the harness from the decoders' layout comments (checked: they decode to the original value)");
    rep.assume("MerkleBatchPath::from_bytes and MerkleTreeBatchCommitment::from_bytes / ClosedRegistrationEntry::from_bytes are crate-private: they are driven through AggregateSignature / AggregateVerificationKeyForConcatenation / SingleSignatureWithRegisteredParty with the component re-wrapped");
    rep.assume("decoding runs on an 8 MiB stack (Linux main-thread default); a single allocation request is 'out of proportion' above max(64 MiB, 1024 x input length)");
    rep.assume("third-party decoders (ciborium, bincode, serde_json, hex, blst, ed25519-dalek, kes-summed-ed25519) are exercised only through the Mithril entry points");
    rep
}

/// run one input alone in a fresh worker process (replays, confirmation of watchdog deaths)
fn run_alone(ctx: &Ctx, decoder: &str, bytes: &[u8]) -> isolate::SweepResult {
    let f = ctx.scratch().join("single-input.bin");
    std::fs::write(&f, bytes).expect("write single input");
    // the child reads the case from the environment (no other thread of this process is running)
    unsafe {
        std::env::set_var("C05_REPLAY_INPUT", &f);
        std::env::set_var("C05_REPLAY_DECODER", decoder);
    }
    isolate::run_sweep(ctx, "replay", 1, 1, 1)
}

fn replay(ctx: &Ctx, path: &Path) -> ! {
    let mut rep = base_report(ctx);
    let v = mc_core::load_replay(path);
    let decoder = v["decoder"].as_str().unwrap_or("").to_string();
    let site = v["site"].as_str().unwrap_or("replay").to_string();
    let Some(di) = decoders::index_of(&decoder) else {
        rep.machinery_error(format!("replay names unknown decoder '{decoder}'"));
        rep.finish(ctx)
    };
    let bytes: Vec<u8> = match v["input_hex"].as_str() {
        Some(h) => hex::decode(h).unwrap_or_default(),
        None => {
            // a large input: regenerate it from (tier, index)
            let idx = v["input_index"]["index"].as_u64().unwrap_or(0);
            let worlds = space::worlds();
            let sp = space::build(ctx.tier, &worlds);
            if idx >= sp.total {
                rep.machinery_error("replay index outside the space of this tier".into());
                rep.finish(ctx)
            }
            sp.input(idx).bytes
        }
    };
    let res = run_alone(ctx, &decoder, &bytes);
    rep.eval();
    rep.nontrivial(&0u8);
    rep.nontrivial(&1u8);
    let name = DECODERS[di].name;
    let describe = |what: &str| format!("decoder {name} on input {} ({} bytes): {what}", short_hex(&bytes, 64), bytes.len());
    for d in &res.deaths {
        let (class, what) = death_class(&d.status, &d.stderr_tail);
        rep.outcome("death");
        rep.violation(&format!("C05/{class}:{site}"), describe(&what), v.clone());
    }
    for (_, line) in &res.lines {
        let l: Value = serde_json::from_str(line).unwrap_or(Value::Null);
        rep.outcome(if l["accepted"].as_bool() == Some(true) { "accepted" } else { "not-accepted" });
        if let Some(class) = l["c"].as_str() {
            let loc = l["loc"].as_str().unwrap_or("");
            let s = site_from_location(loc).unwrap_or(site.clone());
            rep.violation(&format!("C05/{class}:{s}"), describe(&format!("{} at {loc}", l["msg"].as_str().unwrap_or(""))), v.clone());
        }
    }
    rep.finish(ctx)
}

pub fn run(ctx: &Ctx) -> ! {
    if let Some(args) = WorkerArgs::parse(ctx) {
        worker(ctx, args);
    }
    if std::env::var_os("C05_DEBUG").is_some() {
        // developer aid: show panics of the harness itself (parent process only)
        let _ = std::panic::take_hook();
    }
    if let Some(path) = &ctx.replay {
        replay(ctx, &path.clone());
    }
    let mut rep = base_report(ctx);
    let worlds = space::worlds();
    for w in &worlds.stm {
        if let Err(e) = honest::self_check(w) {
            rep.machinery_error(e);
        }
    }
    if !rep.machinery_errors.is_empty() {
        rep.finish(ctx);
    }
    let sp: Space = space::build(ctx.tier, &worlds);
    if std::env::var_os("C05_DEBUG").is_some() {
        eprintln!("space of {} inputs in {} segments built after {:.2}s", sp.total, sp.segs.len(), ctx.elapsed_s());
        let mut per: BTreeMap<(usize, String), u64> = BTreeMap::new();
        for s in &sp.segs {
            *per.entry((s.decoder, s.label.rsplit_once('[').map(|x| x.1.to_string()).unwrap_or(s.label.clone()))).or_insert(0) += s.count;
        }
        for ((d, fam), n) in per {
            eprintln!("  {:55} {:40} {n}", DECODERS[d].name, fam);
        }
    }
    if std::env::var_os("C05_SPACE_ONLY").is_some() {
        std::process::exit(0);
    }
    // counterexamples of an earlier run are not kept next to those of this run
    if let Ok(rd) = std::fs::read_dir(ctx.verif_dir.join("replays").join(&ctx.property)) {
        for e in rd.flatten() {
            if e.path().extension().and_then(|x| x.to_str()) == Some("json") {
                let _ = std::fs::remove_file(e.path());
            }
        }
    }
    let nworkers = (ctx.threads() as u64).clamp(1, 32);
    rep.extra("space_size", json!(sp.total));
    rep.extra("segments", json!(sp.segs.len()));
    rep.extra("worker_processes", json!(nworkers));
    let res = isolate::run_sweep(ctx, "main", sp.total, nworkers, 1000);
    if std::env::var_os("C05_DEBUG").is_some() {
        eprintln!("sweep finished after {:.2}s: {} lines, {} deaths", ctx.elapsed_s(), res.lines.len(), res.deaths.len());
    }

    // counters and non-trivial hashes written by the workers
    let scratch = ctx.scratch();
    let mut counters = vec![[0u64; NCOUNTERS]; DECODERS.len()];
    let mut hashes: Vec<u64> = vec![];
    if let Ok(rd) = std::fs::read_dir(&scratch) {
        let mut names: Vec<PathBuf> = rd.filter_map(|e| e.ok().map(|e| e.path())).collect();
        names.sort();
        for p in names {
            let n = p.file_name().and_then(|s| s.to_str()).unwrap_or("").to_string();
            if n.contains(".cnt.") {
                let b = std::fs::read(&p).unwrap_or_default();
                for (d, row) in counters.iter_mut().enumerate() {
                    for (j, c) in row.iter_mut().enumerate() {
                        let o = (d * NCOUNTERS + j) * 8;
                        if let Some(x) = b.get(o..o + 8) {
                            *c += u64::from_le_bytes(x.try_into().unwrap());
                        }
                    }
                }
            } else if n.contains(".nt.") {
                let b = std::fs::read(&p).unwrap_or_default();
                hashes.extend(b.chunks_exact(8).map(|x| u64::from_le_bytes(x.try_into().unwrap())));
            }
        }
    }
    hashes.sort_unstable();
    hashes.dedup();
    rep.nontrivial.extend(hashes.iter().copied());
    drop(hashes);

    let mut per_decoder = serde_json::Map::new();
    let (mut acc, mut rej, mut pan) = (0u64, 0u64, 0u64);
    let mut space_per_decoder = vec![0u64; DECODERS.len()];
    for s in &sp.segs {
        space_per_decoder[s.decoder] += s.count;
    }
    for (d, c) in counters.iter().enumerate() {
        per_decoder.insert(
            DECODERS[d].name.to_string(),
            json!({"space": space_per_decoder[d], "inputs": c[0], "accepted": c[1], "rejected": c[2], "panics": c[3], "honest_round_trips_ok": c[4], "flagged": c[5]}),
        );
        rep.evaluations += c[0];
        acc += c[1];
        rej += c[2];
        pan += c[3];
        if space_per_decoder[d] == 0 {
            rep.machinery_error(format!("decoder {} has an empty input space", DECODERS[d].name));
        }
    }
    rep.extra("per_decoder", Value::Object(per_decoder));
    rep.outcome_n("accepted", acc);
    rep.outcome_n("rejected", rej);
    if pan > 0 {
        rep.outcome_n("panicked", pan);
    }
    let real_deaths: Vec<_> = res.deaths.iter().filter(|d| d.index != u64::MAX).collect();
    rep.evaluations += real_deaths.len() as u64;
    rep.add_extra("honest_round_trips_ok", counters.iter().map(|c| c[4]).sum());
    for d in res.deaths.iter().filter(|d| d.index == u64::MAX) {
        rep.machinery_error(format!("a worker died outside an item ({}): {}", d.status, d.stderr_tail));
    }
    if res.processed != sp.total {
        rep.exhaustive = false;
        rep.extra("processed", json!(res.processed));
    }

    // findings
    let tier = ctx.tier.as_str();
    let mut findings: Vec<Finding> = vec![];
    let mut locations: BTreeMap<String, u64> = BTreeMap::new();
    let describe = |idx: u64, inp: &space::Input<'_>, what: &str| {
        let d = &DECODERS[inp.seg.decoder];
        format!(
            "decoder {} ({}) on input {} ({} bytes; space index {idx}: {} #{}) {what}",
            d.name,
            d.entry_points,
            short_hex(&inp.bytes, 96),
            inp.bytes.len(),
            inp.seg.label,
            inp.k
        )
    };
    for (idx, line) in &res.lines {
        let l: Value = serde_json::from_str(line).unwrap_or(Value::Null);
        let Some(class) = l["c"].as_str() else { continue };
        if *idx >= sp.total {
            continue;
        }
        let inp = sp.input(*idx);
        let loc = l["loc"].as_str().unwrap_or("");
        if !loc.is_empty() {
            *locations.entry(format!("{} @ {loc}", l["msg"].as_str().unwrap_or(""))).or_insert(0) += 1;
        }
        let site = if class == "roundtrip-mismatch" { inp.seg.site.to_string() } else { site_from_location(loc).unwrap_or(inp.site().to_string()) };
        let what = if loc.is_empty() { l["msg"].as_str().unwrap_or("").to_string() } else { format!("{} at {loc}", l["msg"].as_str().unwrap_or("")) };
        findings.push(Finding {
            key: format!("C05/{class}:{site}"),
            bytes_len: inp.bytes.len(),
            what: describe(*idx, &inp, &what),
            replay: replay_value(DECODERS[inp.seg.decoder].name, &site, &inp.bytes, tier, Some(*idx)),
            bytes: if inp.bytes.len() <= 4096 { inp.bytes } else { vec![] },
        });
    }
    // A watchdog death is the only timing-dependent verdict (the watchdog reads the wall clock, and
    // the machine is shared): it is re-run alone and reported only when it does not return again.
    let (mut confirmations, mut reproduced) = (0usize, 0usize);
    let mut spurious = 0u64;
    for d in real_deaths {
        if d.status.starts_with("exit Some(3)") {
            // the decode thread of the worker panicked outside the decoder: a bug of this harness
            rep.machinery_error(format!("worker failed at space index {} outside the code under test: {}", d.index, d.stderr_tail));
            continue;
        }
        let inp = sp.input(d.index);
        if d.status.starts_with("hang") && (confirmations < 4 || reproduced == 0) {
            confirmations += 1;
            let again = run_alone(ctx, DECODERS[inp.seg.decoder].name, &inp.bytes);
            if !again.deaths.is_empty() {
                reproduced += 1;
            } else {
                spurious += 1;
                // the verdict of the re-run stands for this input
                for (_, line) in &again.lines {
                    let l: Value = serde_json::from_str(line).unwrap_or(Value::Null);
                    rep.outcome(if l["accepted"].as_bool() == Some(true) { "accepted" } else { "rejected" });
                    if let Some(class) = l["c"].as_str() {
                        let loc = l["loc"].as_str().unwrap_or("");
                        let site = site_from_location(loc).unwrap_or(inp.site().to_string());
                        findings.push(Finding {
                            key: format!("C05/{class}:{site}"),
                            bytes_len: inp.bytes.len(),
                            what: describe(d.index, &inp, &format!("{} at {loc}", l["msg"].as_str().unwrap_or(""))),
                            replay: replay_value(DECODERS[inp.seg.decoder].name, &site, &inp.bytes, tier, Some(d.index)),
                            bytes: vec![],
                        });
                    }
                }
                continue;
            }
        }
        let (class, what) = death_class(&d.status, &d.stderr_tail);
        let site = inp.site().to_string();
        rep.outcome(if class == "hang" { "did-not-return" } else { "process-died" });
        findings.push(Finding {
            key: format!("C05/{class}:{site}"),
            bytes_len: inp.bytes.len(),
            what: describe(d.index, &inp, &what),
            replay: replay_value(DECODERS[inp.seg.decoder].name, &site, &inp.bytes, tier, Some(d.index)),
            bytes: if inp.bytes.len() <= 4096 { inp.bytes } else { vec![] },
        });
    }
    if !locations.is_empty() {
        rep.extra("panic_locations", json!(locations));
    }
    if spurious > 0 {
        rep.extra("watchdog_deaths_not_reproduced_when_run_alone", json!(spurious));
    }
    // smallest input first within each key
    findings.sort_by(|a, b| (&a.key, a.bytes_len, &a.bytes).cmp(&(&b.key, b.bytes_len, &b.bytes)));
    for f in findings {
        rep.violation(&f.key, f.what, f.replay);
    }

    // a few actual cases
    for name in ["stm/aggregate-signature.bytes", "key/multi-signature.text", "merkle/mk-map-proof.bytes", "message/certificate.json"] {
        let d = decoders::index_of(name).unwrap();
        let mut start = 0u64;
        for s in &sp.segs {
            if s.decoder == d && s.count > 3 && s.derived {
                let k = s.count / 2;
                let b = (s.generate)(k);
                rep.sample(json!({"decoder": name, "segment": s.label, "element": k, "space_index": start + k, "input": short_hex(&b, 80), "input_len": b.len()}));
                break;
            }
            start += s.count;
        }
    }
    let _ = std::io::stderr().flush();
    rep.finish(ctx)
}
