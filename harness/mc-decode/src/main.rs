//! mc-decode: serves C05 (see /verif/DESIGN.md §4)
mod c05;

fn main() {
    let ctx = mc_core::Ctx::from_args();
    mc_core::quiet_panics();
    match ctx.property.as_str() {
        "C05" => c05::run(&ctx),
        other => {
            eprintln!("mc-decode does not serve {other}");
            std::process::exit(2);
        }
    }
}
