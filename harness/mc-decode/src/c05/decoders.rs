//! The decoder table: every public decoding entry point of the wire types of C05.
//!
//! A decoder takes the raw input (bytes, or UTF-8 text for the hex / JSON entry points) and returns
//! `Ok(canonical re-encoding of the decoded value)` or `Err(message)`. Entry points that are thin
//! wrappers of each other are driven together on the same input (their list is in `entry_points`).

use mithril_common::crypto_helper::{
    MKMapProof, MKProof, OpCert, ProtocolKey, ProtocolKeyCodec, SerDeShelleyFileFormat, TryFromBytes, TryToBytes,
};
use mithril_common::entities::{
    BlockRange, CardanoBlock, CardanoTransaction, CardanoTransactionsSetProof, Certificate, MkSetProof, SignedEntityType,
    Signer, SignerWithStake, SingleSignature as SingleSignatureEntity, SingleSignatureAuthenticationStatus,
};
use mithril_common::messages::{
    CardanoBlockMessagePart, CardanoBlocksProofsMessage, CardanoTransactionMessagePart, CardanoTransactionsProofsMessage,
    CardanoTransactionsProofsV2Message, CardanoTransactionsSetProofMessagePart, CertificateMessage,
    MithrilStakeDistributionMessage, MkSetProofMessagePart, RegisterSignatureMessageDmq, RegisterSignatureMessageHttp,
    RegisterSignerMessage, SignerMessagePart, SignerWithStakeMessagePart,
};
use mithril_stm::{
    AggregateSignature, AggregateVerificationKeyForConcatenation, AncillaryProverData, AncillaryVerifierData,
    ClosedRegistrationEntry, Initializer, Parameters, SingleSignature, SingleSignatureWithRegisteredParty,
    VerificationKeyForConcatenation, VerificationKeyProofOfPossessionForConcatenation,
};
use serde::Serialize;
use serde::de::DeserializeOwned;

use super::honest::D;

pub type R = Result<Vec<u8>, String>;

pub struct Decoder {
    pub name: &'static str,
    /// the real functions driven by `run`, in call order
    pub entry_points: &'static str,
    /// input is UTF-8 text (hex string / JSON document)
    pub text: bool,
    pub run: fn(&[u8]) -> R,
}

fn es<E: std::fmt::Display>(e: E) -> String {
    let s = e.to_string();
    if s.len() > 160 { s.chars().take(160).collect() } else { s }
}

fn text(b: &[u8]) -> Result<&str, String> {
    std::str::from_utf8(b).map_err(|_| "harness: input is not UTF-8 (not a possible &str)".to_string())
}

/// canonical JSON of a value: through `serde_json::Value`, so that two equal values give equal
/// bytes whatever the order in which their keys were written
pub fn json<T: Serialize>(t: &T) -> Vec<u8> {
    match serde_json::to_value(t) {
        Ok(v) => serde_json::to_vec(&v).expect("value to json"),
        Err(e) => format!("unencodable: {e}").into_bytes(),
    }
}

fn bytes_of<T>(r: anyhow::Result<Vec<u8>>, _t: &T) -> Vec<u8> {
    r.unwrap_or_else(|e| format!("unencodable: {e}").into_bytes())
}

// ---- mithril-stm binary ----------------------------------------------------------------------

pub fn canon_single_signature(v: &SingleSignature) -> Vec<u8> {
    bytes_of(v.to_bytes(), v)
}
fn stm_single_signature(b: &[u8]) -> R {
    let r = SingleSignature::from_bytes::<D>(b);
    let _ = ProtocolKey::<SingleSignature>::from_bytes(b);
    r.map(|v| canon_single_signature(&v)).map_err(es)
}

pub fn canon_sig_reg_party(v: &SingleSignatureWithRegisteredParty) -> Vec<u8> {
    bytes_of(v.to_bytes(), v)
}
fn stm_sig_reg_party(b: &[u8]) -> R {
    let r = SingleSignatureWithRegisteredParty::from_bytes::<D>(b);
    let _ = <SingleSignatureWithRegisteredParty as TryFromBytes>::try_from_bytes(b);
    r.map(|v| canon_sig_reg_party(&v)).map_err(es)
}

pub fn canon_agg(v: &AggregateSignature<D>) -> Vec<u8> {
    bytes_of(v.to_bytes(), v)
}
fn stm_aggregate_signature(b: &[u8]) -> R {
    let r = AggregateSignature::<D>::from_bytes(b);
    let _ = ProtocolKey::<AggregateSignature<D>>::from_bytes(b);
    r.map(|v| canon_agg(&v)).map_err(es)
}

pub fn canon_avk(v: &AggregateVerificationKeyForConcatenation<D>) -> Vec<u8> {
    bytes_of(v.to_bytes(), v)
}
fn stm_avk(b: &[u8]) -> R {
    let r = AggregateVerificationKeyForConcatenation::<D>::from_bytes(b);
    let _ = ProtocolKey::<AggregateVerificationKeyForConcatenation<D>>::from_bytes(b);
    r.map(|v| canon_avk(&v)).map_err(es)
}

fn stm_vk(b: &[u8]) -> R {
    let r = VerificationKeyForConcatenation::from_bytes(b);
    let _ = <VerificationKeyForConcatenation as TryFromBytes>::try_from_bytes(b);
    r.map(|v| v.to_bytes().to_vec()).map_err(es)
}

fn stm_vkpop(b: &[u8]) -> R {
    let r = VerificationKeyProofOfPossessionForConcatenation::from_bytes(b);
    let _ = ProtocolKey::<VerificationKeyProofOfPossessionForConcatenation>::from_bytes(b);
    r.map(|v| v.to_bytes().to_vec()).map_err(es)
}

pub fn canon_params(v: &Parameters) -> Vec<u8> {
    bytes_of(v.to_bytes(), v)
}
fn stm_parameters(b: &[u8]) -> R {
    let r = Parameters::from_bytes(b);
    let _ = <Parameters as TryFromBytes>::try_from_bytes(b);
    r.map(|v| canon_params(&v)).map_err(es)
}

pub fn canon_initializer(v: &Initializer) -> Vec<u8> {
    bytes_of(v.to_bytes(), v)
}
fn stm_initializer(b: &[u8]) -> R {
    let r = Initializer::from_bytes(b);
    let _ = <Initializer as TryFromBytes>::try_from_bytes(b);
    r.map(|v| canon_initializer(&v)).map_err(es)
}

fn stm_ancillary(b: &[u8]) -> R {
    let a = AncillaryProverData::from_bytes(b);
    let v = AncillaryVerifierData::from_bytes(b);
    let _ = ProtocolKey::<AncillaryProverData>::from_bytes(b);
    let _ = ProtocolKey::<AncillaryVerifierData>::from_bytes(b);
    match (a, v) {
        (Ok(x), _) => Ok(bytes_of(x.to_bytes(), &x)),
        (_, Ok(x)) => Ok(bytes_of(x.to_bytes(), &x)),
        (Err(e), _) => Err(es(e)),
    }
}

// ---- serde (JSON) of the STM types -------------------------------------------------------------

fn serde_json_of<T: DeserializeOwned + Serialize>(b: &[u8]) -> R {
    serde_json::from_slice::<T>(b).map(|v| json(&v)).map_err(es)
}

fn json_single_signature(b: &[u8]) -> R {
    serde_json_of::<SingleSignature>(b)
}
fn json_sig_reg_party(b: &[u8]) -> R {
    serde_json_of::<SingleSignatureWithRegisteredParty>(b)
}
fn json_aggregate_signature(b: &[u8]) -> R {
    serde_json_of::<AggregateSignature<D>>(b)
}
fn json_avk(b: &[u8]) -> R {
    serde_json_of::<AggregateVerificationKeyForConcatenation<D>>(b)
}
fn json_vkpop(b: &[u8]) -> R {
    let _ = serde_json::from_slice::<VerificationKeyForConcatenation>(b);
    serde_json_of::<VerificationKeyProofOfPossessionForConcatenation>(b)
}
fn json_parameters(b: &[u8]) -> R {
    serde_json_of::<Parameters>(b)
}
fn json_closed_registration_entry(b: &[u8]) -> R {
    serde_json_of::<ClosedRegistrationEntry>(b)
}
fn json_initializer(b: &[u8]) -> R {
    serde_json_of::<Initializer>(b)
}

// ---- Merkle proofs (bincode / JSON) -----------------------------------------------------------

pub fn canon_mkproof(v: &MKProof) -> Vec<u8> {
    bytes_of(v.to_bytes(), v)
}
fn mk_proof_bytes(b: &[u8]) -> R {
    let r = MKProof::from_bytes(b);
    let _ = ProtocolKey::<MKProof>::from_bytes(b);
    r.map(|v| canon_mkproof(&v)).map_err(es)
}
pub fn canon_mkmapproof(v: &MKMapProof<BlockRange>) -> Vec<u8> {
    bytes_of(v.to_bytes(), v)
}
fn mk_map_proof_bytes(b: &[u8]) -> R {
    let r = MKMapProof::<BlockRange>::from_bytes(b);
    let _ = ProtocolKey::<MKMapProof<BlockRange>>::from_bytes(b);
    r.map(|v| canon_mkmapproof(&v)).map_err(es)
}
fn json_mk_proof(b: &[u8]) -> R {
    serde_json::from_slice::<MKProof>(b).map(|v| canon_mkproof(&v)).map_err(es)
}
fn json_mk_map_proof(b: &[u8]) -> R {
    serde_json::from_slice::<MKMapProof<BlockRange>>(b).map(|v| canon_mkmapproof(&v)).map_err(es)
}

// ---- ProtocolKey<T> text entry points -----------------------------------------------------------

pub fn canon_key<T>(k: &ProtocolKey<T>) -> Vec<u8>
where
    T: Serialize + DeserializeOwned + TryToBytes + TryFromBytes,
{
    match k.to_json_hex() {
        Ok(s) => s.into_bytes(),
        Err(e) => format!("unencodable: {e}").into_bytes(),
    }
}

/// `TryFrom<&str>` (= `decode_key`, both codec orders), `TryFrom<String>`, `from_json_hex`,
/// `from_bytes_hex` and `Deserialize` (from a JSON string) on the same text
fn key_text<T>(b: &[u8]) -> R
where
    T: ProtocolKeyCodec<T> + Serialize + DeserializeOwned + TryToBytes + TryFromBytes,
{
    let s = text(b)?;
    let r = ProtocolKey::<T>::try_from(s);
    let _ = ProtocolKey::<T>::from_json_hex(s);
    let _ = ProtocolKey::<T>::from_bytes_hex(s);
    let _ = serde_json::from_value::<ProtocolKey<T>>(serde_json::Value::String(s.to_string()));
    r.map(|k| canon_key(&k)).map_err(es)
}

fn key_vkpop(b: &[u8]) -> R {
    key_text::<VerificationKeyProofOfPossessionForConcatenation>(b)
}
fn key_kes_signature(b: &[u8]) -> R {
    key_text::<kes_summed_ed25519::kes::Sum6KesSig>(b)
}
fn key_single_signature(b: &[u8]) -> R {
    key_text::<SingleSignature>(b)
}
fn key_aggregate_signature(b: &[u8]) -> R {
    key_text::<AggregateSignature<D>>(b)
}
fn key_opcert(b: &[u8]) -> R {
    key_text::<OpCert>(b)
}
fn key_avk(b: &[u8]) -> R {
    key_text::<AggregateVerificationKeyForConcatenation<D>>(b)
}
fn key_mk_proof(b: &[u8]) -> R {
    key_text::<MKProof>(b)
}
fn key_ed25519_verification_key(b: &[u8]) -> R {
    key_text::<ed25519_dalek::VerifyingKey>(b)
}
fn key_ed25519_signature(b: &[u8]) -> R {
    key_text::<ed25519_dalek::Signature>(b)
}
fn key_ancillary(b: &[u8]) -> R {
    let a = key_text::<AncillaryProverData>(b);
    let _ = key_text::<AncillaryVerifierData>(b);
    a
}
/// `ProtocolMkProof` has no codec: only the two explicit constructors exist
fn key_mk_map_proof(b: &[u8]) -> R {
    let s = text(b)?;
    let a = ProtocolKey::<MKMapProof<BlockRange>>::from_bytes_hex(s);
    let j = ProtocolKey::<MKMapProof<BlockRange>>::from_json_hex(s);
    match (a, j) {
        (Ok(k), _) | (_, Ok(k)) => Ok(canon_mkmapproof(&k)),
        (Err(e), _) => Err(es(e)),
    }
}

// ---- other binary wire forms of mithril-common ---------------------------------------------------

pub fn canon_opcert(v: &OpCert) -> Vec<u8> {
    v.to_cbor_bytes().unwrap_or_else(|e| format!("unencodable: {e}").into_bytes())
}
fn opcert_bytes(b: &[u8]) -> R {
    let r = OpCert::from_cbor_bytes(b);
    let _ = ProtocolKey::<OpCert>::from_bytes(b);
    let _ = mithril_common::crypto_helper::OpCertWithoutColdVerificationKey::from_cbor_bytes(b);
    if let Ok(s) = std::str::from_utf8(b) {
        let _ = OpCert::from_cbor_hex(s);
    }
    r.map(|v| canon_opcert(&v)).map_err(es)
}
fn kes_signature_bytes(b: &[u8]) -> R {
    ProtocolKey::<kes_summed_ed25519::kes::Sum6KesSig>::from_bytes(b).map(|k| k.to_bytes().to_vec()).map_err(es)
}
fn ed25519_bytes(b: &[u8]) -> R {
    let _ = ProtocolKey::<ed25519_dalek::VerifyingKey>::from_bytes(b);
    ProtocolKey::<ed25519_dalek::Signature>::from_bytes(b).map(|k| k.to_bytes().to_vec()).map_err(es)
}
pub fn canon_dmq(v: &RegisterSignatureMessageDmq) -> Vec<u8> {
    v.try_to_bytes_vec().unwrap_or_else(|e| format!("unencodable: {e}").into_bytes())
}
fn register_signature_dmq_bytes(b: &[u8]) -> R {
    let r = RegisterSignatureMessageDmq::try_from_bytes_vec(b);
    let _ = <RegisterSignatureMessageDmq as TryFromBytes>::try_from_bytes(b);
    let _ = SignedEntityType::try_from_bytes(b);
    r.map(|v| canon_dmq(&v)).map_err(es)
}

// ---- JSON messages -> entities -----------------------------------------------------------------
// `conv_*` is the conversion applied to an already deserialised message; `msg_*` = serde_json + conv.

pub fn conv_certificate(m: CertificateMessage) -> R {
    let c = Certificate::try_from(m).map_err(es)?;
    match CertificateMessage::try_from(c) {
        Ok(m) => Ok(json(&m)),
        Err(e) => Ok(format!("unencodable: {e}").into_bytes()),
    }
}
fn msg_certificate(b: &[u8]) -> R {
    conv_certificate(serde_json::from_slice(b).map_err(es)?)
}

pub fn conv_register_signer(m: RegisterSignerMessage) -> R {
    // the conversion of mithril-aggregator's FromRegisterSignerAdapter, field by field
    let signer = Signer {
        party_id: m.party_id,
        verification_key_for_concatenation: m.verification_key_for_concatenation.try_into().map_err(es)?,
        verification_key_signature_for_concatenation: m
            .verification_key_signature_for_concatenation
            .map(|s| s.try_into())
            .transpose()
            .map_err(es)?,
        operational_certificate: m.operational_certificate.map(|s| s.try_into()).transpose().map_err(es)?,
        kes_evolutions: m.kes_evolutions,
    };
    Ok(json(&signer))
}
fn msg_register_signer(b: &[u8]) -> R {
    conv_register_signer(serde_json::from_slice(b).map_err(es)?)
}

pub fn conv_signers_with_stake(v: Vec<SignerWithStakeMessagePart>) -> R {
    SignerWithStakeMessagePart::try_into_signers(v).map(|v| json::<Vec<SignerWithStake>>(&v)).map_err(es)
}
pub fn conv_signers(v: Vec<SignerMessagePart>) -> R {
    SignerMessagePart::try_into_signers(v).map(|v| json::<Vec<Signer>>(&v)).map_err(es)
}
fn msg_signer_parts(b: &[u8]) -> R {
    // a JSON array of signers is what epoch-settings messages carry
    let with_stake = serde_json::from_slice::<Vec<SignerWithStakeMessagePart>>(b).map_err(es).and_then(conv_signers_with_stake);
    let plain = serde_json::from_slice::<Vec<SignerMessagePart>>(b).map_err(es).and_then(conv_signers);
    match (with_stake, plain) {
        (Ok(v), _) => Ok(v),
        (_, Ok(v)) => Ok(v),
        (Err(e), _) => Err(e),
    }
}

pub fn conv_mithril_stake_distribution(m: MithrilStakeDistributionMessage) -> R {
    conv_signers_with_stake(m.signers_with_stake)
}
fn msg_mithril_stake_distribution(b: &[u8]) -> R {
    conv_mithril_stake_distribution(serde_json::from_slice(b).map_err(es)?)
}

pub fn conv_register_signature_http(m: RegisterSignatureMessageHttp) -> R {
    // the conversion of mithril-aggregator's FromRegisterSingleSignatureAdapter
    let _entity_type: Result<SignedEntityType, _> = m.signed_entity_type.clone().try_into();
    let s = SingleSignatureEntity {
        party_id: m.party_id,
        signature: m.signature.try_into().map_err(es)?,
        won_indexes: m.won_indexes,
        authentication_status: SingleSignatureAuthenticationStatus::Unauthenticated,
    };
    Ok(json(&s))
}
fn msg_register_signature_http(b: &[u8]) -> R {
    conv_register_signature_http(serde_json::from_slice(b).map_err(es)?)
}

pub fn conv_transactions_proofs_v1(m: CardanoTransactionsProofsMessage) -> R {
    let mut out = vec![];
    for part in m.certified_transactions {
        let p: CardanoTransactionsSetProof = part.try_into().map_err(es)?;
        let back: CardanoTransactionsSetProofMessagePart = p.try_into().map_err(es)?;
        out.push(back);
    }
    Ok(json(&out))
}
fn msg_transactions_proofs_v1(b: &[u8]) -> R {
    conv_transactions_proofs_v1(serde_json::from_slice(b).map_err(es)?)
}

pub fn conv_transactions_proofs_v2(m: CardanoTransactionsProofsV2Message) -> R {
    match m.certified_transactions {
        None => Ok(b"none".to_vec()),
        Some(part) => {
            let p: MkSetProof<CardanoTransaction> = part.try_into().map_err(es)?;
            let back: MkSetProofMessagePart<CardanoTransactionMessagePart> = p.try_into().map_err(es)?;
            Ok(json(&back))
        }
    }
}
fn msg_transactions_proofs_v2(b: &[u8]) -> R {
    conv_transactions_proofs_v2(serde_json::from_slice(b).map_err(es)?)
}

pub fn conv_blocks_proofs_v2(m: CardanoBlocksProofsMessage) -> R {
    match m.certified_blocks {
        None => Ok(b"none".to_vec()),
        Some(part) => {
            let p: MkSetProof<CardanoBlock> = part.try_into().map_err(es)?;
            let back: MkSetProofMessagePart<CardanoBlockMessagePart> = p.try_into().map_err(es)?;
            Ok(json(&back))
        }
    }
}
fn msg_blocks_proofs_v2(b: &[u8]) -> R {
    conv_blocks_proofs_v2(serde_json::from_slice(b).map_err(es)?)
}

pub const DECODERS: &[Decoder] = &[
    Decoder { name: "stm/single-signature.bytes", entry_points: "SingleSignature::from_bytes, ProtocolKey<SingleSignature>::from_bytes", text: false, run: stm_single_signature },
    Decoder { name: "stm/single-signature-with-registered-party.bytes", entry_points: "SingleSignatureWithRegisteredParty::from_bytes (reaches ClosedRegistrationEntry::from_bytes), TryFromBytes::try_from_bytes", text: false, run: stm_sig_reg_party },
    Decoder { name: "stm/aggregate-signature.bytes", entry_points: "AggregateSignature::from_bytes (reaches ConcatenationProof::from_bytes, MerkleBatchPath::from_bytes), ProtocolKey<AggregateSignature>::from_bytes", text: false, run: stm_aggregate_signature },
    Decoder { name: "stm/aggregate-verification-key.bytes", entry_points: "AggregateVerificationKeyForConcatenation::from_bytes (reaches MerkleTreeBatchCommitment::from_bytes), ProtocolKey<..>::from_bytes", text: false, run: stm_avk },
    Decoder { name: "stm/verification-key.bytes", entry_points: "VerificationKeyForConcatenation::from_bytes, TryFromBytes::try_from_bytes", text: false, run: stm_vk },
    Decoder { name: "stm/verification-key-pop.bytes", entry_points: "VerificationKeyProofOfPossessionForConcatenation::from_bytes, ProtocolKey<..>::from_bytes", text: false, run: stm_vkpop },
    Decoder { name: "stm/parameters.bytes", entry_points: "Parameters::from_bytes, TryFromBytes::try_from_bytes", text: false, run: stm_parameters },
    Decoder { name: "stm/initializer.bytes", entry_points: "Initializer::from_bytes, TryFromBytes::try_from_bytes", text: false, run: stm_initializer },
    Decoder { name: "stm/ancillary-data.bytes", entry_points: "AncillaryProverData::from_bytes, AncillaryVerifierData::from_bytes, ProtocolKey<..>::from_bytes", text: false, run: stm_ancillary },
    Decoder { name: "stm/single-signature.json", entry_points: "<SingleSignature as Deserialize> via serde_json", text: false, run: json_single_signature },
    Decoder { name: "stm/single-signature-with-registered-party.json", entry_points: "<SingleSignatureWithRegisteredParty as Deserialize> via serde_json", text: false, run: json_sig_reg_party },
    Decoder { name: "stm/aggregate-signature.json", entry_points: "<AggregateSignature as Deserialize> via serde_json", text: false, run: json_aggregate_signature },
    Decoder { name: "stm/aggregate-verification-key.json", entry_points: "<AggregateVerificationKeyForConcatenation as Deserialize> via serde_json", text: false, run: json_avk },
    Decoder { name: "stm/verification-key-pop.json", entry_points: "<VerificationKeyProofOfPossessionForConcatenation as Deserialize>, <VerificationKeyForConcatenation as Deserialize> via serde_json", text: false, run: json_vkpop },
    Decoder { name: "stm/parameters.json", entry_points: "<Parameters as Deserialize> via serde_json", text: false, run: json_parameters },
    Decoder { name: "stm/closed-registration-entry.json", entry_points: "<ClosedRegistrationEntry as Deserialize> via serde_json", text: false, run: json_closed_registration_entry },
    Decoder { name: "stm/initializer.json", entry_points: "<Initializer as Deserialize> via serde_json", text: false, run: json_initializer },
    Decoder { name: "merkle/mk-proof.bytes", entry_points: "MKProof::from_bytes (bincode), ProtocolKey<MKProof>::from_bytes", text: false, run: mk_proof_bytes },
    Decoder { name: "merkle/mk-map-proof.bytes", entry_points: "MKMapProof<BlockRange>::from_bytes (bincode), ProtocolMkProof::from_bytes", text: false, run: mk_map_proof_bytes },
    Decoder { name: "merkle/mk-proof.json", entry_points: "<MKProof as Deserialize> via serde_json", text: false, run: json_mk_proof },
    Decoder { name: "merkle/mk-map-proof.json", entry_points: "<MKMapProof<BlockRange> as Deserialize> via serde_json", text: false, run: json_mk_map_proof },
    Decoder { name: "key/signer-verification-key.text", entry_points: "ProtocolKey<VerificationKeyProofOfPossessionForConcatenation>::{try_from(&str), from_json_hex, from_bytes_hex, Deserialize}", text: true, run: key_vkpop },
    Decoder { name: "key/kes-signature.text", entry_points: "ProtocolKey<Sum6KesSig>::{try_from(&str), from_json_hex, from_bytes_hex, Deserialize}", text: true, run: key_kes_signature },
    Decoder { name: "key/single-signature.text", entry_points: "ProtocolKey<SingleSignature>::{try_from(&str), from_json_hex, from_bytes_hex, Deserialize}", text: true, run: key_single_signature },
    Decoder { name: "key/multi-signature.text", entry_points: "ProtocolKey<AggregateSignature>::{try_from(&str), from_json_hex, from_bytes_hex, Deserialize}", text: true, run: key_aggregate_signature },
    Decoder { name: "key/operational-certificate.text", entry_points: "ProtocolKey<OpCert>::{try_from(&str), from_json_hex, from_bytes_hex, Deserialize}", text: true, run: key_opcert },
    Decoder { name: "key/aggregate-verification-key.text", entry_points: "ProtocolKey<AggregateVerificationKeyForConcatenation>::{try_from(&str), from_json_hex, from_bytes_hex, Deserialize}", text: true, run: key_avk },
    Decoder { name: "key/mk-proof.text", entry_points: "ProtocolKey<MKProof>::{try_from(&str), from_json_hex, from_bytes_hex, Deserialize}", text: true, run: key_mk_proof },
    Decoder { name: "key/mk-map-proof.text", entry_points: "ProtocolMkProof::{from_bytes_hex, from_json_hex}", text: true, run: key_mk_map_proof },
    Decoder { name: "key/ed25519-verification-key.text", entry_points: "ProtocolKey<ed25519 VerifyingKey>::{try_from(&str), from_json_hex, from_bytes_hex, Deserialize}", text: true, run: key_ed25519_verification_key },
    Decoder { name: "key/ed25519-signature.text", entry_points: "ProtocolKey<ed25519 Signature>::{try_from(&str), from_json_hex, from_bytes_hex, Deserialize}", text: true, run: key_ed25519_signature },
    Decoder { name: "key/ancillary-data.text", entry_points: "ProtocolKey<AncillaryProverData|AncillaryVerifierData>::{try_from(&str), from_json_hex, from_bytes_hex, Deserialize}", text: true, run: key_ancillary },
    Decoder { name: "common/operational-certificate.bytes", entry_points: "OpCert::from_cbor_bytes, OpCertWithoutColdVerificationKey::from_cbor_bytes, OpCert::from_cbor_hex, ProtocolKey<OpCert>::from_bytes", text: false, run: opcert_bytes },
    Decoder { name: "common/kes-signature.bytes", entry_points: "ProtocolKey<Sum6KesSig>::from_bytes", text: false, run: kes_signature_bytes },
    Decoder { name: "common/ed25519.bytes", entry_points: "ProtocolKey<ed25519 Signature>::from_bytes, ProtocolKey<ed25519 VerifyingKey>::from_bytes", text: false, run: ed25519_bytes },
    Decoder { name: "common/register-signature-dmq.bytes", entry_points: "RegisterSignatureMessageDmq::try_from_bytes_vec, SignedEntityType::try_from_bytes (bincode)", text: false, run: register_signature_dmq_bytes },
    Decoder { name: "message/certificate.json", entry_points: "<CertificateMessage as Deserialize>, Certificate::try_from(CertificateMessage)", text: false, run: msg_certificate },
    Decoder { name: "message/register-signer.json", entry_points: "<RegisterSignerMessage as Deserialize> + the field conversions of FromRegisterSignerAdapter (ProtocolKey::try_from(String))", text: false, run: msg_register_signer },
    Decoder { name: "message/signers.json", entry_points: "<Vec<SignerWithStakeMessagePart>|Vec<SignerMessagePart> as Deserialize>, try_into_signers", text: false, run: msg_signer_parts },
    Decoder { name: "message/mithril-stake-distribution.json", entry_points: "<MithrilStakeDistributionMessage as Deserialize>, SignerWithStakeMessagePart::try_into_signers", text: false, run: msg_mithril_stake_distribution },
    Decoder { name: "message/register-signature-http.json", entry_points: "<RegisterSignatureMessageHttp as Deserialize> + the conversion of FromRegisterSingleSignatureAdapter", text: false, run: msg_register_signature_http },
    Decoder { name: "message/cardano-transactions-proofs-v1.json", entry_points: "<CardanoTransactionsProofsMessage as Deserialize>, CardanoTransactionsSetProof::try_from(part) (ProtocolMkProof::from_json_hex)", text: false, run: msg_transactions_proofs_v1 },
    Decoder { name: "message/cardano-transactions-proofs-v2.json", entry_points: "<CardanoTransactionsProofsV2Message as Deserialize>, MkSetProof<CardanoTransaction>::try_from(part) (ProtocolMkProof::from_bytes_hex)", text: false, run: msg_transactions_proofs_v2 },
    Decoder { name: "message/cardano-blocks-proofs-v2.json", entry_points: "<CardanoBlocksProofsMessage as Deserialize>, MkSetProof<CardanoBlock>::try_from(part) (ProtocolMkProof::from_bytes_hex)", text: false, run: msg_blocks_proofs_v2 },
];

pub fn index_of(name: &str) -> Option<usize> {
    DECODERS.iter().position(|d| d.name == name)
}
