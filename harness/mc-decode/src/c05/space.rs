//! The enumerated input space: a list of segments, each a finite indexed family of inputs for one
//! decoder. Input `i` of the space is regenerated from `i` alone (parent and workers agree).

use std::sync::Arc;

use mc_core::Tier;
use mithril_common::crypto_helper::{MKMap, MKMapNode, MKMapProof, MKProof, MKTree, MKTreeNode, MKTreeStoreInMemory, OpCert, ProtocolKey, TryToBytes};
use mithril_common::entities::BlockRange;
use mithril_common::messages::{
    CardanoBlocksProofsMessage, CardanoTransactionsProofsMessage, CardanoTransactionsProofsV2Message,
    CardanoTransactionsSetProofMessagePart, CertificateMessage, MithrilStakeDistributionMessage, RegisterSignatureMessageDmq,
    RegisterSignatureMessageHttp, RegisterSignerMessage, SignerMessagePart, SignerWithStakeMessagePart,
};
use mithril_common::test::double::{Dummy, fake_keys};
use mithril_stm::{AggregateSignature, AggregateVerificationKeyForConcatenation, Parameters, SingleSignature, VerificationKeyProofOfPossessionForConcatenation};
use serde_json::Value;

use super::decoders as dec;
use super::honest::{self as h, D, Enc, Form, StmWorld};
use super::mutate::{Blind, Fam, JsonPlan, Lvl, boundary_u64, repeat_input};

pub type Wrap = Arc<dyn Fn(&[u8]) -> Vec<u8> + Send + Sync>;

pub struct Segment {
    pub decoder: usize,
    /// innermost mutated component: classifier site of failures that carry no source location
    pub site: &'static str,
    /// the site when the mutated component no longer starts with the CBOR version byte (the
    /// decoders then dispatch it to the legacy parser of the same component)
    pub site_if_legacy_dispatch: Option<(&'static str, Box<dyn Fn(u64) -> bool + Send + Sync>)>,
    pub label: String,
    pub count: u64,
    pub generate: Box<dyn Fn(u64) -> Vec<u8> + Send + Sync>,
    /// expected canonical re-encoding (honest inputs only)
    pub honest: Option<Vec<u8>>,
    /// derived from an honest encoding (structure-aware), as opposed to blind strings
    pub derived: bool,
}

pub struct Space {
    pub segs: Vec<Segment>,
    starts: Vec<u64>,
    pub total: u64,
}

pub struct Input<'a> {
    pub seg: &'a Segment,
    pub k: u64,
    pub bytes: Vec<u8>,
}

impl Input<'_> {
    pub fn site(&self) -> &'static str {
        match &self.seg.site_if_legacy_dispatch {
            Some((alt, is_legacy)) if is_legacy(self.k) => alt,
            _ => self.seg.site,
        }
    }
}

impl Space {
    pub fn locate(&self, i: u64) -> (&Segment, u64) {
        let s = match self.starts.binary_search(&i) {
            Ok(x) => {
                // several empty segments may share a start: take the last one starting at i
                let mut x = x;
                while x + 1 < self.starts.len() && self.starts[x + 1] == i {
                    x += 1;
                }
                x
            }
            Err(x) => x - 1,
        };
        (&self.segs[s], i - self.starts[s])
    }
    pub fn input(&self, i: u64) -> Input<'_> {
        let (seg, k) = self.locate(i);
        Input { seg, k, bytes: (seg.generate)(k) }
    }
}

#[derive(Clone, Copy, PartialEq, Eq)]
pub enum Kind {
    Legacy,
    Cbor,
    Bincode,
    Json,
    Raw,
}

/// how hard a base is mutated
#[derive(Clone, Copy)]
pub struct Plan {
    pub lvl: Lvl,
    /// positions are taken every `stride_for(len)` bytes for the per-position families
    pub max_positions: usize,
    /// only the cheapest families
    pub light: bool,
}

impl Plan {
    fn stride(&self, len: usize) -> usize {
        if self.max_positions == 0 { 1 } else { len.div_ceil(self.max_positions).max(1) }
    }
    fn fams(&self, kind: Kind, base: &Enc) -> Vec<Fam> {
        let s = self.stride(base.bytes.len());
        let lvl = self.lvl;
        let full = lvl == Lvl::Full && !self.light;
        let mut f = vec![Fam::Identity];
        match kind {
            Kind::Legacy => {
                f.push(Fam::Trunc);
                f.push(Fam::Win { be: true, stride: s, lvl });
                if !self.light {
                    f.extend([Fam::Pos, Fam::Del, Fam::Ext]);
                }
                if full {
                    f.push(Fam::Ins);
                    if base.fields.len() >= 2 {
                        f.push(Fam::Fields2 { offsets: base.fields.iter().copied().take(8).collect() });
                    }
                }
            }
            Kind::Cbor => {
                f.push(Fam::Trunc);
                f.push(Fam::CborHead8 { stride: s, lvl });
                if !self.light {
                    f.extend([Fam::Pos, Fam::CborHeadMisc { stride: s }, Fam::Ext]);
                }
                if full {
                    f.extend([Fam::Win { be: true, stride: s, lvl }, Fam::Del, Fam::Ins]);
                }
            }
            Kind::Bincode => {
                f.push(Fam::Trunc);
                f.push(Fam::Varint { stride: s, lvl });
                if !self.light {
                    f.extend([Fam::Pos, Fam::Del, Fam::Ext]);
                }
                if full {
                    f.extend([Fam::Win { be: false, stride: s, lvl }, Fam::Win { be: true, stride: s, lvl }, Fam::Ins]);
                }
            }
            Kind::Json => {
                f.push(Fam::Json { lvl: if self.light { Lvl::Small } else { lvl } });
                if full {
                    f.push(Fam::Trunc);
                    // two simultaneous deviations, for documents small enough to square
                    if JsonPlan::for_pairs(&base.bytes).map(|p| p.count() <= 700).unwrap_or(false) {
                        f.push(Fam::Json2);
                    }
                }
            }
            Kind::Raw => {
                f.push(Fam::Trunc);
                if !self.light {
                    f.extend([Fam::Pos, Fam::Ext]);
                }
                if full {
                    f.extend([Fam::Del, Fam::Ins]);
                }
            }
        }
        f
    }
}

pub struct Tiering {
    pub tier: Tier,
    /// entry points fed directly
    pub direct: Plan,
    /// the same encodings reached through a wrapping entry point (hex key, JSON message field)
    pub wrapped: Plan,
    pub blind: Blind,
    /// blind strings behind a wrapping layer (hex key, JSON message field)
    pub blind_wrapped: Blind,
    pub bomb_depths: Vec<usize>,
    pub worlds: usize,
}

impl Tiering {
    pub fn new(tier: Tier) -> Tiering {
        match tier {
            Tier::Quick => Tiering {
                tier,
                direct: Plan { lvl: Lvl::Small, max_positions: 300, light: false },
                wrapped: Plan { lvl: Lvl::Small, max_positions: 80, light: true },
                blind: Blind { all_len: 2, alpha_len: 5 },
                blind_wrapped: Blind { all_len: 1, alpha_len: 4 },
                bomb_depths: vec![10, 300, 8_000, 20_000, 200_000],
                worlds: 1,
            },
            Tier::Thorough => Tiering {
                tier,
                direct: Plan { lvl: Lvl::Full, max_positions: 0, light: false },
                wrapped: Plan { lvl: Lvl::Small, max_positions: 600, light: false },
                blind: Blind { all_len: 2, alpha_len: 8 },
                blind_wrapped: Blind { all_len: 2, alpha_len: 6 },
                bomb_depths: vec![10, 100, 255, 256, 257, 1000, 3000, 10_000, 30_000, 100_000, 300_000, 1_000_000],
                worlds: 2,
            },
        }
    }
    pub fn describe(&self) -> Value {
        let p = |p: &Plan| serde_json::json!({"alphabet": format!("{:?}", p.lvl), "max_positions_per_base (0 = every position)": p.max_positions, "light": p.light});
        serde_json::json!({
            "direct_entry_points": p(&self.direct),
            "wrapped_entry_points": p(&self.wrapped),
            "blind_all_bytes_up_to_len": self.blind.all_len,
            "blind_5_value_alphabet_up_to_len": self.blind.alpha_len,
            "blind_behind_hex_or_json_field": {"all_bytes_up_to_len": self.blind_wrapped.all_len, "5_value_alphabet_up_to_len": self.blind_wrapped.alpha_len},
            "nesting_bomb_depths": self.bomb_depths,
            "stm_worlds": self.worlds,
        })
    }
}

struct Tgt {
    site: &'static str,
    label: String,
    kind: Kind,
    base: Enc,
    wrap: Wrap,
    /// Some(expected canon) when the unmutated base, wrapped, is an honest encoding
    honest: Option<Vec<u8>>,
}

fn id_wrap() -> Wrap {
    Arc::new(|x: &[u8]| x.to_vec())
}
fn hex_wrap() -> Wrap {
    Arc::new(|x: &[u8]| hex::encode(x).into_bytes())
}
fn compose(outer: &Wrap, inner: &Wrap) -> Wrap {
    let (o, i) = (outer.clone(), inner.clone());
    Arc::new(move |x: &[u8]| o(&i(x)))
}
fn raw(bytes: Vec<u8>) -> Enc {
    Enc { bytes, fields: vec![] }
}

fn site_of(node: &str, f: Form) -> &'static str {
    match (node, f) {
        ("A", Form::Cbor) | ("CP", Form::Cbor) => "aggregate-signature-cbor",
        ("A", Form::Legacy) | ("CP", Form::Legacy) => "aggregate-signature-legacy",
        ("SP", Form::Cbor) => "single-signature-with-registered-party-cbor",
        ("SP", Form::Legacy) => "single-signature-with-registered-party-legacy",
        ("S", Form::Cbor) => "single-signature-cbor",
        ("S", Form::Legacy) => "single-signature-legacy",
        ("R", Form::Cbor) => "closed-registration-entry-cbor",
        ("R", Form::Legacy) => "closed-registration-entry-legacy",
        ("BP", Form::Cbor) => "merkle-batch-path-cbor",
        ("BP", Form::Legacy) => "merkle-batch-path-legacy",
        ("AVK", Form::Cbor) => "aggregate-verification-key-cbor",
        ("AVK", Form::Legacy) => "aggregate-verification-key-legacy",
        _ => "unknown",
    }
}
fn legacy_sibling(site: &str) -> Option<&'static str> {
    Some(match site {
        "aggregate-signature-cbor" => "aggregate-signature-legacy",
        "single-signature-with-registered-party-cbor" => "single-signature-with-registered-party-legacy",
        "single-signature-cbor" => "single-signature-legacy",
        "closed-registration-entry-cbor" => "closed-registration-entry-legacy",
        "merkle-batch-path-cbor" => "merkle-batch-path-legacy",
        "aggregate-verification-key-cbor" => "aggregate-verification-key-legacy",
        "parameters-cbor" => "parameters-legacy",
        "initializer-cbor" => "initializer-legacy",
        _ => return None,
    })
}
fn kind_of(f: Form) -> Kind {
    match f {
        Form::Cbor => Kind::Cbor,
        Form::Legacy => Kind::Legacy,
    }
}

const FORMS: [Form; 2] = [Form::Cbor, Form::Legacy];

/// every node of the aggregate-signature encoding tree, in either form, inside ancestors/siblings
/// of either form; `wrap` rebuilds the whole aggregate signature around the (mutated) node
fn agg_targets(w: &StmWorld, canon: &[u8]) -> Vec<Tgt> {
    agg_targets_of(w.name, &w.agg_parts, canon)
}

fn agg_targets_of(name: &str, p: &h::AggParts, canon: &[u8]) -> Vec<Tgt> {
    let mut out = vec![];
    for f in FORMS {
        let (s0, r0) = (h::enc_s(&p.sps[0].0, f), h::enc_r(&p.sps[0].1, f));
        let sp_all: Vec<Vec<u8>> = p.sps.iter().map(|(s, r)| h::enc_sp(&h::enc_s(s, f).bytes, &h::enc_r(r, f).bytes, f).bytes).collect();
        let bp = h::enc_bp(&p.bp, f);
        let cp = h::enc_cp(&sp_all, &bp.bytes, f);
        let a = h::enc_a(&cp, f);
        out.push(Tgt {
            site: site_of("A", f),
            label: format!("{}/A:{}", name, f.name()),
            kind: kind_of(f),
            base: a,
            wrap: id_wrap(),
            honest: Some(canon.to_vec()),
        });
        for t in FORMS {
            let lab = |node: &str| format!("{}/{}:{} inside {}", name, node, t.name(), f.name());
            out.push(Tgt {
                site: site_of("CP", t),
                label: lab("CP"),
                kind: kind_of(t),
                base: h::enc_cp(&sp_all, &bp.bytes, t),
                wrap: Arc::new(move |x: &[u8]| h::enc_a(&raw(x.to_vec()), f).bytes),
                honest: None,
            });
            let spc = sp_all.clone();
            out.push(Tgt {
                site: site_of("BP", t),
                label: lab("BP"),
                kind: kind_of(t),
                base: h::enc_bp(&p.bp, t),
                wrap: Arc::new(move |x: &[u8]| h::enc_a(&h::enc_cp(&spc, x, f), f).bytes),
                honest: None,
            });
            let (spc, bpc) = (sp_all.clone(), bp.bytes.clone());
            let wrap_sp: Wrap = Arc::new(move |x: &[u8]| {
                let mut v = spc.clone();
                v[0] = x.to_vec();
                h::enc_a(&h::enc_cp(&v, &bpc, f), f).bytes
            });
            out.push(Tgt {
                site: site_of("SP", t),
                label: lab("SP0"),
                kind: kind_of(t),
                base: h::enc_sp(&s0.bytes, &r0.bytes, t),
                wrap: wrap_sp.clone(),
                honest: None,
            });
            let (r0c, ws) = (r0.bytes.clone(), wrap_sp.clone());
            out.push(Tgt {
                site: site_of("S", t),
                label: lab("S0"),
                kind: kind_of(t),
                base: h::enc_s(&p.sps[0].0, t),
                wrap: Arc::new(move |x: &[u8]| ws(&h::enc_sp(x, &r0c, f).bytes)),
                honest: None,
            });
            let (s0c, ws) = (s0.bytes.clone(), wrap_sp.clone());
            out.push(Tgt {
                site: site_of("R", t),
                label: lab("R0"),
                kind: kind_of(t),
                base: h::enc_r(&p.sps[0].1, t),
                wrap: Arc::new(move |x: &[u8]| ws(&h::enc_sp(&s0c, x, f).bytes)),
                honest: None,
            });
        }
    }
    out
}

/// the sub-tree below one single-signature-with-registered-party
fn sp_targets(w: &StmWorld, canon: &[u8]) -> Vec<Tgt> {
    let (sp, rp) = &w.agg_parts.sps[0];
    let mut out = vec![];
    for f in FORMS {
        let (s0, r0) = (h::enc_s(sp, f), h::enc_r(rp, f));
        out.push(Tgt {
            site: site_of("SP", f),
            label: format!("{}/SP:{}", w.name, f.name()),
            kind: kind_of(f),
            base: h::enc_sp(&s0.bytes, &r0.bytes, f),
            wrap: id_wrap(),
            honest: Some(canon.to_vec()),
        });
        for t in FORMS {
            let r0c = r0.bytes.clone();
            out.push(Tgt {
                site: site_of("S", t),
                label: format!("{}/S:{} inside {}", w.name, t.name(), f.name()),
                kind: kind_of(t),
                base: h::enc_s(sp, t),
                wrap: Arc::new(move |x: &[u8]| h::enc_sp(x, &r0c, f).bytes),
                honest: None,
            });
            let s0c = s0.bytes.clone();
            out.push(Tgt {
                site: site_of("R", t),
                label: format!("{}/R:{} inside {}", w.name, t.name(), f.name()),
                kind: kind_of(t),
                base: h::enc_r(rp, t),
                wrap: Arc::new(move |x: &[u8]| h::enc_sp(&s0c, x, f).bytes),
                honest: None,
            });
        }
    }
    out
}

fn s_targets(w: &StmWorld, which: usize, canon: &[u8]) -> Vec<Tgt> {
    let sp = h::sig_parts(&w.sigs[which].to_bytes().expect("sig bytes"));
    FORMS
        .iter()
        .map(|f| Tgt {
            site: site_of("S", *f),
            label: format!("{}/S{}:{}", w.name, which, f.name()),
            kind: kind_of(*f),
            base: h::enc_s(&sp, *f),
            wrap: id_wrap(),
            honest: Some(canon.to_vec()),
        })
        .collect()
}

fn avk_targets(w: &StmWorld, canon: &[u8]) -> Vec<Tgt> {
    FORMS
        .iter()
        .map(|f| Tgt {
            site: site_of("AVK", *f),
            label: format!("{}/AVK:{}", w.name, f.name()),
            kind: kind_of(*f),
            base: h::enc_avk(&w.avk_parts, *f),
            wrap: id_wrap(),
            honest: Some(canon.to_vec()),
        })
        .collect()
}

struct Builder {
    segs: Vec<Segment>,
    t: Tiering,
}

impl Builder {
    fn d(&self, name: &str) -> usize {
        dec::index_of(name).unwrap_or_else(|| panic!("no decoder {name}"))
    }

    fn push(&mut self, decoder: usize, site: &'static str, label: String, count: u64, honest: Option<Vec<u8>>, derived: bool, g: Box<dyn Fn(u64) -> Vec<u8> + Send + Sync>) {
        self.segs.push(Segment { decoder, site, site_if_legacy_dispatch: None, label, count, generate: g, honest, derived });
    }

    /// one segment per mutation family of the target
    fn target(&mut self, decoder: &str, tgt: &Tgt, outer: &Wrap, plan: Plan, honest_outer: bool) {
        let d = self.d(decoder);
        let wrap = compose(outer, &tgt.wrap);
        for fam in plan.fams(tgt.kind, &tgt.base) {
            let base = Arc::new(tgt.base.bytes.clone());
            let label = format!("{} [{}]", tgt.label, fam.name());
            match fam {
                Fam::Identity => {
                    let honest = if honest_outer { tgt.honest.clone() } else { None };
                    let (b, w) = (base.clone(), wrap.clone());
                    self.push(d, tgt.site, label, 1, honest, true, Box::new(move |_| w(&b)));
                }
                Fam::Json { lvl } => {
                    let Some(plan) = JsonPlan::new(&base, lvl) else { continue };
                    let plan = Arc::new(plan);
                    let w = wrap.clone();
                    let n = plan.count();
                    self.push(d, tgt.site, label, n, None, true, Box::new(move |k| w(&plan.apply(k))));
                }
                Fam::Json2 => {
                    let Some(plan) = JsonPlan::for_pairs(&base) else { continue };
                    let plan = Arc::new(plan);
                    let w = wrap.clone();
                    let n = plan.count2();
                    self.push(d, tgt.site, label, n, None, true, Box::new(move |k| w(&plan.apply2(k))));
                }
                fam => {
                    let n = fam.count(&base);
                    let (b, w, f2) = (base.clone(), wrap.clone(), fam.clone());
                    self.push(d, tgt.site, label, n, None, true, Box::new(move |k| w(&fam.apply(&b, k))));
                    if let (Kind::Cbor, Some(alt)) = (tgt.kind, legacy_sibling(tgt.site)) {
                        let b = base.clone();
                        self.segs.last_mut().unwrap().site_if_legacy_dispatch = Some((alt, Box::new(move |k| f2.apply(&b, k).first() != Some(&1))));
                    }
                }
            }
        }
    }

    fn honest(&mut self, decoder: &str, site: &'static str, label: &str, input: Vec<u8>, canon: Vec<u8>) {
        let d = self.d(decoder);
        self.push(d, site, format!("{label} [honest]"), 1, Some(canon), true, Box::new(move |_| input.clone()));
    }

    fn list(&mut self, decoder: &str, site: &'static str, label: &str, derived: bool, inputs: Vec<Vec<u8>>) {
        let d = self.d(decoder);
        let n = inputs.len() as u64;
        self.push(d, site, label.to_string(), n, None, derived, Box::new(move |k| inputs[k as usize].clone()));
    }

    fn func(&mut self, decoder: &str, site: &'static str, label: &str, count: u64, g: impl Fn(u64) -> Vec<u8> + Send + Sync + 'static) {
        let d = self.d(decoder);
        self.push(d, site, label.to_string(), count, None, false, Box::new(g));
    }

    /// space (a): blind short strings, plus "boundary u64 ‖ tail" strings for length-prefixed layouts
    fn blind_bytes(&mut self, decoder: &str, site: &'static str, outer: Option<&Wrap>) {
        let src = if outer.is_some() { &self.t.blind_wrapped } else { &self.t.blind };
        let b = Blind { all_len: src.all_len, alpha_len: src.alpha_len };
        let n = b.count();
        let o = outer.cloned();
        let o2 = o.clone();
        self.func(decoder, site, "blind short strings", n, move |k| {
            let x = b.get(k);
            match &o {
                Some(w) => w(&x),
                None => x,
            }
        });
        let vals = boundary_u64(72, 0, Lvl::Full);
        let nv = vals.len() as u64;
        // shapes: [p? ‖ v], [p? ‖ v1 ‖ v2], [p? ‖ v ‖ 64 zero bytes], p in {none, 00, 01}
        let count = 3 * (nv + nv * nv + nv);
        self.func(decoder, site, "boundary u64 prefixes", count, move |k| {
            let per = nv + nv * nv + nv;
            let (pfx, r) = (k / per, k % per);
            let mut x = match pfx {
                0 => vec![],
                1 => vec![0u8],
                _ => vec![1u8],
            };
            if r < nv {
                x.extend_from_slice(&vals[r as usize].to_be_bytes());
            } else if r < nv + nv * nv {
                let r = r - nv;
                x.extend_from_slice(&vals[(r / nv) as usize].to_be_bytes());
                x.extend_from_slice(&vals[(r % nv) as usize].to_be_bytes());
            } else {
                x.extend_from_slice(&vals[(r - nv - nv * nv) as usize].to_be_bytes());
                x.extend_from_slice(&[0u8; 64]);
            }
            match &o2 {
                Some(w) => w(&x),
                None => x,
            }
        });
    }

    /// all strings of length <= 3 over a small text alphabet (for the entry points that take &str)
    fn blind_text(&mut self, decoder: &str, site: &'static str) {
        const ALPHA: [&str; 10] = ["0", "7", "b", "f", "g", "\"", "{", "[", " ", "\u{e9}"];
        let n = 1 + 10 + 100 + 1000;
        self.func(decoder, site, "blind short text", n, |k| {
            let (len, mut r) = match k {
                0 => (0, 0),
                1..=10 => (1, k - 1),
                11..=110 => (2, k - 11),
                _ => (3, k - 111),
            };
            let mut s = String::new();
            for _ in 0..len {
                s.push_str(ALPHA[(r % 10) as usize]);
                r /= 10;
            }
            s.into_bytes()
        });
    }

    /// CBOR nesting / indefinite-length bombs behind the version byte
    fn cbor_bombs(&mut self, decoder: &str, site: &'static str, outer: Option<&Wrap>) {
        const UNITS: [&[u8]; 7] = [&[0x81], &[0x9f], &[0xa1, 0x00], &[0xbf, 0x00], &[0xc1], &[0xd8, 0x18], &[0x5f]];
        let depths = self.t.bomb_depths.clone();
        let o = outer.cloned();
        let n = (UNITS.len() * depths.len() * 2) as u64;
        self.func(decoder, site, "cbor nesting bombs", n, move |k| {
            let k = k as usize;
            let (u, r) = (k % UNITS.len(), k / UNITS.len());
            let (d, with_prefix) = (depths[r % depths.len()], r / depths.len() == 0);
            let x = repeat_input(if with_prefix { &[1u8] } else { &[] }, UNITS[u], d, &[0x00]);
            match &o {
                Some(w) => w(&x),
                None => x,
            }
        });
    }

    fn json_bombs(&mut self, decoder: &str, site: &'static str, outer: Option<&Wrap>) {
        let depths = self.t.bomb_depths.clone();
        let o = outer.cloned();
        let n = (depths.len() * 3) as u64;
        self.func(decoder, site, "json nesting bombs", n, move |k| {
            let (d, shape) = (depths[(k as usize) % depths.len()], (k as usize) / depths.len());
            let x = match shape {
                0 => repeat_input(&[], b"[", d, &repeat_input(&[], b"]", d, &[])),
                1 => repeat_input(&[], b"{\"a\":", d, &repeat_input(b"0", b"}", d, &[])),
                _ => repeat_input(&[], b"[", d, &[]),
            };
            match &o {
                Some(w) => w(&x),
                None => x,
            }
        });
    }

    /// text-level variants of a hex string (the outermost layer of every key)
    fn hex_text_variants(&mut self, decoder: &str, site: &'static str, label: &str, honest_hex: &str) {
        let s = honest_hex.to_string();
        let mut v: Vec<Vec<u8>> = vec![
            vec![],
            b"0".to_vec(),
            b"zz".to_vec(),
            b"0x00".to_vec(),
            b" ".to_vec(),
            "\u{0}".as_bytes().to_vec(),
            "\u{e9}\u{e9}".as_bytes().to_vec(),
            s.to_uppercase().into_bytes(),
            format!(" {s}\n").into_bytes(),
            format!("0x{s}").into_bytes(),
            format!("{s}0").into_bytes(),
            s[..s.len() - 1].as_bytes().to_vec(),
            format!("g{}", &s[1..]).into_bytes(),
            format!("{}g", &s[..s.len() - 1]).into_bytes(),
            format!("{s}{s}").into_bytes(),
            format!("\"{s}\"").into_bytes(),
        ];
        if self.t.tier == Tier::Thorough {
            v.push("00".repeat(1 << 20).into_bytes());
            v.push("7b".repeat(1 << 20).into_bytes());
            v.push("5b".repeat(1 << 20).into_bytes());
        }
        self.list(decoder, site, &format!("{label} [hex text variants]"), true, v);
    }
}

fn json_enc<T: serde::Serialize>(t: &T) -> Enc {
    raw(serde_json::to_vec(t).expect("json"))
}

/// honest Merkle proofs (a plain tree proof and two-level map proofs)
pub struct MerkleWorld {
    pub mk_proof: MKProof,
    pub map_proofs: Vec<MKMapProof<BlockRange>>,
}

pub fn merkle_world() -> MerkleWorld {
    let leaves: Vec<MKTreeNode> = (0..7).map(|i| MKTreeNode::from(format!("leaf-{i}").as_str())).collect();
    let tree = MKTree::<MKTreeStoreInMemory>::new(&leaves).expect("tree");
    let mk_proof = tree.compute_proof(&[leaves[1].clone(), leaves[4].clone()]).expect("proof");
    let mut map_proofs = vec![];
    for nranges in [1u64, 3] {
        let entries: Vec<(BlockRange, MKMapNode<BlockRange, MKTreeStoreInMemory>)> = (0..nranges)
            .map(|r| {
                let ls: Vec<MKTreeNode> = (0..3).map(|i| MKTreeNode::from(format!("tx-{r}-{i}").as_str())).collect();
                (BlockRange::from(r * 15..(r + 1) * 15), MKTree::<MKTreeStoreInMemory>::new(&ls).expect("tree").into())
            })
            .collect();
        let map = MKMap::<BlockRange, MKMapNode<BlockRange, MKTreeStoreInMemory>, MKTreeStoreInMemory>::new(&entries).expect("map");
        let wanted: Vec<MKTreeNode> =
            (0..nranges).step_by(2).map(|r| MKTreeNode::from(format!("tx-{r}-1").as_str())).collect();
        map_proofs.push(map.compute_proof(&wanted).expect("map proof"));
    }
    MerkleWorld { mk_proof, map_proofs }
}

/// minimal bincode level of a nested MKMapProof<BlockRange>: empty master proof, one sub proof keyed 0..0
const MKMAP_UNIT: [u8; 7] = [0, 0, 0, 0, 1, 0, 0];
const MKMAP_LEAF: [u8; 5] = [0, 0, 0, 0, 0];

pub struct Worlds {
    pub stm: Vec<StmWorld>,
    pub merkle: MerkleWorld,
}

pub fn worlds() -> Worlds {
    Worlds {
        stm: vec![
            h::stm_world("w1", Parameters { k: 1, m: 3, phi_f: 0.95 }, &[7]),
            h::stm_world("w3", Parameters { k: 5, m: 8, phi_f: 0.8 }, &[3, 5, 2]),
        ],
        merkle: merkle_world(),
    }
}

fn set_path(v: &mut Value, path: &[&str], new: Value) {
    let mut cur = v;
    for (i, p) in path.iter().enumerate() {
        let next = if let Ok(idx) = p.parse::<usize>() { cur.get_mut(idx) } else { cur.get_mut(*p) };
        cur = next.unwrap_or_else(|| panic!("json path {path:?} broken at {i}"));
    }
    *cur = new;
}

const FIELD_PH: &str = "@@C05-FIELD@@";

/// wrap: put the given text into the string field `path` of a JSON document
fn field_wrap(doc: &Value, path: &[&str]) -> Wrap {
    let mut d = doc.clone();
    set_path(&mut d, path, Value::String(FIELD_PH.to_string()));
    let text = serde_json::to_string(&d).expect("json");
    let (pre, post) = text.split_once(FIELD_PH).expect("placeholder");
    let (pre, post) = (pre.as_bytes().to_vec(), post.as_bytes().to_vec());
    Arc::new(move |x: &[u8]| {
        // x is hex text (ASCII) or arbitrary text that must be escaped for JSON
        let mut v = Vec::with_capacity(pre.len() + x.len() + post.len());
        v.extend_from_slice(&pre);
        if x.iter().all(|c| c.is_ascii_alphanumeric()) {
            v.extend_from_slice(x);
        } else {
            let s = serde_json::to_string(&String::from_utf8_lossy(x)).expect("json string");
            v.extend_from_slice(&s.as_bytes()[1..s.len() - 1]);
        }
        v.extend_from_slice(&post);
        v
    })
}

pub fn build(tier: Tier, w: &Worlds) -> Space {
    let mut b = Builder { segs: vec![], t: Tiering::new(tier) };
    let direct = b.t.direct;
    let wrapped = b.t.wrapped;
    let nworlds = b.t.worlds;
    let idw = id_wrap();
    let hexw = hex_wrap();

    // ------------------------------------------------------------------ STM binary decoders
    for (wi, world) in w.stm.iter().enumerate() {
        // the second (larger) world is swept with the full plan in thorough only
        if wi >= nworlds {
            // honest values of every world are always checked
            let canon = dec::canon_agg(&world.agg);
            for f in FORMS {
                b.honest("stm/aggregate-signature.bytes", site_of("A", f), &format!("{}/A:{}", world.name, f.name()), h::enc_agg_uniform(&world.agg_parts, f).bytes, canon.clone());
            }
            continue;
        }
        let canon_a = dec::canon_agg(&world.agg);
        for t in agg_targets(world, &canon_a) {
            b.target("stm/aggregate-signature.bytes", &t, &idw, direct, true);
        }
        let canon_ka = dec::canon_key(&ProtocolKey::<AggregateSignature<D>>::new(world.agg.clone()));
        for t in agg_targets(world, &canon_ka) {
            b.target("key/multi-signature.text", &t, &hexw, wrapped, true);
        }
        // single signature with registered party: the value inside the aggregate
        let sp_cbor = {
            let (s, r) = &world.agg_parts.sps[0];
            h::enc_sp(&h::enc_s(s, Form::Cbor).bytes, &h::enc_r(r, Form::Cbor).bytes, Form::Cbor).bytes
        };
        for t in sp_targets(world, &sp_cbor) {
            b.target("stm/single-signature-with-registered-party.bytes", &t, &idw, direct, true);
        }
        for (si, sig) in world.sigs.iter().enumerate().take(2) {
            let canon = dec::canon_single_signature(sig);
            for t in s_targets(world, si, &canon) {
                b.target("stm/single-signature.bytes", &t, &idw, direct, true);
            }
            if si == 0 {
                let canon_k = dec::canon_key(&ProtocolKey::<SingleSignature>::new(sig.clone()));
                for t in s_targets(world, si, &canon_k) {
                    b.target("key/single-signature.text", &t, &hexw, wrapped, true);
                }
            }
        }
        let canon_avk = dec::canon_avk(&world.avk);
        for t in avk_targets(world, &canon_avk) {
            b.target("stm/aggregate-verification-key.bytes", &t, &idw, direct, true);
        }
        let canon_kavk = dec::canon_key(&ProtocolKey::<AggregateVerificationKeyForConcatenation<D>>::new(world.avk.clone()));
        for t in avk_targets(world, &canon_kavk) {
            b.target("key/aggregate-verification-key.text", &t, &hexw, wrapped, true);
        }
        // keys: fixed-size raw layouts
        let vkpop = world.initializers[0].get_verification_key_proof_of_possession_for_concatenation();
        let vkpop_bytes = vkpop.to_bytes().to_vec();
        let t = Tgt { site: "verification-key-pop", label: format!("{}/VKPOP", world.name), kind: Kind::Raw, base: raw(vkpop_bytes.clone()), wrap: id_wrap(), honest: Some(vkpop_bytes.clone()) };
        b.target("stm/verification-key-pop.bytes", &t, &idw, direct, true);
        let t = Tgt { site: "verification-key", label: format!("{}/VK", world.name), kind: Kind::Raw, base: raw(vkpop_bytes[..96].to_vec()), wrap: id_wrap(), honest: Some(vkpop_bytes[..96].to_vec()) };
        b.target("stm/verification-key.bytes", &t, &idw, direct, true);
        let key = ProtocolKey::<VerificationKeyProofOfPossessionForConcatenation>::new(vkpop);
        let t = Tgt { site: "verification-key-pop", label: format!("{}/VKPOP", world.name), kind: Kind::Raw, base: raw(vkpop_bytes.clone()), wrap: id_wrap(), honest: Some(dec::canon_key(&key)) };
        b.target("key/signer-verification-key.text", &t, &hexw, wrapped, true);
        // parameters, initializer
        let t = Tgt { site: "parameters-cbor", label: format!("{}/PARAMS:cbor", world.name), kind: Kind::Cbor, base: raw(world.params.to_bytes().expect("params")), wrap: id_wrap(), honest: Some(dec::canon_params(&world.params)) };
        b.target("stm/parameters.bytes", &t, &idw, direct, true);
        let t = Tgt { site: "parameters-legacy", label: format!("{}/PARAMS:legacy", world.name), kind: Kind::Legacy, base: h::enc_params_legacy(&world.params), wrap: id_wrap(), honest: Some(dec::canon_params(&world.params)) };
        b.target("stm/parameters.bytes", &t, &idw, direct, true);
        let init = &world.initializers[0];
        let init_cbor = init.to_bytes().expect("initializer");
        let t = Tgt { site: "initializer-cbor", label: format!("{}/INIT:cbor", world.name), kind: Kind::Cbor, base: raw(init_cbor.clone()), wrap: id_wrap(), honest: Some(dec::canon_initializer(init)) };
        b.target("stm/initializer.bytes", &t, &idw, Plan { max_positions: if direct.max_positions == 0 { 400 } else { direct.max_positions }, ..direct }, true);
        let init_json: Value = serde_json::to_value(init).expect("init json");
        let mut legacy = vec![];
        let mut fields = vec![0usize];
        legacy.extend_from_slice(&init.stake.to_be_bytes());
        legacy.extend_from_slice(&h::enc_params_legacy(&world.params).bytes);
        fields.extend([8, 16, 24]);
        let arr = |v: &Value| -> Vec<u8> { v.as_array().expect("array").iter().map(|x| x.as_u64().expect("u8") as u8).collect() };
        legacy.extend_from_slice(&arr(&init_json["sk"]));
        legacy.extend_from_slice(&arr(&init_json["pk"]["vk"]));
        legacy.extend_from_slice(&arr(&init_json["pk"]["pop"]));
        let t = Tgt { site: "initializer-legacy", label: format!("{}/INIT:legacy", world.name), kind: Kind::Legacy, base: Enc { bytes: legacy, fields }, wrap: id_wrap(), honest: Some(dec::canon_initializer(init)) };
        b.target("stm/initializer.bytes", &t, &idw, direct, true);

        // ---- JSON (serde) forms of the STM types
        let jt = |site: &'static str, name: &str, base: Enc, canon: Vec<u8>| Tgt { site, label: format!("{}/{}:json", world.name, name), kind: Kind::Json, base, wrap: id_wrap(), honest: Some(canon) };
        let t = jt("aggregate-signature-json", "A", json_enc(&world.agg), dec::json(&world.agg));
        b.target("stm/aggregate-signature.json", &t, &idw, direct, true);
        let key = ProtocolKey::<AggregateSignature<D>>::new(world.agg.clone());
        let t = jt("aggregate-signature-json", "A", json_enc(&world.agg), dec::canon_key(&key));
        b.target("key/multi-signature.text", &t, &hexw, wrapped, true);
        let t = jt("single-signature-json", "S0", json_enc(&world.sigs[0]), dec::json(&world.sigs[0]));
        b.target("stm/single-signature.json", &t, &idw, direct, true);
        let key = ProtocolKey::<SingleSignature>::new(world.sigs[0].clone());
        let t = jt("single-signature-json", "S0", json_enc(&world.sigs[0]), dec::canon_key(&key));
        b.target("key/single-signature.text", &t, &hexw, wrapped, true);
        let t = jt("aggregate-verification-key-json", "AVK", json_enc(&world.avk), dec::json(&world.avk));
        b.target("stm/aggregate-verification-key.json", &t, &idw, direct, true);
        let key = ProtocolKey::<AggregateVerificationKeyForConcatenation<D>>::new(world.avk.clone());
        let t = jt("aggregate-verification-key-json", "AVK", json_enc(&world.avk), dec::canon_key(&key));
        b.target("key/aggregate-verification-key.text", &t, &hexw, wrapped, true);
        let t = jt("verification-key-pop-json", "VKPOP", json_enc(&vkpop), dec::json(&vkpop));
        b.target("stm/verification-key-pop.json", &t, &idw, direct, true);
        let key = ProtocolKey::<VerificationKeyProofOfPossessionForConcatenation>::new(vkpop);
        let t = jt("verification-key-pop-json", "VKPOP", json_enc(&vkpop), dec::canon_key(&key));
        b.target("key/signer-verification-key.text", &t, &hexw, wrapped, true);
        let t = jt("parameters-json", "PARAMS", json_enc(&world.params), dec::json(&world.params));
        b.target("stm/parameters.json", &t, &idw, direct, true);
        let t = jt("initializer-json", "INIT", json_enc(init), dec::json(init));
        b.target("stm/initializer.json", &t, &idw, direct, true);
        // [sig, [vk, stake]] and [vk, stake]: taken out of the aggregate signature's JSON
        let aj: Value = serde_json::to_value(&world.agg).expect("agg json");
        let spj = aj["signatures"][0].clone();
        let t = jt("single-signature-with-registered-party-json", "SP0", json_enc(&spj), dec::json(&spj));
        b.target("stm/single-signature-with-registered-party.json", &t, &idw, direct, true);
        let rj = spj[1].clone();
        let t = jt("closed-registration-entry-json", "R0", json_enc(&rj), dec::json(&rj));
        b.target("stm/closed-registration-entry.json", &t, &idw, direct, true);

        if wi == 0 {
            b.hex_text_variants("key/multi-signature.text", "protocol-key-hex", "A json-hex", &hex::encode(serde_json::to_vec(&world.agg).unwrap()));
            b.hex_text_variants("key/multi-signature.text", "protocol-key-hex", "A bytes-hex", &hex::encode(world.agg.to_bytes().unwrap()));
            b.hex_text_variants("key/single-signature.text", "protocol-key-hex", "S json-hex", &hex::encode(serde_json::to_vec(&world.sigs[0]).unwrap()));
            b.hex_text_variants("key/single-signature.text", "protocol-key-hex", "S bytes-hex", &hex::encode(world.sigs[0].to_bytes().unwrap()));
            b.hex_text_variants("key/aggregate-verification-key.text", "protocol-key-hex", "AVK json-hex", &hex::encode(serde_json::to_vec(&world.avk).unwrap()));
            b.hex_text_variants("key/aggregate-verification-key.text", "protocol-key-hex", "AVK bytes-hex", &hex::encode(world.avk.to_bytes().unwrap()));
            b.hex_text_variants("key/signer-verification-key.text", "protocol-key-hex", "VKPOP json-hex", &hex::encode(serde_json::to_vec(&vkpop).unwrap()));
            b.hex_text_variants("key/signer-verification-key.text", "protocol-key-hex", "VKPOP bytes-hex", &hex::encode(&vkpop_bytes));
        }
    }

    // values with integer fields at u64 extremes: every form must decode to the value whose
    // canonical (CBOR) encoding the mirror encoders give (self_check proves them on real values)
    {
        let world = &w.stm[0];
        // sanity of the hand-written single-signature CBOR: it must reproduce the real bytes
        let sp0 = &world.agg_parts.sps[0].0;
        assert_eq!(h::sig_cbor_with(&sp0.cbor, &sp0.indexes, sp0.signer_index), sp0.cbor, "sig_cbor_with");
        let x = h::extreme_parts(&world.agg_parts);
        let canon = h::enc_agg_uniform(&x, Form::Cbor).bytes;
        for f in FORMS {
            b.honest("stm/aggregate-signature.bytes", site_of("A", f), &format!("extreme-fields/A:{}", f.name()), h::enc_agg_uniform(&x, f).bytes, canon.clone());
        }
        let (s, r) = &x.sps[0];
        let canon_sp = h::enc_sp(&h::enc_s(s, Form::Cbor).bytes, &h::enc_r(r, Form::Cbor).bytes, Form::Cbor).bytes;
        for f in FORMS {
            let e = h::enc_sp(&h::enc_s(s, f).bytes, &h::enc_r(r, f).bytes, f).bytes;
            b.honest("stm/single-signature-with-registered-party.bytes", site_of("SP", f), &format!("extreme-fields/SP:{}", f.name()), e, canon_sp.clone());
            b.honest("stm/single-signature.bytes", site_of("S", f), &format!("extreme-fields/S:{}", f.name()), h::enc_s(s, f).bytes, s.cbor.clone());
        }
        let xa = h::extreme_avk(&world.avk_parts);
        let canon_avk = h::enc_avk(&xa, Form::Cbor).bytes;
        for f in FORMS {
            b.honest("stm/aggregate-verification-key.bytes", site_of("AVK", f), &format!("extreme-fields/AVK:{}", f.name()), h::enc_avk(&xa, f).bytes, canon_avk.clone());
        }
        let px = Parameters { m: u64::MAX, k: u64::MAX - 1, phi_f: 0.2 };
        b.honest("stm/parameters.bytes", "parameters-legacy", "extreme-fields/PARAMS:legacy", h::enc_params_legacy(&px).bytes, dec::canon_params(&px));
        b.honest("stm/parameters.bytes", "parameters-cbor", "extreme-fields/PARAMS:cbor", px.to_bytes().expect("params"), dec::canon_params(&px));
        b.honest("stm/parameters.json", "parameters-json", "extreme-fields/PARAMS:json", serde_json::to_vec(&px).unwrap(), dec::json(&px));
        // JSON forms
        let mut sj: Value = serde_json::to_value(&world.sigs[0]).unwrap();
        sj["signer_index"] = Value::from(u64::MAX);
        sj["indexes"] = serde_json::json!([0, 4294967296u64, 9007199254740993u64, u64::MAX]);
        b.honest("stm/single-signature.json", "single-signature-json", "extreme-fields/S:json", serde_json::to_vec(&sj).unwrap(), dec::json(&sj));
        let mut aj: Value = serde_json::to_value(&world.avk).unwrap();
        aj["total_stake"] = Value::from(u64::MAX);
        aj["mt_commitment"]["nr_leaves"] = Value::from(9007199254740993u64);
        b.honest("stm/aggregate-verification-key.json", "aggregate-verification-key-json", "extreme-fields/AVK:json", serde_json::to_vec(&aj).unwrap(), dec::json(&aj));
        let mut gj: Value = serde_json::to_value(&world.agg).unwrap();
        gj["signatures"][0][1][1] = Value::from(u64::MAX);
        gj["signatures"][0][0]["signer_index"] = Value::from(u64::MAX - 1);
        b.honest("stm/aggregate-signature.json", "aggregate-signature-json", "extreme-fields/A:json", serde_json::to_vec(&gj).unwrap(), dec::json(&gj));
    }

    // blind strings and bombs for every binary STM decoder
    for (name, site) in [
        ("stm/single-signature.bytes", "single-signature-legacy"),
        ("stm/single-signature-with-registered-party.bytes", "single-signature-with-registered-party-legacy"),
        ("stm/aggregate-signature.bytes", "aggregate-signature-legacy"),
        ("stm/aggregate-verification-key.bytes", "aggregate-verification-key-legacy"),
        ("stm/verification-key.bytes", "verification-key"),
        ("stm/verification-key-pop.bytes", "verification-key-pop"),
        ("stm/parameters.bytes", "parameters-legacy"),
        ("stm/initializer.bytes", "initializer-legacy"),
        ("stm/ancillary-data.bytes", "ancillary-data-cbor"),
    ] {
        b.blind_bytes(name, site, None);
        b.cbor_bombs(name, site, None);
    }
    for (name, site) in [
        ("key/single-signature.text", "single-signature-legacy"),
        ("key/multi-signature.text", "aggregate-signature-legacy"),
        ("key/aggregate-verification-key.text", "aggregate-verification-key-legacy"),
        ("key/signer-verification-key.text", "verification-key-pop"),
        ("key/ancillary-data.text", "ancillary-data-cbor"),
    ] {
        b.blind_bytes(name, site, Some(&hexw));
        b.cbor_bombs(name, site, Some(&hexw));
        b.json_bombs(name, "protocol-key-json-hex", Some(&hexw));
    }
    for d in dec::DECODERS.iter().filter(|d| d.text) {
        b.blind_text(d.name, "protocol-key-hex");
    }
    for name in [
        "stm/single-signature.json",
        "stm/single-signature-with-registered-party.json",
        "stm/aggregate-signature.json",
        "stm/aggregate-verification-key.json",
        "stm/verification-key-pop.json",
        "stm/parameters.json",
        "stm/closed-registration-entry.json",
        "stm/initializer.json",
    ] {
        b.json_bombs(name, "serde-json", None);
        b.list(name, "serde-json", "json scalars", false, ["", "null", "0", "[]", "{}", "\"\"", "[[]]", "{\"a\":1}", "1e400", "-", "\u{feff}{}", "[0,0]"].iter().map(|s| s.as_bytes().to_vec()).collect());
    }

    // ------------------------------------------------------------------ repository fixtures (json-hex)
    // The golden keys of mithril-common's test doubles: decode once to obtain the honest value,
    // then require the round trip of that value through every form.
    for (i, s) in fake_keys::multi_signature().iter().enumerate() {
        if let Ok(k) = ProtocolKey::<AggregateSignature<D>>::from_json_hex(s) {
            b.honest("key/multi-signature.text", "aggregate-signature-json", &format!("fake_keys::multi_signature[{i}] json-hex"), s.as_bytes().to_vec(), dec::canon_key(&k));
            b.honest("key/multi-signature.text", "aggregate-signature-cbor", &format!("fake_keys::multi_signature[{i}] bytes-hex"), k.to_bytes_hex().expect("hex").into_bytes(), dec::canon_key(&k));
            b.honest("stm/aggregate-signature.bytes", "aggregate-signature-cbor", &format!("fake_keys::multi_signature[{i}] bytes"), k.to_bytes_vec().expect("bytes"), dec::canon_agg(&k));
            let parts = h::decompose(&k.to_bytes_vec().expect("bytes"));
            b.honest("stm/aggregate-signature.bytes", "aggregate-signature-legacy", &format!("fake_keys::multi_signature[{i}] legacy bytes"), h::enc_agg_uniform(&parts, Form::Legacy).bytes, dec::canon_agg(&k));
            // a multi-signature of realistic size (the repository's golden value), cheapest families
            if i == 0 && b.t.tier == Tier::Thorough {
                let light = Plan { lvl: Lvl::Small, max_positions: 400, light: true };
                for t in agg_targets_of("fixture-multi-signature", &parts, &dec::canon_agg(&k)) {
                    b.target("stm/aggregate-signature.bytes", &t, &idw, light, true);
                }
            }
        }
    }
    for (i, s) in fake_keys::single_signature().iter().enumerate() {
        if let Ok(k) = ProtocolKey::<SingleSignature>::from_json_hex(s) {
            b.honest("key/single-signature.text", "single-signature-json", &format!("fake_keys::single_signature[{i}] json-hex"), s.as_bytes().to_vec(), dec::canon_key(&k));
            b.honest("key/single-signature.text", "single-signature-cbor", &format!("fake_keys::single_signature[{i}] bytes-hex"), k.to_bytes_hex().expect("hex").into_bytes(), dec::canon_key(&k));
            let sp = h::sig_parts(&k.to_bytes_vec().expect("bytes"));
            b.honest("stm/single-signature.bytes", "single-signature-legacy", &format!("fake_keys::single_signature[{i}] legacy bytes"), h::enc_s(&sp, Form::Legacy).bytes, dec::canon_single_signature(&k));
        }
    }
    for (i, s) in fake_keys::aggregate_verification_key_for_concatenation().iter().enumerate() {
        if let Ok(k) = ProtocolKey::<AggregateVerificationKeyForConcatenation<D>>::from_json_hex(s) {
            b.honest("key/aggregate-verification-key.text", "aggregate-verification-key-json", &format!("fake_keys::aggregate_verification_key[{i}] json-hex"), s.as_bytes().to_vec(), dec::canon_key(&k));
            b.honest("key/aggregate-verification-key.text", "aggregate-verification-key-cbor", &format!("fake_keys::aggregate_verification_key[{i}] bytes-hex"), k.to_bytes_hex().expect("hex").into_bytes(), dec::canon_key(&k));
        }
    }
    for (i, s) in fake_keys::signer_verification_key().iter().enumerate() {
        if let Ok(k) = ProtocolKey::<VerificationKeyProofOfPossessionForConcatenation>::from_json_hex(s) {
            b.honest("key/signer-verification-key.text", "verification-key-pop-json", &format!("fake_keys::signer_verification_key[{i}] json-hex"), s.as_bytes().to_vec(), dec::canon_key(&k));
            b.honest("key/signer-verification-key.text", "verification-key-pop", &format!("fake_keys::signer_verification_key[{i}] bytes-hex"), k.to_bytes_hex().expect("hex").into_bytes(), dec::canon_key(&k));
        }
    }

    // KES signature, operational certificate, ed25519 keys: honest values are the repository's fixtures
    if let Ok(k) = ProtocolKey::<kes_summed_ed25519::kes::Sum6KesSig>::from_json_hex(fake_keys::signer_verification_key_signature()[0]) {
        let bytes = k.to_bytes_vec().expect("kes bytes");
        let t = Tgt { site: "kes-signature", label: "fixture/KES-SIG".into(), kind: Kind::Raw, base: raw(bytes.clone()), wrap: id_wrap(), honest: Some(bytes.clone()) };
        b.target("common/kes-signature.bytes", &t, &idw, direct, true);
        let t = Tgt { honest: Some(dec::canon_key(&k)), ..t };
        b.target("key/kes-signature.text", &t, &hexw, wrapped, true);
        let j = serde_json::to_vec(&*k).expect("kes json");
        let t = Tgt { site: "kes-signature-json", label: "fixture/KES-SIG:json".into(), kind: Kind::Json, base: raw(j.clone()), wrap: id_wrap(), honest: Some(dec::canon_key(&k)) };
        b.target("key/kes-signature.text", &t, &hexw, wrapped, true);
        b.hex_text_variants("key/kes-signature.text", "protocol-key-hex", "KES-SIG json-hex", &hex::encode(&j));
    }
    b.blind_bytes("common/kes-signature.bytes", "kes-signature", None);
    b.blind_bytes("key/kes-signature.text", "kes-signature", Some(&hexw));
    b.json_bombs("key/kes-signature.text", "protocol-key-json-hex", Some(&hexw));

    for (i, s) in fake_keys::operational_certificate().iter().enumerate() {
        if let Ok(k) = ProtocolKey::<OpCert>::from_json_hex(s) {
            let bytes = k.to_bytes_vec().expect("opcert bytes");
            let t = Tgt { site: "operational-certificate-cbor", label: format!("fixture/OPCERT{i}:cbor"), kind: Kind::Cbor, base: raw(bytes.clone()), wrap: id_wrap(), honest: Some(dec::canon_opcert(&k)) };
            b.target("common/operational-certificate.bytes", &t, &idw, direct, true);
            let t = Tgt { honest: Some(dec::canon_key(&k)), ..t };
            b.target("key/operational-certificate.text", &t, &hexw, wrapped, true);
            let j = serde_json::to_vec(&*k).expect("opcert json");
            let t = Tgt { site: "operational-certificate-json", label: format!("fixture/OPCERT{i}:json"), kind: Kind::Json, base: raw(j.clone()), wrap: id_wrap(), honest: Some(dec::canon_key(&k)) };
            b.target("key/operational-certificate.text", &t, &hexw, wrapped, true);
            if i == 0 {
                b.hex_text_variants("key/operational-certificate.text", "protocol-key-hex", "OPCERT json-hex", &hex::encode(&j));
            }
        }
    }
    b.blind_bytes("common/operational-certificate.bytes", "operational-certificate-cbor", None);
    {
        // the OpCert CBOR has no version byte: bombs without prefix are the relevant half
        b.cbor_bombs("common/operational-certificate.bytes", "operational-certificate-cbor", None);
        b.cbor_bombs("key/operational-certificate.text", "operational-certificate-cbor", Some(&hexw));
        b.json_bombs("key/operational-certificate.text", "protocol-key-json-hex", Some(&hexw));
        b.blind_bytes("key/operational-certificate.text", "operational-certificate-cbor", Some(&hexw));
    }

    if let Ok(k) = ProtocolKey::<ed25519_dalek::VerifyingKey>::from_json_hex(fake_keys::genesis_verification_key()[0]) {
        let bytes = k.to_bytes_vec().expect("vk bytes");
        let t = Tgt { site: "ed25519-verification-key", label: "fixture/ED25519-VK".into(), kind: Kind::Raw, base: raw(bytes.clone()), wrap: id_wrap(), honest: Some(dec::canon_key(&k)) };
        b.target("key/ed25519-verification-key.text", &t, &hexw, direct, true);
        let j = serde_json::to_vec(&*k).expect("json");
        let t = Tgt { site: "ed25519-verification-key-json", label: "fixture/ED25519-VK:json".into(), kind: Kind::Json, base: raw(j.clone()), wrap: id_wrap(), honest: Some(dec::canon_key(&k)) };
        b.target("key/ed25519-verification-key.text", &t, &hexw, direct, true);
        b.hex_text_variants("key/ed25519-verification-key.text", "protocol-key-hex", "ED25519-VK json-hex", &hex::encode(&j));
        let t = Tgt { site: "ed25519-verification-key", label: "fixture/ED25519-VK".into(), kind: Kind::Raw, base: raw(bytes.clone()), wrap: id_wrap(), honest: None };
        b.target("common/ed25519.bytes", &t, &idw, direct, false);
    }
    if let Ok(k) = ProtocolKey::<ed25519_dalek::Signature>::from_bytes_hex(fake_keys::genesis_signature()[0]) {
        let bytes = k.to_bytes_vec().expect("sig bytes");
        let t = Tgt { site: "ed25519-signature", label: "fixture/ED25519-SIG".into(), kind: Kind::Raw, base: raw(bytes.clone()), wrap: id_wrap(), honest: Some(dec::canon_key(&k)) };
        b.target("key/ed25519-signature.text", &t, &hexw, direct, true);
        let j = serde_json::to_vec(&*k).expect("json");
        let t = Tgt { site: "ed25519-signature-json", label: "fixture/ED25519-SIG:json".into(), kind: Kind::Json, base: raw(j.clone()), wrap: id_wrap(), honest: Some(dec::canon_key(&k)) };
        b.target("key/ed25519-signature.text", &t, &hexw, direct, true);
        b.hex_text_variants("key/ed25519-signature.text", "protocol-key-hex", "ED25519-SIG bytes-hex", &hex::encode(&bytes));
        let t = Tgt { site: "ed25519-signature", label: "fixture/ED25519-SIG".into(), kind: Kind::Raw, base: raw(bytes.clone()), wrap: id_wrap(), honest: Some(bytes.clone()) };
        b.target("common/ed25519.bytes", &t, &idw, direct, true);
    }
    b.blind_bytes("common/ed25519.bytes", "ed25519", None);
    b.blind_bytes("key/ed25519-verification-key.text", "ed25519-verification-key", Some(&hexw));
    b.blind_bytes("key/ed25519-signature.text", "ed25519-signature", Some(&hexw));
    b.json_bombs("key/ed25519-verification-key.text", "protocol-key-json-hex", Some(&hexw));
    b.json_bombs("key/ed25519-signature.text", "protocol-key-json-hex", Some(&hexw));

    // ------------------------------------------------------------------ Merkle proofs (bincode / JSON)
    let mw = &w.merkle;
    {
        let bytes = mw.mk_proof.to_bytes().expect("mkproof bytes");
        let canon = dec::canon_mkproof(&mw.mk_proof);
        let t = Tgt { site: "mk-proof-bincode", label: "merkle/MKPROOF:bincode".into(), kind: Kind::Bincode, base: raw(bytes.clone()), wrap: id_wrap(), honest: Some(canon.clone()) };
        b.target("merkle/mk-proof.bytes", &t, &idw, direct, true);
        let key = ProtocolKey::<MKProof>::new(mw.mk_proof.clone());
        let t = Tgt { honest: Some(dec::canon_key(&key)), ..t };
        b.target("key/mk-proof.text", &t, &hexw, wrapped, true);
        let j = serde_json::to_vec(&mw.mk_proof).expect("json");
        let t = Tgt { site: "mk-proof-json", label: "merkle/MKPROOF:json".into(), kind: Kind::Json, base: raw(j.clone()), wrap: id_wrap(), honest: Some(canon.clone()) };
        b.target("merkle/mk-proof.json", &t, &idw, direct, true);
        let t = Tgt { honest: Some(dec::canon_key(&key)), ..t };
        b.target("key/mk-proof.text", &t, &hexw, wrapped, true);
        b.hex_text_variants("key/mk-proof.text", "protocol-key-hex", "MKPROOF json-hex", &hex::encode(&j));
        b.blind_bytes("merkle/mk-proof.bytes", "mk-proof-bincode", None);
        b.blind_bytes("key/mk-proof.text", "mk-proof-bincode", Some(&hexw));
        b.json_bombs("merkle/mk-proof.json", "mk-proof-json", None);
        b.json_bombs("key/mk-proof.text", "protocol-key-json-hex", Some(&hexw));
    }
    // documents that carry a map proof as a hex string
    let v1_typed = CardanoTransactionsProofsMessage::new("cert-hash", vec![CardanoTransactionsSetProofMessagePart::dummy()], vec!["tx-not-certified".to_string()], mithril_common::entities::BlockNumber(100));
    let v2_typed = CardanoTransactionsProofsV2Message::dummy();
    let blocks_typed = CardanoBlocksProofsMessage::dummy();
    let v1_doc: Value = serde_json::to_value(&v1_typed).expect("v1 json");
    let v2_doc: Value = serde_json::to_value(&v2_typed).expect("v2 json");
    let blocks_doc: Value = serde_json::to_value(&blocks_typed).expect("blocks json");
    let v1_field = field_wrap(&v1_doc, &["certified_transactions", "0", "proof"]);
    let v2_field = field_wrap(&v2_doc, &["certified_transactions", "proof"]);
    let blocks_field = field_wrap(&blocks_doc, &["certified_blocks", "proof"]);
    for (pi, proof) in mw.map_proofs.iter().enumerate() {
        let bytes = proof.to_bytes().expect("mkmapproof bytes");
        let canon = dec::canon_mkmapproof(proof);
        let t = Tgt { site: "mk-map-proof-bincode", label: format!("merkle/MKMAPPROOF{pi}:bincode"), kind: Kind::Bincode, base: raw(bytes.clone()), wrap: id_wrap(), honest: Some(canon.clone()) };
        b.target("merkle/mk-map-proof.bytes", &t, &idw, direct, true);
        b.target("key/mk-map-proof.text", &t, &hexw, wrapped, true);
        if pi == 0 {
            // reached from the v2 proof messages (bytes-hex); the message-level canon differs, so no honesty claim here
            b.target("message/cardano-transactions-proofs-v2.json", &t, &compose(&v2_field, &hexw), wrapped, false);
            b.target("message/cardano-blocks-proofs-v2.json", &t, &compose(&blocks_field, &hexw), wrapped, false);
        }
        let j = serde_json::to_vec(proof).expect("json");
        let t = Tgt { site: "mk-map-proof-json", label: format!("merkle/MKMAPPROOF{pi}:json"), kind: Kind::Json, base: raw(j.clone()), wrap: id_wrap(), honest: Some(canon.clone()) };
        b.target("merkle/mk-map-proof.json", &t, &idw, direct, true);
        b.target("key/mk-map-proof.text", &t, &hexw, wrapped, true);
        if pi == 0 {
            b.target("message/cardano-transactions-proofs-v1.json", &t, &compose(&v1_field, &hexw), wrapped, false);
            b.hex_text_variants("key/mk-map-proof.text", "protocol-key-hex", "MKMAPPROOF bytes-hex", &hex::encode(&bytes));
        }
    }
    b.blind_bytes("merkle/mk-map-proof.bytes", "mk-map-proof-bincode", None);
    b.blind_bytes("key/mk-map-proof.text", "mk-map-proof-bincode", Some(&hexw));
    b.json_bombs("merkle/mk-map-proof.json", "mk-map-proof-json", None);
    b.json_bombs("key/mk-map-proof.text", "protocol-key-json-hex", Some(&hexw));
    // nested map proofs: `depth` levels, each with an empty master proof and one sub proof; the
    // innermost level is either the minimal leaf or an honest proof
    {
        let depths = b.t.bomb_depths.clone();
        let honest_leaf = mw.map_proofs[0].to_bytes().expect("bytes");
        let mk = move |k: u64| -> Vec<u8> {
            let (d, leaf) = (depths[(k as usize) % depths.len()], (k as usize) / depths.len());
            repeat_input(&[], &MKMAP_UNIT, d, if leaf == 0 { &MKMAP_LEAF } else { &honest_leaf })
        };
        let n = (b.t.bomb_depths.len() * 2) as u64;
        let m1 = mk.clone();
        b.func("merkle/mk-map-proof.bytes", "mk-map-proof-bincode", "nested map proofs (bincode)", n, move |k| m1(k));
        let m2 = mk.clone();
        b.func("key/mk-map-proof.text", "mk-map-proof-bincode", "nested map proofs (bincode, bytes-hex)", n, move |k| hex::encode(m2(k)).into_bytes());
        let (m3, f3) = (mk.clone(), v2_field.clone());
        b.func("message/cardano-transactions-proofs-v2.json", "mk-map-proof-bincode", "nested map proofs in the proof field", n, move |k| f3(hex::encode(m3(k)).as_bytes()));
        let (m4, f4) = (mk.clone(), blocks_field.clone());
        b.func("message/cardano-blocks-proofs-v2.json", "mk-map-proof-bincode", "nested map proofs in the proof field", n, move |k| f4(hex::encode(m4(k)).as_bytes()));
        // JSON nesting of map proofs (json-hex form used by the v1 message)
        let depths = b.t.bomb_depths.clone();
        let mkj = move |k: u64| -> Vec<u8> {
            let d = depths[k as usize];
            let unit = br#"{"master_proof":{"inner_root":{"hash":[]},"inner_leaves":[],"inner_proof_size":0,"inner_proof_items":[]},"sub_proofs":[[{"inner_range":{"start":0,"end":0}},"#;
            let leaf = br#"{"master_proof":{"inner_root":{"hash":[]},"inner_leaves":[],"inner_proof_size":0,"inner_proof_items":[]},"sub_proofs":[]}"#;
            repeat_input(&[], unit, d, &repeat_input(leaf, b"]]}", d, &[]))
        };
        let n = b.t.bomb_depths.len() as u64;
        let j1 = mkj.clone();
        b.func("merkle/mk-map-proof.json", "mk-map-proof-json", "nested map proofs (json)", n, move |k| j1(k));
        let (j2, f2) = (mkj.clone(), v1_field.clone());
        b.func("message/cardano-transactions-proofs-v1.json", "mk-map-proof-json", "nested map proofs in the proof field (json-hex)", n, move |k| f2(hex::encode(j2(k)).as_bytes()));
    }

    // ------------------------------------------------------------------ DMQ binary message
    {
        let m = RegisterSignatureMessageDmq::dummy();
        let bytes = m.try_to_bytes_vec().expect("dmq bytes");
        // layout: u16 len ‖ bincode(SignedEntityType) ‖ u32 len ‖ signature bytes (versioned CBOR)
        let t = Tgt { site: "register-signature-dmq", label: "dmq/REGISTER-SIGNATURE".into(), kind: Kind::Bincode, base: raw(bytes.clone()), wrap: id_wrap(), honest: Some(dec::canon_dmq(&m)) };
        b.target("common/register-signature-dmq.bytes", &t, &idw, direct, true);
        // structure-aware: single signature (either form) re-wrapped with correct length prefixes
        let entity_len = u16::from_be_bytes([bytes[0], bytes[1]]) as usize;
        let head = bytes[..2 + entity_len].to_vec();
        let sig_bytes = bytes[2 + entity_len + 4..].to_vec();
        let sp = h::sig_parts(&sig_bytes);
        for f in FORMS {
            let hd = head.clone();
            let t = Tgt {
                site: site_of("S", f),
                label: format!("dmq/S:{}", f.name()),
                kind: kind_of(f),
                base: h::enc_s(&sp, f),
                wrap: Arc::new(move |x: &[u8]| {
                    let mut v = hd.clone();
                    v.extend_from_slice(&(x.len() as u32).to_be_bytes());
                    v.extend_from_slice(x);
                    v
                }),
                honest: None,
            };
            b.target("common/register-signature-dmq.bytes", &t, &idw, wrapped, false);
        }
        b.blind_bytes("common/register-signature-dmq.bytes", "register-signature-dmq", None);
    }

    // ------------------------------------------------------------------ JSON messages
    let w0 = &w.stm[0];
    // certificate: the dummy message with this run's honest AVK / multi-signature
    {
        let agg_key = ProtocolKey::<AggregateSignature<D>>::new(w0.agg.clone());
        let avk_key = ProtocolKey::<AggregateVerificationKeyForConcatenation<D>>::new(w0.avk.clone());
        let typed = CertificateMessage {
            multi_signature: agg_key.to_json_hex().expect("hex"),
            aggregate_verification_key: avk_key.to_json_hex().expect("hex"),
            ..CertificateMessage::dummy()
        };
        let doc: Value = serde_json::to_value(&typed).expect("cert json");
        let text = serde_json::to_vec(&typed).expect("json");
        let canon = dec::conv_certificate(typed.clone()).expect("honest certificate converts");
        let t = Tgt { site: "certificate-message-json", label: "message/CERTIFICATE".into(), kind: Kind::Json, base: raw(text.clone()), wrap: id_wrap(), honest: Some(canon.clone()) };
        b.target("message/certificate.json", &t, &idw, direct, true);
        // the same certificate with bytes-hex keys (accepted alternative form)
        let typed2 = CertificateMessage {
            multi_signature: agg_key.to_bytes_hex().expect("hex"),
            aggregate_verification_key: avk_key.to_bytes_hex().expect("hex"),
            ..typed.clone()
        };
        b.honest("message/certificate.json", "certificate-message-json", "message/CERTIFICATE bytes-hex keys", serde_json::to_vec(&typed2).unwrap(), canon.clone());
        // genesis certificate
        let typed3 = CertificateMessage { multi_signature: String::new(), genesis_signature: fake_keys::genesis_signature()[0].to_string(), ..typed.clone() };
        let doc3: Value = serde_json::to_value(&typed3).expect("cert json");
        let canon3 = dec::conv_certificate(typed3.clone()).expect("honest genesis certificate converts");
        b.honest("message/certificate.json", "certificate-message-json", "message/CERTIFICATE genesis", serde_json::to_vec(&typed3).unwrap(), canon3);
        // fields
        let ms = field_wrap(&doc, &["multi_signature"]);
        let avk = field_wrap(&doc, &["aggregate_verification_key"]);
        let gs = field_wrap(&doc3, &["genesis_signature"]);
        let canon_a = dec::canon_agg(&w0.agg);
        for t in agg_targets(w0, &canon_a) {
            b.target("message/certificate.json", &t, &compose(&ms, &hexw), wrapped, false);
        }
        let t = Tgt { site: "aggregate-signature-json", label: "w1/A:json".into(), kind: Kind::Json, base: json_enc(&w0.agg), wrap: id_wrap(), honest: None };
        b.target("message/certificate.json", &t, &compose(&ms, &hexw), wrapped, false);
        for t in avk_targets(w0, &[]) {
            b.target("message/certificate.json", &t, &compose(&avk, &hexw), wrapped, false);
        }
        let t = Tgt { site: "aggregate-verification-key-json", label: "w1/AVK:json".into(), kind: Kind::Json, base: json_enc(&w0.avk), wrap: id_wrap(), honest: None };
        b.target("message/certificate.json", &t, &compose(&avk, &hexw), wrapped, false);
        if let Ok(k) = ProtocolKey::<ed25519_dalek::Signature>::from_bytes_hex(fake_keys::genesis_signature()[0]) {
            let t = Tgt { site: "ed25519-signature", label: "fixture/ED25519-SIG".into(), kind: Kind::Raw, base: raw(k.to_bytes_vec().unwrap()), wrap: id_wrap(), honest: None };
            b.target("message/certificate.json", &t, &compose(&gs, &hexw), wrapped, false);
        }
        for f in [&ms, &avk, &gs] {
            b.blind_bytes("message/certificate.json", "certificate-message-field", Some(&compose(f, &hexw)));
        }
        b.json_bombs("message/certificate.json", "certificate-message-json", None);
        b.json_bombs("message/certificate.json", "protocol-key-json-hex", Some(&compose(&ms, &hexw)));
        b.cbor_bombs("message/certificate.json", "aggregate-signature-cbor", Some(&compose(&ms, &hexw)));
        // optional ancillary fields (uninhabited types without future_snark: must be rejected, not crash)
        let mut doc4 = doc.clone();
        doc4.as_object_mut().unwrap().insert("ancillary_prover_data".into(), Value::String("00".into()));
        let anc = field_wrap(&doc4, &["ancillary_prover_data"]);
        b.blind_bytes("message/certificate.json", "ancillary-data-cbor", Some(&compose(&anc, &hexw)));
        b.cbor_bombs("message/certificate.json", "ancillary-data-cbor", Some(&compose(&anc, &hexw)));
    }
    // signer registration and signer lists
    {
        let vkpop = w0.initializers[0].get_verification_key_proof_of_possession_for_concatenation();
        let rs = RegisterSignerMessage::dummy();
        let sws = vec![SignerWithStakeMessagePart::dummy(), SignerWithStakeMessagePart::dummy()];
        let sp = vec![SignerMessagePart::dummy()];
        let msd = MithrilStakeDistributionMessage::dummy();
        let docs: Vec<(&str, &'static str, Value, Vec<&str>, Vec<u8>)> = vec![
            ("message/register-signer.json", "register-signer-message-json", serde_json::to_value(&rs).unwrap(), vec![], dec::conv_register_signer(rs.clone()).expect("honest")),
            ("message/signers.json", "signers-message-json", serde_json::to_value(&sws).unwrap(), vec!["0"], dec::conv_signers_with_stake(sws.clone()).expect("honest")),
            ("message/signers.json", "signers-message-json", serde_json::to_value(&sp).unwrap(), vec!["0"], dec::conv_signers(sp.clone()).expect("honest")),
            ("message/mithril-stake-distribution.json", "mithril-stake-distribution-message-json", serde_json::to_value(&msd).unwrap(), vec!["signers", "0"], dec::conv_mithril_stake_distribution(msd.clone()).expect("honest")),
        ];
        for (di, (decoder, site, doc, prefix, canon)) in docs.iter().enumerate() {
            let text = serde_json::to_vec(doc).unwrap();
            let t = Tgt { site, label: format!("{decoder} dummy#{di}"), kind: Kind::Json, base: raw(text.clone()), wrap: id_wrap(), honest: Some(canon.clone()) };
            b.target(decoder, &t, &idw, direct, true);
            let path = |f: &'static str| -> Vec<&str> {
                let mut p = prefix.clone();
                p.push(f);
                p
            };
            let fvk = field_wrap(doc, &path("verification_key"));
            let fsig = field_wrap(doc, &path("verification_key_signature"));
            let fop = field_wrap(doc, &path("operational_certificate"));
            let t = Tgt { site: "verification-key-pop", label: "w1/VKPOP".into(), kind: Kind::Raw, base: raw(vkpop.to_bytes().to_vec()), wrap: id_wrap(), honest: None };
            b.target(decoder, &t, &compose(&fvk, &hexw), wrapped, false);
            let t = Tgt { site: "verification-key-pop-json", label: "w1/VKPOP:json".into(), kind: Kind::Json, base: json_enc(&vkpop), wrap: id_wrap(), honest: None };
            b.target(decoder, &t, &compose(&fvk, &hexw), wrapped, false);
            if let Ok(k) = ProtocolKey::<OpCert>::from_json_hex(fake_keys::operational_certificate()[0]) {
                let t = Tgt { site: "operational-certificate-cbor", label: "fixture/OPCERT:cbor".into(), kind: Kind::Cbor, base: raw(k.to_bytes_vec().unwrap()), wrap: id_wrap(), honest: None };
                b.target(decoder, &t, &compose(&fop, &hexw), wrapped, false);
                let t = Tgt { site: "operational-certificate-json", label: "fixture/OPCERT:json".into(), kind: Kind::Json, base: raw(serde_json::to_vec(&*k).unwrap()), wrap: id_wrap(), honest: None };
                b.target(decoder, &t, &compose(&fop, &hexw), wrapped, false);
            }
            if let Ok(k) = ProtocolKey::<kes_summed_ed25519::kes::Sum6KesSig>::from_json_hex(fake_keys::signer_verification_key_signature()[0]) {
                let t = Tgt { site: "kes-signature", label: "fixture/KES-SIG".into(), kind: Kind::Raw, base: raw(k.to_bytes_vec().unwrap()), wrap: id_wrap(), honest: None };
                b.target(decoder, &t, &compose(&fsig, &hexw), Plan { light: true, ..wrapped }, false);
            }
            if di == 0 {
                for f in [&fvk, &fsig, &fop] {
                    b.blind_bytes(decoder, "register-signer-message-field", Some(&compose(f, &hexw)));
                }
                b.cbor_bombs(decoder, "operational-certificate-cbor", Some(&compose(&fop, &hexw)));
            }
            b.json_bombs(decoder, site, None);
        }
    }
    // signature registration over HTTP
    {
        let key = ProtocolKey::<SingleSignature>::new(w0.sigs[0].clone());
        let typed = RegisterSignatureMessageHttp { signature: key.to_json_hex().unwrap(), ..RegisterSignatureMessageHttp::dummy() };
        let doc: Value = serde_json::to_value(&typed).unwrap();
        let text = serde_json::to_vec(&typed).unwrap();
        let decoder = "message/register-signature-http.json";
        let canon = dec::conv_register_signature_http(typed.clone()).expect("honest");
        let t = Tgt { site: "register-signature-message-json", label: "message/REGISTER-SIGNATURE".into(), kind: Kind::Json, base: raw(text.clone()), wrap: id_wrap(), honest: Some(canon.clone()) };
        b.target(decoder, &t, &idw, direct, true);
        let typed2 = RegisterSignatureMessageHttp { signature: key.to_bytes_hex().unwrap(), ..typed.clone() };
        b.honest(decoder, "register-signature-message-json", "message/REGISTER-SIGNATURE bytes-hex", serde_json::to_vec(&typed2).unwrap(), canon.clone());
        let fs = field_wrap(&doc, &["signature"]);
        let canon_s = dec::canon_single_signature(&w0.sigs[0]);
        for t in s_targets(w0, 0, &canon_s) {
            b.target(decoder, &t, &compose(&fs, &hexw), wrapped, false);
        }
        let t = Tgt { site: "single-signature-json", label: "w1/S0:json".into(), kind: Kind::Json, base: json_enc(&w0.sigs[0]), wrap: id_wrap(), honest: None };
        b.target(decoder, &t, &compose(&fs, &hexw), wrapped, false);
        b.blind_bytes(decoder, "register-signature-message-field", Some(&compose(&fs, &hexw)));
        b.json_bombs(decoder, "register-signature-message-json", None);
    }
    // proof messages: document-level structure
    for (decoder, site, doc, canon) in [
        ("message/cardano-transactions-proofs-v1.json", "transactions-proofs-v1-message-json", &v1_doc, dec::conv_transactions_proofs_v1(v1_typed.clone()).expect("honest")),
        ("message/cardano-transactions-proofs-v2.json", "transactions-proofs-v2-message-json", &v2_doc, dec::conv_transactions_proofs_v2(v2_typed.clone()).expect("honest")),
        ("message/cardano-blocks-proofs-v2.json", "blocks-proofs-v2-message-json", &blocks_doc, dec::conv_blocks_proofs_v2(blocks_typed.clone()).expect("honest")),
    ] {
        let text = serde_json::to_vec(doc).unwrap();
        let t = Tgt { site, label: format!("{decoder} dummy"), kind: Kind::Json, base: raw(text.clone()), wrap: id_wrap(), honest: Some(canon) };
        b.target(decoder, &t, &idw, direct, true);
        b.json_bombs(decoder, site, None);
    }
    for (decoder, f) in [
        ("message/cardano-transactions-proofs-v1.json", &v1_field),
        ("message/cardano-transactions-proofs-v2.json", &v2_field),
        ("message/cardano-blocks-proofs-v2.json", &blocks_field),
    ] {
        b.blind_bytes(decoder, "mk-map-proof-bincode", Some(&compose(f, &hexw)));
    }

    // ------------------------------------------------------------------ finish
    let mut starts = Vec::with_capacity(b.segs.len());
    let mut total = 0u64;
    for s in &b.segs {
        starts.push(total);
        total += s.count;
    }
    // drop empty segments (keeps `locate` simple)
    let mut segs = vec![];
    let mut st = vec![];
    for (s, start) in b.segs.into_iter().zip(starts) {
        if s.count > 0 {
            st.push(start);
            segs.push(s);
        }
    }
    Space { segs, starts: st, total }
}
