//! Mutation families: every family is a finite, explicitly indexed set of deviations from a base
//! byte string (`count` elements, element `k` produced by `apply`). Nothing here is sampled.

use serde_json::Value;

#[derive(Clone, Copy, PartialEq, Eq, Debug)]
pub enum Lvl {
    /// reduced alphabets (quick tier, and wrapped entry points in thorough)
    Small,
    /// full alphabets
    Full,
}

pub const POS_CONSTS: [u8; 5] = [0x00, 0x01, 0x7f, 0x80, 0xff];

/// Boundary values for an 8-byte field written at `offset` of a buffer of `len` bytes.
/// `rem` = number of bytes that follow the field: a length prefix is in range iff value <= rem.
/// Fixed length per level (duplicates are allowed, so that indexing is uniform).
pub fn boundary_u64(len: usize, offset: usize, lvl: Lvl) -> Vec<u64> {
    let len = len as u64;
    let rem = len.saturating_sub(offset as u64 + 8);
    let top = u64::MAX;
    match lvl {
        Lvl::Small => vec![
            0,
            1,
            rem,
            rem + 1,
            1 << 20,
            1 << 28,
            1 << 32,
            1 << 52,
            1 << 61,
            (1 << 63) - 1,
            1 << 63,
            top - 15,
            top - 8,
            top - 7,
            top - 6,
            top,
        ],
        Lvl::Full => {
            let mut v = vec![
                0,
                1,
                2,
                rem.saturating_sub(1),
                rem,
                rem + 1,
                rem + 8,
                len.saturating_sub(1),
                len,
                len + 1,
                1 << 8,
                1 << 16,
                1 << 20,
                1 << 24,
                1 << 28,
                1 << 31,
                (1 << 32) - 1,
                1 << 32,
                1 << 40,
                1 << 52,
                1 << 56,
                1 << 60,
                1 << 61,
                (1 << 61) + 1,
                1 << 62,
                (1 << 63) - 1,
                1 << 63,
                (1 << 63) + 1,
            ];
            for d in 0..16u64 {
                v.push(top - d);
            }
            v
        }
    }
}

#[derive(Clone, Debug)]
pub enum Fam {
    /// the base itself (one element)
    Identity,
    /// every proper prefix
    Trunc,
    /// every position x {00,01,7f,80,ff,b^1,b+1}
    Pos,
    /// every 8-byte window (all offsets, stride s) overwritten with every boundary u64
    Win { be: bool, stride: usize, lvl: Lvl },
    /// the byte at every position re-read as a CBOR head and rewritten to the 8-byte-argument form
    /// of the same major type with every boundary value (a short head of 1/2/3/5/9 bytes is replaced)
    CborHead8 { stride: usize, lvl: Lvl },
    /// every position: CBOR head rewritten to the indefinite-length form (major|31), and to the
    /// 4-byte-argument form with {0, 2^31, 2^32-1}
    CborHeadMisc { stride: usize },
    /// bincode: the byte at every position replaced by a varint marker + boundary value
    /// (fb u16, fc u32, fd u64, fe u128)
    Varint { stride: usize, lvl: Lvl },
    /// delete the byte at every position
    Del,
    /// insert 00 / ff before every position (and at the end)
    Ins,
    /// a few suffixes appended
    Ext,
    /// structure-aware: pairs of known big-endian u64 fields x boundary values (Small) squared
    Fields2 { offsets: Vec<usize> },
    /// structure-aware JSON mutations of a base that is JSON text (see `JsonPlan`)
    Json { lvl: Lvl },
    /// all unordered pairs of `Json { lvl: Small }` mutations (two simultaneous deviations)
    Json2,
}

const EXT: [&[u8]; 6] = [&[0x00], &[0xff], &[0x01], &[0u8; 8], &[0xffu8; 8], &[0u8; 64]];

fn npos(len: usize, width: usize, stride: usize) -> u64 {
    if len < width {
        0
    } else {
        ((len - width) / stride + 1) as u64
    }
}

fn cbor_head_len(b: u8) -> usize {
    match b & 0x1f {
        24 => 2,
        25 => 3,
        26 => 5,
        27 => 9,
        _ => 1,
    }
}

fn varint_choices(len: usize, offset: usize, lvl: Lvl) -> Vec<Vec<u8>> {
    let mut out = vec![];
    for v in [0u16, 250, 251, 0x7fff, 0xffff] {
        let mut x = vec![0xfb];
        x.extend_from_slice(&v.to_le_bytes());
        out.push(x);
    }
    for v in [0u32, 0x10000, 0x7fff_ffff, 0x8000_0000, 0xffff_ffff] {
        let mut x = vec![0xfc];
        x.extend_from_slice(&v.to_le_bytes());
        out.push(x);
    }
    for v in boundary_u64(len, offset, lvl) {
        let mut x = vec![0xfd];
        x.extend_from_slice(&v.to_le_bytes());
        out.push(x);
    }
    for v in [0u128, 1 << 64, u128::MAX] {
        let mut x = vec![0xfe];
        x.extend_from_slice(&v.to_le_bytes());
        out.push(x);
    }
    out.push(vec![0xff]);
    out
}

impl Fam {
    pub fn name(&self) -> &'static str {
        match self {
            Fam::Identity => "identity",
            Fam::Trunc => "truncate",
            Fam::Pos => "byte",
            Fam::Win { be: true, .. } => "u64-window-be",
            Fam::Win { be: false, .. } => "u64-window-le",
            Fam::CborHead8 { .. } => "cbor-head-8byte-length",
            Fam::CborHeadMisc { .. } => "cbor-head-indefinite/4byte",
            Fam::Varint { .. } => "bincode-varint-inflate",
            Fam::Del => "delete-byte",
            Fam::Ins => "insert-byte",
            Fam::Ext => "append",
            Fam::Fields2 { .. } => "two-length-fields",
            Fam::Json { .. } => "json-structure",
            Fam::Json2 => "json-structure-pairs",
        }
    }

    pub fn count(&self, base: &[u8]) -> u64 {
        let len = base.len();
        match self {
            Fam::Identity => 1,
            Fam::Trunc => len as u64,
            Fam::Pos => 7 * len as u64,
            Fam::Win { stride, lvl, .. } => npos(len, 8, *stride) * boundary_u64(0, 0, *lvl).len() as u64,
            Fam::CborHead8 { stride, lvl } => npos(len, 1, *stride) * boundary_u64(0, 0, *lvl).len() as u64,
            Fam::CborHeadMisc { stride } => npos(len, 1, *stride) * 4,
            Fam::Varint { stride, lvl } => npos(len, 1, *stride) * varint_choices(0, 0, *lvl).len() as u64,
            Fam::Del => len as u64,
            Fam::Ins => 2 * (len as u64 + 1),
            Fam::Ext => EXT.len() as u64,
            Fam::Fields2 { offsets } => {
                let n = offsets.len() as u64;
                let v = boundary_u64(0, 0, Lvl::Small).len() as u64;
                n * n.saturating_sub(1) / 2 * v * v
            }
            Fam::Json { lvl } => JsonPlan::new(base, *lvl).map(|p| p.count()).unwrap_or(0),
            Fam::Json2 => JsonPlan::for_pairs(base).map(|p| p.count2()).unwrap_or(0),
        }
    }

    pub fn apply(&self, base: &[u8], k: u64) -> Vec<u8> {
        let len = base.len();
        let k = k as usize;
        match self {
            Fam::Identity => base.to_vec(),
            Fam::Trunc => base[..k].to_vec(),
            Fam::Pos => {
                let (p, c) = (k / 7, k % 7);
                let mut v = base.to_vec();
                v[p] = match c {
                    0..=4 => POS_CONSTS[c],
                    5 => base[p] ^ 1,
                    _ => base[p].wrapping_add(1),
                };
                v
            }
            Fam::Win { be, stride, lvl } => {
                let nv = boundary_u64(0, 0, *lvl).len();
                let (pi, vi) = (k / nv, k % nv);
                let o = pi * stride;
                let val = boundary_u64(len, o, *lvl)[vi];
                let mut v = base.to_vec();
                v[o..o + 8].copy_from_slice(&if *be { val.to_be_bytes() } else { val.to_le_bytes() });
                v
            }
            Fam::CborHead8 { stride, lvl } => {
                let nv = boundary_u64(0, 0, *lvl).len();
                let (pi, vi) = (k / nv, k % nv);
                let p = pi * stride;
                let hl = cbor_head_len(base[p]).min(len - p);
                let val = boundary_u64(len, p + hl - 1, *lvl)[vi];
                let mut v = base[..p].to_vec();
                v.push((base[p] & 0xe0) | 27);
                v.extend_from_slice(&val.to_be_bytes());
                v.extend_from_slice(&base[p + hl..]);
                v
            }
            Fam::CborHeadMisc { stride } => {
                let (pi, c) = (k / 4, k % 4);
                let p = pi * stride;
                let hl = cbor_head_len(base[p]).min(len - p);
                let mut v = base[..p].to_vec();
                if c == 0 {
                    v.push((base[p] & 0xe0) | 31);
                } else {
                    v.push((base[p] & 0xe0) | 26);
                    let val: u32 = [0, 0x8000_0000, 0xffff_ffff][c - 1];
                    v.extend_from_slice(&val.to_be_bytes());
                }
                v.extend_from_slice(&base[p + hl..]);
                v
            }
            Fam::Varint { stride, lvl } => {
                let nv = varint_choices(0, 0, *lvl).len();
                let (pi, vi) = (k / nv, k % nv);
                let p = pi * stride;
                let mut v = base[..p].to_vec();
                v.extend_from_slice(&varint_choices(len, p, *lvl)[vi]);
                v.extend_from_slice(&base[p + 1..]);
                v
            }
            Fam::Del => {
                let mut v = base.to_vec();
                v.remove(k);
                v
            }
            Fam::Ins => {
                let (p, c) = (k / 2, k % 2);
                let mut v = base.to_vec();
                v.insert(p, if c == 0 { 0x00 } else { 0xff });
                v
            }
            Fam::Ext => {
                let mut v = base.to_vec();
                v.extend_from_slice(EXT[k]);
                v
            }
            Fam::Fields2 { offsets } => {
                let nv = boundary_u64(0, 0, Lvl::Small).len();
                let per_pair = nv * nv;
                let (pair, rest) = (k / per_pair, k % per_pair);
                let (va, vb) = (rest / nv, rest % nv);
                // pair index -> (i, j), i < j
                let n = offsets.len();
                let mut idx = 0usize;
                let mut sel = (0, 1);
                'outer: for i in 0..n {
                    for j in i + 1..n {
                        if idx == pair {
                            sel = (i, j);
                            break 'outer;
                        }
                        idx += 1;
                    }
                }
                let mut v = base.to_vec();
                for (o, vi) in [(offsets[sel.0], va), (offsets[sel.1], vb)] {
                    let val = boundary_u64(len, o, Lvl::Small)[vi];
                    v[o..o + 8].copy_from_slice(&val.to_be_bytes());
                }
                v
            }
            Fam::Json { lvl } => JsonPlan::new(base, *lvl).expect("json base").apply(k as u64),
            Fam::Json2 => JsonPlan::for_pairs(base).expect("json base").apply2(k as u64),
        }
    }
}

// ---------------------------------------------------------------------------------------------
// JSON structure mutations
// ---------------------------------------------------------------------------------------------

const PH: &str = "@@C05-PLACEHOLDER@@";

const NUMS_FULL: [&str; 20] = [
    "0",
    "1",
    "-1",
    "255",
    "256",
    "65536",
    "2147483648",
    "4294967295",
    "4294967296",
    "9007199254740993",
    "9223372036854775807",
    "9223372036854775808",
    "18446744073709551615",
    "18446744073709551616",
    "1e400",
    "-1e400",
    "0.5",
    "1e19",
    "-0",
    "1.7976931348623157e308",
];
const NUMS_SMALL: [&str; 8] = ["0", "-1", "256", "4294967296", "18446744073709551615", "18446744073709551616", "1e400", "0.5"];
const ANY_FULL: [&str; 6] = ["null", "true", "[]", "{}", "\"x\"", "0"];
const ANY_SMALL: [&str; 3] = ["null", "[]", "\"x\""];
const BOMB_DEPTHS_FULL: [usize; 5] = [127, 128, 129, 1000, 100_000];
const BOMB_DEPTHS_SMALL: [usize; 2] = [129, 100_000];

#[derive(Clone, Debug)]
enum Step {
    Key(String),
    Idx(usize),
}

pub struct JsonPlan {
    root: Value,
    /// (path, number of replacements at that node)
    nodes: Vec<(Vec<Step>, u64)>,
    lvl: Lvl,
    /// nesting bombs among the replacements (left out of the pair family: a bomb next to a second
    /// deviation adds nothing and costs megabytes per input)
    bombs: bool,
}

fn node_at<'a>(v: &'a Value, path: &[Step]) -> &'a Value {
    let mut cur = v;
    for s in path {
        cur = match s {
            Step::Key(k) => &cur[k.as_str()],
            Step::Idx(i) => &cur[*i],
        };
    }
    cur
}

fn node_at_mut<'a>(v: &'a mut Value, path: &[Step]) -> &'a mut Value {
    let mut cur = v;
    for s in path {
        cur = match s {
            Step::Key(k) => cur.get_mut(k.as_str()).expect("key"),
            Step::Idx(i) => cur.get_mut(*i).expect("idx"),
        };
    }
    cur
}

fn json_string(s: &str) -> String {
    serde_json::to_string(s).unwrap()
}

impl JsonPlan {
    pub fn new(base: &[u8], lvl: Lvl) -> Option<JsonPlan> {
        Self::with(base, lvl, true)
    }

    pub fn for_pairs(base: &[u8]) -> Option<JsonPlan> {
        Self::with(base, Lvl::Small, false)
    }

    fn with(base: &[u8], lvl: Lvl, bombs: bool) -> Option<JsonPlan> {
        let root: Value = serde_json::from_slice(base).ok()?;
        let mut paths = vec![];
        fn walk(v: &Value, path: &mut Vec<Step>, out: &mut Vec<Vec<Step>>) {
            out.push(path.clone());
            match v {
                Value::Array(a) => {
                    for (i, e) in a.iter().enumerate() {
                        path.push(Step::Idx(i));
                        walk(e, path, out);
                        path.pop();
                    }
                }
                Value::Object(o) => {
                    for (k, e) in o.iter() {
                        path.push(Step::Key(k.clone()));
                        walk(e, path, out);
                        path.pop();
                    }
                }
                _ => {}
            }
        }
        walk(&root, &mut vec![], &mut paths);
        let mut plan = JsonPlan { root, nodes: vec![], lvl, bombs };
        let nodes = paths
            .into_iter()
            .map(|p| {
                let n = plan.replacements(&p, None).1;
                (p, n)
            })
            .collect();
        plan.nodes = nodes;
        Some(plan)
    }

    pub fn count(&self) -> u64 {
        self.nodes.iter().map(|n| n.1).sum()
    }

    /// replacement `want` (raw JSON text) for the node at `path`, and the number of replacements
    fn replacements(&self, path: &[Step], want: Option<u64>) -> (Option<String>, u64) {
        let node = node_at(&self.root, path);
        let full = self.lvl == Lvl::Full;
        let mut n = 0u64;
        let mut found: Option<String> = None;
        let mut emit = |f: &dyn Fn() -> String| {
            if want == Some(n) {
                found = Some(f());
            }
            n += 1;
        };
        // type-independent
        let any: &[&str] = if full { &ANY_FULL } else { &ANY_SMALL };
        for a in any {
            emit(&|| a.to_string());
        }
        let depths: &[usize] = if full { &BOMB_DEPTHS_FULL } else { &BOMB_DEPTHS_SMALL };
        // nesting bombs are tried at the root and at depth-1 nodes only (a deeper position adds nothing)
        if path.len() <= 1 && self.bombs {
            for d in depths {
                emit(&|| format!("{}{}", "[".repeat(*d), "]".repeat(*d)));
                emit(&|| format!("{}0{}", "{\"a\":".repeat(*d), "}".repeat(*d)));
            }
        }
        match node {
            Value::Number(_) => {
                let nums: &[&str] = if full { &NUMS_FULL } else { &NUMS_SMALL };
                for x in nums {
                    emit(&|| x.to_string());
                }
            }
            Value::String(s) => {
                emit(&|| "\"\"".to_string());
                emit(&|| "\"0\"".to_string());
                emit(&|| "\"zz\"".to_string());
                emit(&|| json_string(&format!("{s}0")));
                emit(&|| json_string(&s.chars().take(s.chars().count().saturating_sub(1)).collect::<String>()));
                emit(&|| json_string(&format!("g{}", s.chars().skip(1).collect::<String>())));
                emit(&|| json_string(&s.to_uppercase()));
                emit(&|| json_string(&format!(" {s}\n")));
                if full {
                    emit(&|| json_string(&"00".repeat(1 << 19)));
                    emit(&|| json_string(&"7b".repeat(1 << 19)));
                }
            }
            Value::Array(a) => {
                emit(&|| "[]".to_string());
                if let Some(first) = a.first() {
                    let f = serde_json::to_string(first).unwrap();
                    emit(&|| format!("[{f}]"));
                    emit(&|| {
                        let mut b = a.clone();
                        b.pop();
                        serde_json::to_string(&b).unwrap()
                    });
                    emit(&|| {
                        let mut b = a.clone();
                        b.push(a.last().unwrap().clone());
                        serde_json::to_string(&b).unwrap()
                    });
                    // every array -> 10^4 elements (copies of its first element); fewer copies of a
                    // large element, so that the document stays below ~256 KB (decoding work is
                    // proportional to the input and must not be mistaken for a hang)
                    let copies = 10_000usize.min((1 << 18) / (f.len() + 1)).max(2);
                    emit(&|| format!("[{}]", vec![f.as_str(); copies].join(",")));
                }
            }
            Value::Object(o) => {
                emit(&|| "{}".to_string());
                for k in o.keys() {
                    emit(&|| {
                        let mut b = o.clone();
                        b.remove(k);
                        serde_json::to_string(&b).unwrap()
                    });
                }
                emit(&|| {
                    let mut b = o.clone();
                    b.insert("unknown_field".into(), Value::from(1));
                    serde_json::to_string(&b).unwrap()
                });
                // duplicate first key
                if let Some((k, v)) = o.iter().next() {
                    emit(&|| {
                        let s = serde_json::to_string(&o).unwrap();
                        format!("{{{}:{},{}", json_string(k), serde_json::to_string(v).unwrap(), &s[1..])
                    });
                }
            }
            _ => {}
        }
        (found, n)
    }

    /// number of unordered pairs {a, b}, a < b, of single mutations
    pub fn count2(&self) -> u64 {
        let n = self.count();
        n * n.saturating_sub(1) / 2
    }

    fn pick(&self, mut k: u64) -> (&Vec<Step>, String) {
        for (path, n) in &self.nodes {
            if k < *n {
                return (path, self.replacements(path, Some(k)).0.expect("replacement"));
            }
            k -= n;
        }
        panic!("json mutation index out of range");
    }

    /// pair `k` -> (a, b) with a < b; both replacements are applied when their nodes are disjoint
    /// (otherwise the outer one wins, which repeats a single mutation)
    pub fn apply2(&self, k: u64) -> Vec<u8> {
        // k = b(b-1)/2 + a
        let mut b = ((((8 * k + 1) as f64).sqrt() + 1.0) / 2.0) as u64;
        while b * (b - 1) / 2 > k {
            b -= 1;
        }
        while (b + 1) * b / 2 <= k {
            b += 1;
        }
        let a = k - b * (b - 1) / 2;
        let (pa, ra) = self.pick(a);
        let (pb, rb) = self.pick(b);
        let prefix = |x: &Vec<Step>, y: &Vec<Step>| x.len() <= y.len() && x.iter().zip(y.iter()).all(|(p, q)| format!("{p:?}") == format!("{q:?}"));
        if prefix(pa, pb) {
            return self.apply(a);
        }
        if prefix(pb, pa) {
            return self.apply(b);
        }
        let mut root = self.root.clone();
        *node_at_mut(&mut root, pa) = Value::String(format!("{PH}A"));
        *node_at_mut(&mut root, pb) = Value::String(format!("{PH}B"));
        let text = serde_json::to_string(&root).unwrap();
        text.replacen(&format!("\"{PH}A\""), &ra, 1).replacen(&format!("\"{PH}B\""), &rb, 1).into_bytes()
    }

    pub fn apply(&self, mut k: u64) -> Vec<u8> {
        for (path, n) in &self.nodes {
            if k < *n {
                let raw = self.replacements(path, Some(k)).0.expect("replacement");
                if path.is_empty() {
                    return raw.into_bytes();
                }
                let mut root = self.root.clone();
                *node_at_mut(&mut root, path) = Value::String(PH.to_string());
                let text = serde_json::to_string(&root).unwrap();
                return text.replacen(&format!("\"{PH}\""), &raw, 1).into_bytes();
            }
            k -= n;
        }
        panic!("json mutation index out of range");
    }
}

/// `prefix ‖ unit^n ‖ suffix`
pub fn repeat_input(prefix: &[u8], unit: &[u8], n: usize, suffix: &[u8]) -> Vec<u8> {
    let mut v = Vec::with_capacity(prefix.len() + unit.len() * n + suffix.len());
    v.extend_from_slice(prefix);
    for _ in 0..n {
        v.extend_from_slice(unit);
    }
    v.extend_from_slice(suffix);
    v
}

/// Blind space (a): all byte strings of length <= `all_len` over all 256 values and of length
/// `all_len < l <= alpha_len` over {00,01,7f,80,ff}.
pub struct Blind {
    pub all_len: usize,
    pub alpha_len: usize,
}

impl Blind {
    pub fn count(&self) -> u64 {
        let mut n = 0u64;
        for l in 0..=self.all_len {
            n += 256u64.pow(l as u32);
        }
        for l in self.all_len + 1..=self.alpha_len {
            n += 5u64.pow(l as u32);
        }
        n
    }
    pub fn get(&self, mut k: u64) -> Vec<u8> {
        for l in 0..=self.all_len {
            let c = 256u64.pow(l as u32);
            if k < c {
                return (0..l).map(|i| ((k >> (8 * i)) & 0xff) as u8).collect();
            }
            k -= c;
        }
        for l in self.all_len + 1..=self.alpha_len {
            let c = 5u64.pow(l as u32);
            if k < c {
                let mut v = vec![];
                for _ in 0..l {
                    v.push(POS_CONSTS[(k % 5) as usize]);
                    k /= 5;
                }
                return v;
            }
            k -= c;
        }
        panic!("blind index out of range")
    }
}
