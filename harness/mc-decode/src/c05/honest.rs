//! Honest values and their encodings in every form the decoders accept.
//!
//! The CBOR forms are produced by the real encoders (`to_bytes`). The *legacy* fixed-layout forms
//! have no encoder in the code base any more; they are written here from the layout comments of
//! the decoders, component by component, so that any component can be swapped for a mutated one
//! (`Form::{Cbor, Legacy}` can be chosen independently at every nesting level, exactly as the
//! decoders dispatch on the first byte at every level). `self_check` proves the mirror envelopes
//! against the real encoder (byte equality) before anything is swept.

use mithril_stm::{
    AggregateSignature, AggregateSignatureType, AggregateVerificationKeyForConcatenation, AncillaryGenesisData,
    AncillaryProofInput, Clerk, Initializer, KeyRegistration, MithrilMembershipDigest, Parameters, RegistrationEntry,
    Signer, SingleSignature,
};
use rand_chacha::ChaCha20Rng;
use rand_core::SeedableRng;
use serde::{Deserialize, Serialize};

pub type D = MithrilMembershipDigest;

#[derive(Clone, Copy, PartialEq, Eq, Debug)]
pub enum Form {
    Cbor,
    Legacy,
}

impl Form {
    pub fn name(&self) -> &'static str {
        match self {
            Form::Cbor => "cbor",
            Form::Legacy => "legacy",
        }
    }
}

// ---- mirror envelopes (same field names and order as the private envelopes in mithril-stm) ----

#[derive(Serialize, Deserialize)]
struct AggEnv {
    signature_type: u8,
    proof_bytes: Vec<u8>,
}
#[derive(Serialize, Deserialize)]
struct CpEnv {
    signature_bytes: Vec<Vec<u8>>,
    batch_proof_bytes: Vec<u8>,
}
#[derive(Serialize, Deserialize)]
struct SpEnv {
    signature_bytes: Vec<u8>,
    registration_entry_bytes: Vec<u8>,
}
#[derive(Serialize, Deserialize)]
struct RegEnv {
    verification_key_bytes: Vec<u8>,
    stake: u64,
}
#[derive(Serialize, Deserialize)]
struct SigCbor {
    sigma: Vec<u8>,
    indexes: Vec<u64>,
    signer_index: u64,
}
#[derive(Serialize, Deserialize)]
struct BpCbor {
    values: Vec<Vec<u8>>,
    indices: Vec<u64>,
    hasher: Option<()>,
}
#[derive(Serialize, Deserialize)]
struct MtcCbor {
    root: Vec<u8>,
    nr_leaves: u64,
    hasher: Option<()>,
}
#[derive(Serialize, Deserialize)]
struct AvkCbor {
    mt_commitment: MtcCbor,
    total_stake: u64,
}

fn cbor_v1<T: Serialize>(t: &T) -> Vec<u8> {
    let mut out = vec![1u8];
    ciborium::ser::into_writer(t, &mut out).expect("cbor");
    out
}
fn from_cbor_v1<T: for<'a> Deserialize<'a>>(b: &[u8]) -> T {
    assert_eq!(b[0], 1, "cbor v1 prefix");
    ciborium::de::from_reader(&b[1..]).expect("mirror decode")
}

#[derive(Clone)]
pub struct SigParts {
    pub cbor: Vec<u8>,
    pub sigma: Vec<u8>,
    pub indexes: Vec<u64>,
    pub signer_index: u64,
}
#[derive(Clone)]
pub struct RegParts {
    pub vk: Vec<u8>,
    pub stake: u64,
}
#[derive(Clone)]
pub struct BpParts {
    pub cbor: Vec<u8>,
    pub values: Vec<Vec<u8>>,
    pub indices: Vec<u64>,
}
#[derive(Clone)]
pub struct AggParts {
    pub sps: Vec<(SigParts, RegParts)>,
    pub bp: BpParts,
}
#[derive(Clone)]
pub struct AvkParts {
    pub root: Vec<u8>,
    pub nr_leaves: u64,
    pub total_stake: u64,
}

pub fn sig_parts(real_cbor: &[u8]) -> SigParts {
    let m: SigCbor = from_cbor_v1(real_cbor);
    SigParts { cbor: real_cbor.to_vec(), sigma: m.sigma, indexes: m.indexes, signer_index: m.signer_index }
}

pub fn decompose(agg_cbor: &[u8]) -> AggParts {
    let a: AggEnv = from_cbor_v1(agg_cbor);
    assert_eq!(a.signature_type, 0);
    let cp: CpEnv = from_cbor_v1(&a.proof_bytes);
    let mut sps = vec![];
    for spb in &cp.signature_bytes {
        let sp: SpEnv = from_cbor_v1(spb);
        let r: RegEnv = from_cbor_v1(&sp.registration_entry_bytes);
        sps.push((sig_parts(&sp.signature_bytes), RegParts { vk: r.verification_key_bytes, stake: r.stake }));
    }
    let bp: BpCbor = from_cbor_v1(&cp.batch_proof_bytes);
    AggParts { sps, bp: BpParts { cbor: cp.batch_proof_bytes.clone(), values: bp.values, indices: bp.indices } }
}

pub fn avk_parts(avk_cbor: &[u8]) -> AvkParts {
    let a: AvkCbor = from_cbor_v1(avk_cbor);
    AvkParts { root: a.mt_commitment.root, nr_leaves: a.mt_commitment.nr_leaves, total_stake: a.total_stake }
}

/// an encoding plus the offsets of its big-endian u64 fields (legacy forms only)
#[derive(Clone)]
pub struct Enc {
    pub bytes: Vec<u8>,
    pub fields: Vec<usize>,
}

fn put_u64(v: &mut Vec<u8>, fields: &mut Vec<usize>, x: u64) {
    fields.push(v.len());
    v.extend_from_slice(&x.to_be_bytes());
}

pub fn enc_s(p: &SigParts, f: Form) -> Enc {
    match f {
        Form::Cbor => Enc { bytes: p.cbor.clone(), fields: vec![] },
        Form::Legacy => {
            let (mut v, mut fl) = (vec![], vec![]);
            put_u64(&mut v, &mut fl, p.indexes.len() as u64);
            for i in &p.indexes {
                put_u64(&mut v, &mut fl, *i);
            }
            v.extend_from_slice(&p.sigma);
            put_u64(&mut v, &mut fl, p.signer_index);
            Enc { bytes: v, fields: fl }
        }
    }
}

pub fn enc_r(p: &RegParts, f: Form) -> Enc {
    match f {
        Form::Cbor => Enc { bytes: cbor_v1(&RegEnv { verification_key_bytes: p.vk.clone(), stake: p.stake }), fields: vec![] },
        Form::Legacy => {
            let (mut v, mut fl) = (p.vk.clone(), vec![]);
            put_u64(&mut v, &mut fl, p.stake);
            Enc { bytes: v, fields: fl }
        }
    }
}

pub fn enc_sp(s: &[u8], r: &[u8], f: Form) -> Enc {
    match f {
        Form::Cbor => Enc { bytes: cbor_v1(&SpEnv { signature_bytes: s.to_vec(), registration_entry_bytes: r.to_vec() }), fields: vec![] },
        Form::Legacy => {
            let (mut v, mut fl) = (vec![], vec![]);
            put_u64(&mut v, &mut fl, r.len() as u64);
            v.extend_from_slice(r);
            put_u64(&mut v, &mut fl, s.len() as u64);
            v.extend_from_slice(s);
            Enc { bytes: v, fields: fl }
        }
    }
}

pub fn enc_bp(p: &BpParts, f: Form) -> Enc {
    match f {
        Form::Cbor => Enc { bytes: p.cbor.clone(), fields: vec![] },
        Form::Legacy => {
            let (mut v, mut fl) = (vec![], vec![]);
            put_u64(&mut v, &mut fl, p.values.len() as u64);
            put_u64(&mut v, &mut fl, p.indices.len() as u64);
            for x in &p.values {
                v.extend_from_slice(x);
            }
            for i in &p.indices {
                put_u64(&mut v, &mut fl, *i);
            }
            Enc { bytes: v, fields: fl }
        }
    }
}

pub fn enc_cp(sps: &[Vec<u8>], bp: &[u8], f: Form) -> Enc {
    match f {
        Form::Cbor => Enc { bytes: cbor_v1(&CpEnv { signature_bytes: sps.to_vec(), batch_proof_bytes: bp.to_vec() }), fields: vec![] },
        Form::Legacy => {
            let (mut v, mut fl) = (vec![], vec![]);
            put_u64(&mut v, &mut fl, sps.len() as u64);
            for sp in sps {
                put_u64(&mut v, &mut fl, sp.len() as u64);
                v.extend_from_slice(sp);
            }
            v.extend_from_slice(bp);
            Enc { bytes: v, fields: fl }
        }
    }
}

pub fn enc_a(cp: &Enc, f: Form) -> Enc {
    match f {
        Form::Cbor => Enc { bytes: cbor_v1(&AggEnv { signature_type: 0, proof_bytes: cp.bytes.clone() }), fields: vec![] },
        Form::Legacy => {
            let mut v = vec![0u8];
            v.extend_from_slice(&cp.bytes);
            Enc { bytes: v, fields: cp.fields.iter().map(|o| o + 1).collect() }
        }
    }
}

pub fn enc_avk(p: &AvkParts, f: Form) -> Enc {
    match f {
        Form::Cbor => Enc {
            bytes: cbor_v1(&AvkCbor {
                mt_commitment: MtcCbor { root: p.root.clone(), nr_leaves: p.nr_leaves, hasher: None },
                total_stake: p.total_stake,
            }),
            fields: vec![],
        },
        Form::Legacy => {
            let (mut v, mut fl) = (vec![], vec![]);
            put_u64(&mut v, &mut fl, p.nr_leaves);
            v.extend_from_slice(&p.root);
            put_u64(&mut v, &mut fl, p.total_stake);
            Enc { bytes: v, fields: fl }
        }
    }
}

pub fn enc_params_legacy(p: &Parameters) -> Enc {
    let (mut v, mut fl) = (vec![], vec![]);
    put_u64(&mut v, &mut fl, p.m);
    put_u64(&mut v, &mut fl, p.k);
    put_u64(&mut v, &mut fl, p.phi_f.to_bits());
    Enc { bytes: v, fields: fl }
}

/// whole aggregate signature with every node in form `f`
pub fn enc_agg_uniform(p: &AggParts, f: Form) -> Enc {
    let sps: Vec<Vec<u8>> = p.sps.iter().map(|(s, r)| enc_sp(&enc_s(s, f).bytes, &enc_r(r, f).bytes, f).bytes).collect();
    enc_a(&enc_cp(&sps, &enc_bp(&p.bp, f).bytes, f), f)
}

pub struct StmWorld {
    pub name: &'static str,
    pub params: Parameters,
    pub initializers: Vec<Initializer>,
    pub sigs: Vec<SingleSignature>,
    pub agg: AggregateSignature<D>,
    pub avk: AggregateVerificationKeyForConcatenation<D>,
    pub agg_parts: AggParts,
    pub avk_parts: AvkParts,
}

pub fn stm_world(name: &'static str, params: Parameters, stakes: &[u64]) -> StmWorld {
    for seed in 0u8..=255 {
        let mut rng = ChaCha20Rng::from_seed([seed; 32]);
        let mut reg = KeyRegistration::initialize();
        let mut inits = vec![];
        for s in stakes {
            let p = Initializer::new(params, *s, &mut rng);
            let e = RegistrationEntry::new(p.get_verification_key_proof_of_possession_for_concatenation(), p.stake).expect("entry");
            reg.register_by_entry(&e).expect("register");
            inits.push(p);
        }
        let closed = reg.close_registration(&params).expect("close");
        let signers: Vec<Signer<D>> = inits.iter().map(|p| p.clone().try_create_signer::<D>(&closed).expect("signer")).collect();
        let msg = b"C05 honest message";
        let sigs: Vec<SingleSignature> = signers.iter().filter_map(|s| s.create_single_signature(msg).ok()).collect();
        if sigs.is_empty() {
            continue;
        }
        let clerk = Clerk::new_clerk_from_signer(&signers[0]);
        let Ok((agg, _)) = clerk.aggregate_signatures_with_type(
            &sigs,
            msg,
            AggregateSignatureType::Concatenation,
            AncillaryProofInput::new(None, AncillaryGenesisData::new()),
        ) else {
            continue;
        };
        let avk = clerk.compute_aggregate_verification_key().to_concatenation_aggregate_verification_key().clone();
        let agg_parts = decompose(&agg.to_bytes().expect("agg bytes"));
        if stakes.len() > 1 && agg_parts.sps.len() < 2 {
            continue;
        }
        let avk_parts = avk_parts(&avk.to_bytes().expect("avk bytes"));
        return StmWorld { name, params, initializers: inits, sigs, agg, avk, agg_parts, avk_parts };
    }
    panic!("no seed gives an aggregate signature for world {name}");
}

/// The mirror encoders must reproduce the real encoder byte for byte.
pub fn self_check(w: &StmWorld) -> Result<(), String> {
    let real = w.agg.to_bytes().map_err(|e| e.to_string())?;
    let mine = enc_agg_uniform(&w.agg_parts, Form::Cbor).bytes;
    if real != mine {
        return Err(format!("{}: mirror CBOR encoding of the aggregate signature differs from AggregateSignature::to_bytes", w.name));
    }
    let real = w.avk.to_bytes().map_err(|e| e.to_string())?;
    if real != enc_avk(&w.avk_parts, Form::Cbor).bytes {
        return Err(format!("{}: mirror CBOR encoding of the aggregate verification key differs from to_bytes", w.name));
    }
    Ok(())
}

fn cbor_head(major: u8, v: u64, out: &mut Vec<u8>) {
    let m = major << 5;
    if v < 24 {
        out.push(m | v as u8);
    } else if v <= 0xff {
        out.extend_from_slice(&[m | 24, v as u8]);
    } else if v <= 0xffff {
        out.push(m | 25);
        out.extend_from_slice(&(v as u16).to_be_bytes());
    } else if v <= 0xffff_ffff {
        out.push(m | 26);
        out.extend_from_slice(&(v as u32).to_be_bytes());
    } else {
        out.push(m | 27);
        out.extend_from_slice(&v.to_be_bytes());
    }
}

/// The real CBOR encoding of a single signature (an indefinite-length map because of
/// `#[serde(flatten)]`) with other indexes / signer index: `01 bf "sigma" [..] "indexes" [..]
/// "signer_index" n ff`, integers in shortest form as ciborium writes them.
pub fn sig_cbor_with(real: &[u8], indexes: &[u64], signer_index: u64) -> Vec<u8> {
    let key = b"\x67indexes";
    let pos = real.windows(key.len()).position(|w| w == key).expect("indexes key");
    let mut v = real[..pos + key.len()].to_vec();
    cbor_head(4, indexes.len() as u64, &mut v);
    for i in indexes {
        cbor_head(0, *i, &mut v);
    }
    v.extend_from_slice(b"\x6csigner_index");
    cbor_head(0, signer_index, &mut v);
    v.push(0xff);
    v
}

/// the same world with every integer field at a u64 extreme (well-formed values of the types;
/// the group elements are kept): encode/decode must be lossless on them too
pub fn extreme_parts(p: &AggParts) -> AggParts {
    let mut q = p.clone();
    for (i, (s, r)) in q.sps.iter_mut().enumerate() {
        s.indexes = vec![0, 23, 24, 255, 256, 65_536, 1 << 32, (1 << 53) + 1, u64::MAX - i as u64];
        s.signer_index = u64::MAX - i as u64;
        s.cbor = sig_cbor_with(&s.cbor, &s.indexes, s.signer_index);
        r.stake = u64::MAX - 7 * i as u64;
    }
    q
}

pub fn extreme_avk(p: &AvkParts) -> AvkParts {
    AvkParts { root: p.root.clone(), nr_leaves: (1 << 53) + 1, total_stake: u64::MAX }
}
