//! C12 — the database digest depends only on the immutable files up to the beacon.
//!
//! Bounded exhaustive, differential check on the real `CardanoImmutableDigester`
//! (`compute_merkle_tree`, `compute_digests_for_range`; no cache, memory cache, JSON file cache)
//! and `CardanoDatabaseSignableBuilder::compute_protocol_message`.
//!
//! The oracle never recomputes a digest. It only compares answers of the real code:
//!  * same covered content (names + bytes of the immutable files numbered <= beacon) ⇒ same root,
//!    whatever the creation order of the directory entries, the other files present, the files
//!    beyond the beacon, the directory handed in, the entry point, or the cache history;
//!  * computed without a cache, the root differs from the baseline for every single-byte change
//!    of a covered file and for every covered file removed, and is unchanged for every change of
//!    a file that is not covered.
//!
//! Parts: A layouts (orders / extra files / files beyond the beacon), B perturbations,
//! C cache histories, D observations (reported, never violations).

mod engine;
mod model;

use engine::{Cache, DirV, Engine, Out};
use mc_core::{Ctx, Report, hash64, par_map};
use model::*;
use serde_json::{Value, json};
use std::collections::{BTreeMap, HashMap, HashSet};
use std::path::{Path, PathBuf};

// ------------------------------------------------------------------------------------------------
// databases and baselines

#[derive(Clone, Copy, Debug, PartialEq, Eq, Hash)]
struct Db {
    p: Pattern,
    first: u64,
    n: u64,
}

impl Db {
    fn last(&self) -> u64 {
        self.first + self.n - 1
    }
    fn to_json(&self) -> Value {
        json!({"pattern": self.p.name(), "first_trio": self.first, "trios": self.n})
    }
    fn from_json(v: &Value) -> Option<Db> {
        Some(Db { p: Pattern::parse(v["pattern"].as_str()?)?, first: v["first_trio"].as_u64()?, n: v["trios"].as_u64()? })
    }
    fn canonical(&self) -> Vec<Entry> {
        trios(self.p, self.first..=self.last())
    }
}

/// Answers of the real code on the canonical layout (only `immutable/` holding exactly the trios
/// first..=beacon, created in sorted order; no cache; database directory handed in; epoch 1).
struct Baselines {
    root: HashMap<(Pattern, u64, u64), Out>,
    /// (pattern, file name) → digest reported by `compute_digests_for_range` without cache
    digest: HashMap<(Pattern, String), String>,
    /// (pattern, first, trios) → answer of the canonical database at the beacon one past its last
    /// trio (what a clean node answers when the beacon's trio is absent)
    missing: HashMap<(Pattern, u64, u64), Out>,
}

impl Baselines {
    fn root(&self, db: Db, b: u64) -> Option<&Out> {
        self.root.get(&(db.p, db.first, b))
    }
    /// expected answer of `compute_digests_for_range(lo..=hi)` on a layout: the reference digest
    /// of every canonical trio file of the layout whose number is in the range
    fn expected_range(&self, p: Pattern, es: &[Entry], lo: u64, hi: u64) -> Vec<(String, String)> {
        let mut v = vec![];
        for e in es {
            if e.dir {
                continue;
            }
            if let Some((num, ext)) = as_trio_file(&e.rel)
                && num >= lo
                && num <= hi
                && *e == trio_entry(p, num, ext)
            {
                let name = trio_name(num, ext);
                let d = self.digest.get(&(p, name.clone())).cloned().unwrap_or_else(|| "<no reference digest>".into());
                v.push((name, d));
            }
        }
        v.sort();
        v
    }
}

fn compute_baselines(eng: &Engine, scratch: &Path, patterns: &[Pattern], firsts: &[u64], nmax: u64, rep: &mut Report) -> Baselines {
    let mut bl = Baselines { root: HashMap::new(), digest: HashMap::new(), missing: HashMap::new() };
    for &p in patterns {
        for &first in firsts {
            for b in first..=first + nmax {
                let db = Db { p, first, n: b - first + 1 };
                let base = scratch.join(format!("baseline-{}-{first}-{b}", p.name().replace('/', "_")));
                let dir = materialize(&base, &db.canonical());
                rep.eval();
                let out = eng.merkle(None, &dir, b, 1);
                // the same content laid out a second time, somewhere else
                let base2 = scratch.join(format!("zz/again/baseline2-{}-{first}-{b}", p.name().replace('/', "_")));
                let dir2 = materialize(&base2, &db.canonical());
                let again = eng.merkle(None, &dir2, b, 1);
                let case = json!({"kind": "baseline", "db": db.to_json(), "beacon": b});
                if !out.is_root() {
                    rep.violation(
                        "C12/no-root-for-complete-database",
                        format!("a database holding exactly the complete trios {first}..={b} ({}) gives {} at beacon {b}", p.name(), out.show()),
                        case.clone(),
                    );
                } else {
                    rep.nontrivial(&("baseline", p, first, b));
                    rep.outcome("baseline-root");
                }
                if again != out {
                    rep.violation(
                        "C12/root-not-reproducible",
                        format!("the same canonical database written twice gives {} and {} at beacon {b}", out.show(), again.show()),
                        case,
                    );
                }
                if b == first + nmax {
                    match eng.range(None, &dir, 0, u64::MAX) {
                        Ok(v) => {
                            for (name, d) in v {
                                bl.digest.insert((p, name), d);
                            }
                        }
                        Err(e) => rep.machinery_error(format!("reference digests: compute_digests_for_range failed on the canonical database: {e}")),
                    }
                }
                bl.root.insert((p, first, b), out);
                bl.missing.insert((p, first, db.n), eng.merkle(None, &dir, b + 1, 1));
                let _ = std::fs::remove_dir_all(&base);
                let _ = std::fs::remove_dir_all(&base2);
            }
        }
    }
    bl
}

// ------------------------------------------------------------------------------------------------
// part A: layouts

#[derive(Clone, Debug, PartialEq, Eq, Hash)]
enum Spec {
    /// trios first..=last created in sorted order, nothing else
    Canonical,
    /// canonical + files numbered beyond every trio of the database
    Beyond(usize),
    /// canonical + one extra-file placement, created before (true) or after (false) the trios
    ExtraOne(usize, bool),
    /// all extra-file placements at once: 0 after the trios, 1 before, 2 interleaved
    ExtraAll(u8),
    /// trios + a few extras inside `immutable/`, sorted order (reference of ImmPerm)
    ImmExtras,
    /// k-th permutation of the creation order of the 3n trio files
    TrioPerm(u64),
    /// a named creation order of the trio files
    TrioNamed(usize),
    /// k-th creation order of the four top-level groups of a node-like layout
    TopLevel(u64),
    /// k-th permutation of the creation order of trio files + extras inside `immutable/`
    ImmPerm(u64),
    /// canonical + one file `immutable/<other spelling of number xs[xi]>.<ext>`
    Spelled(usize, usize, usize),
    /// the files of covered trio `first + ti` (all three, or the chunk only) renamed to another
    /// spelling of the number, contents kept
    Renamed(u64, usize, bool),
    /// canonical + one file with an immutable extension and a stem that is not a number
    Foreign(usize, bool),
}

/// numbers whose other spellings are added as extra files: not in the database but below every
/// beacon (when there is room), first trio, last trio, the trio after the last (the "missing
/// beacon"), and one beyond every beacon
fn spelled_numbers(db: Db) -> Vec<u64> {
    let mut v = vec![];
    if db.first > 0 {
        v.push(db.first - 1);
    }
    v.extend([db.first, db.last(), db.last() + 1, db.last() + 2]);
    v.dedup();
    v
}

#[derive(Clone, Debug, PartialEq, Eq)]
enum Class {
    Beyond,
    Order,
    Extra(String),
    /// a file in `immutable/` named `<number in a non-canonical spelling>.<immutable extension>`
    NonCanonicalName,
    /// a file in `immutable/` with an immutable extension and a stem that is not a number
    ForeignImmutableExtension,
}

impl Class {
    /// the layout is the canonical one plus files that are not immutable files (or the same files
    /// in another order): a clean node and this node must agree also on "no root"
    fn same_immutable_files_as_canonical(&self, spec: &Spec) -> bool {
        !matches!(self, Class::Beyond) && !matches!(spec, Spec::Renamed(..))
    }
}

fn beyond_additions(db: Db) -> Vec<(&'static str, Vec<Entry>, bool)> {
    let nx = db.last() + 1;
    let f = |num: u64, ext: usize| Entry { rel: format!("immutable/{}", trio_name(num, ext)), dir: false, data: bytes_for(&format!("beyond:{num}:{ext}"), 5) };
    vec![
        ("in-progress-trio-chunk-only", vec![f(nx + 1, 0)], false),
        ("in-progress-trio-after-gap", vec![f(nx + 1, 0), f(nx + 1, 1), f(nx + 1, 2), f(nx + 2, 0), f(nx + 2, 1)], false),
        ("far-trio-99999", vec![f(99999, 0), f(99999, 1), f(99999, 2)], false),
        ("six-digit-numbers", vec![f(100000, 0), f(123456, 2)], false),
        ("beyond-files-created-first", vec![f(nx + 1, 2), f(nx + 1, 0), f(99999, 1)], true),
    ]
}

fn imm_extras(db: Db) -> Vec<Entry> {
    let unused = if db.first > 0 { db.first - 1 } else { db.last() + 3 };
    let mut v = vec![file(&format!("immutable/{:05}.chunk.bak", db.first), 5)];
    if db.n == 1 {
        v.push(file("immutable/README", 5));
        v.push(dir(&format!("immutable/{unused:05}.chunk")));
    }
    v
}

fn top_groups(db: Db) -> Vec<Vec<Entry>> {
    let a = format!("{:05}", db.first);
    let mut g0 = vec![dir("immutable")];
    g0.extend(db.canonical());
    vec![
        g0,
        vec![dir("ledger"), file(&format!("ledger/{a}.chunk"), 5), dir("ledger/123999"), file("ledger/123999/state", 5), dir("ledger/123999/tables"), file("ledger/123999/tables/tvar", 1)],
        vec![dir("volatile"), file("volatile/blocks-0.dat", 5), file(&format!("volatile/{a}.secondary"), 5)],
        vec![file("protocolMagicId", 3), file(&format!("{a}.primary"), 5), file("lock", 0)],
    ]
}

fn build(db: Db, spec: &Spec) -> (Vec<Entry>, Class, String) {
    let canon = db.canonical();
    match spec {
        Spec::Canonical => (canon, Class::Beyond, "canonical".into()),
        Spec::Beyond(i) => {
            let (name, add, first) = beyond_additions(db).swap_remove(*i);
            let es = if first { add.into_iter().chain(canon).collect() } else { canon.into_iter().chain(add).collect() };
            (es, Class::Beyond, format!("beyond:{name}"))
        }
        Spec::ExtraOne(i, first) => {
            let x = extras(db.first, db.n).swap_remove(*i);
            let es: Vec<Entry> = if *first { x.entries.into_iter().chain(canon).collect() } else { canon.into_iter().chain(x.entries).collect() };
            (es, Class::Extra(x.place.to_string()), format!("extra:{}/{}:{}", x.place, x.name, if *first { "created-first" } else { "created-last" }))
        }
        Spec::ExtraAll(mode) => {
            let all: Vec<Entry> = extras(db.first, db.n).into_iter().flat_map(|x| x.entries).collect();
            let es: Vec<Entry> = match mode {
                0 => canon.into_iter().chain(all).collect(),
                1 => all.into_iter().chain(canon).collect(),
                _ => {
                    // one trio file after every third extra entry
                    let mut out = vec![];
                    let mut c = canon.into_iter();
                    for (i, e) in all.into_iter().enumerate() {
                        out.push(e);
                        if i % 3 == 2
                            && let Some(t) = c.next()
                        {
                            out.push(t);
                        }
                    }
                    out.extend(c);
                    out
                }
            };
            (es, Class::Extra("all-placements".into()), format!("extra:all:{}", ["created-last", "created-first", "interleaved"][(*mode as usize).min(2)]))
        }
        Spec::ImmExtras => {
            let es: Vec<Entry> = canon.into_iter().chain(imm_extras(db)).collect();
            (es, Class::Extra("immutable".into()), "extra:immutable/perm-base".into())
        }
        Spec::TrioPerm(k) => {
            let perm = nth_permutation(canon.len(), *k);
            (perm.iter().map(|&i| canon[i].clone()).collect(), Class::Order, format!("order:trio-files-permutation-{k}"))
        }
        Spec::TrioNamed(i) => {
            let (name, ord) = named_orders(canon.len()).swap_remove(*i);
            (ord.iter().map(|&i| canon[i].clone()).collect(), Class::Order, format!("order:{name}"))
        }
        Spec::TopLevel(k) => {
            let groups = top_groups(db);
            let perm = nth_permutation(groups.len(), *k);
            let es: Vec<Entry> = perm.iter().flat_map(|&i| groups[i].clone()).collect();
            let class = if *k == 0 { Class::Extra("node-layout".into()) } else { Class::Order };
            (es, class, format!("order:top-level-groups-{:?}", perm))
        }
        Spec::ImmPerm(k) => {
            let base: Vec<Entry> = canon.into_iter().chain(imm_extras(db)).collect();
            let perm = nth_permutation(base.len(), *k);
            (perm.iter().map(|&i| base[i].clone()).collect(), Class::Order, format!("order:immutable-dir-permutation-{k}"))
        }
        Spec::Spelled(xi, si, ext) => {
            let x = spelled_numbers(db)[*xi];
            let name = format!("{}.{}", spellings(x)[*si], EXTS[*ext]);
            let e = file(&format!("immutable/{name}"), 5);
            (canon.into_iter().chain([e]).collect(), Class::NonCanonicalName, format!("extra:immutable/non-canonical-name:{name}"))
        }
        Spec::Renamed(ti, si, whole) => {
            let x = db.first + ti;
            let sp = spellings(x)[*si].clone();
            let es: Vec<Entry> = canon
                .into_iter()
                .map(|mut e| {
                    if let Some((num, ext)) = as_trio_file(&e.rel)
                        && num == x
                        && (*whole || ext == 0)
                    {
                        e.rel = format!("immutable/{sp}.{}", EXTS[ext]);
                    }
                    e
                })
                .collect();
            (es, Class::NonCanonicalName, format!("renamed:{}-of-{x:05}-to-{sp}", if *whole { "trio" } else { "chunk" }))
        }
        Spec::Foreign(i, first) => {
            let name = foreign_names(db.first, db.last()).swap_remove(*i);
            let e = file(&format!("immutable/{name}"), 5);
            let es: Vec<Entry> = if *first { [e].into_iter().chain(canon).collect() } else { canon.into_iter().chain([e]).collect() };
            (es, Class::ForeignImmutableExtension, format!("extra:immutable/foreign-immutable-extension:{name:?}:{}", if *first { "created-first" } else { "created-last" }))
        }
    }
}

fn parent(spec: &Spec) -> Option<Spec> {
    match spec {
        Spec::Canonical => None,
        Spec::TopLevel(k) if *k > 0 => Some(Spec::TopLevel(0)),
        Spec::ImmPerm(_) => Some(Spec::ImmExtras),
        _ => Some(Spec::Canonical),
    }
}

fn class_key(c: &Class) -> String {
    match c {
        Class::Beyond => "C12/files-beyond-beacon-change-root".into(),
        Class::Order => "C12/root-depends-on-creation-order".into(),
        Class::Extra(place) => format!("C12/root-depends-on-extra-file:{place}"),
        Class::NonCanonicalName => "C12/non-canonical-name-digested-as-immutable".into(),
        Class::ForeignImmutableExtension => "C12/foreign-file-with-immutable-extension-breaks-computation".into(),
    }
}

#[derive(Clone, Copy, Debug, PartialEq, Eq, Hash)]
enum Chan {
    /// compute_merkle_tree, no cache, epoch 1
    Tree,
    /// CardanoDatabaseSignableBuilder::compute_protocol_message, fresh memory cache, epoch 9
    Message,
    /// compute_merkle_tree, fresh JSON cache file, epoch 0
    TreeJson,
}

impl Chan {
    const ALL: [Chan; 3] = [Chan::Tree, Chan::Message, Chan::TreeJson];
    fn name(self) -> &'static str {
        match self {
            Chan::Tree => "compute_merkle_tree/no-cache",
            Chan::Message => "compute_protocol_message/fresh-memory-cache",
            Chan::TreeJson => "compute_merkle_tree/fresh-json-cache",
        }
    }
    fn parse(s: &str) -> Chan {
        Chan::ALL.into_iter().find(|c| c.name() == s).unwrap_or(Chan::Tree)
    }
}

fn run_chan(eng: &Engine, base: &Path, dbdir: &Path, dirv: DirV, ch: Chan, b: u64) -> Out {
    let dir = dirv.path(dbdir);
    match ch {
        Chan::Tree => eng.merkle(None, &dir, b, 1),
        Chan::Message => eng.message(Some(eng.memory_cache()), &dir, b, 9),
        Chan::TreeJson => {
            let f = base.join("cache").join("fresh.json");
            let _ = std::fs::create_dir_all(f.parent().unwrap());
            let _ = std::fs::remove_file(&f);
            eng.merkle(Some(eng.json_cache(&f)), &dir, b, 0)
        }
    }
}

/// the property's verdict on one answer
fn conforms(out: &Out, baseline: &Out, complete: bool) -> bool {
    if complete { out == baseline } else { out != baseline || !baseline.is_root() }
}

fn layout_case(db: Db, es: &[Entry], desc: &str, b: u64, dirv: DirV, ch: Chan, key: &str) -> Value {
    json!({"kind": "layout", "db": db.to_json(), "layout": desc, "beacon": b, "directory_handed_in": dirv.name(),
           "entry_point": ch.name(), "key": key, "entries_in_creation_order": entries_to_json(es)})
}

/// evaluate one (layout, beacon, dir, channel) from scratch in `base` (used by diagnosis / replay)
fn eval_once(eng: &Engine, base: &Path, es: &[Entry], dirv: DirV, ch: Chan, b: u64) -> Out {
    let _ = std::fs::remove_dir_all(base);
    let dbdir = materialize(base, es);
    let out = run_chan(eng, base, &dbdir, dirv, ch, b);
    let _ = std::fs::remove_dir_all(base);
    out
}

/// A (Db-dir, Tree) mismatch of `spec`: attribute it to the topmost ancestor layout that already
/// mismatches (the smallest failing input), and name the key after that ancestor's class.
fn diagnose(eng: &Engine, base: &Path, db: Db, spec: &Spec, b: u64, baseline: &Out) -> (String, Vec<Entry>, String, Out) {
    let mut chain = vec![spec.clone()];
    while let Some(p) = parent(chain.last().unwrap()) {
        chain.push(p);
    }
    // a layout with several extra-file placements is explained by a single placement that fails alone
    if chain.iter().any(|s| matches!(s, Spec::ExtraAll(_) | Spec::ImmExtras | Spec::TopLevel(0))) {
        let at = chain.len() - 1;
        for i in 0..extras(db.first, db.n).len() {
            chain.insert(at, Spec::ExtraOne(i, false));
            chain.insert(at, Spec::ExtraOne(i, true));
        }
    }
    for s in chain.iter().rev() {
        let (es, class, desc) = build(db, s);
        let complete = covered_complete(&es, db.p, db.first, b);
        let out = eval_once(eng, &base.join("diag"), &es, DirV::Db, Chan::Tree, b);
        if !conforms(&out, baseline, complete) {
            let has_beyond = es.iter().any(|e| as_trio_file(&e.rel).is_some_and(|(num, _)| num > b));
            let key = if *s == Spec::Canonical && !has_beyond { "C12/root-not-reproducible".to_string() } else { class_key(&class) };
            return (key, es, desc, out);
        }
    }
    // not reproduced on a fresh copy
    let (es, _, desc) = build(db, spec);
    ("C12/root-not-reproducible".into(), es, desc, Out::Err("mismatch not reproduced on a fresh copy of the layout".into()))
}

struct LayoutStats {
    /// distinct readdir orders of `immutable/` seen, per database
    listings: HashSet<(Db, u64)>,
}

fn eval_variant(eng: &Engine, base: &Path, db: Db, spec: &Spec, light: bool, bl: &Baselines, rep: &mut Report, st: &mut LayoutStats) {
    let (es, class, desc) = build(db, spec);
    let _ = std::fs::remove_dir_all(base);
    let dbdir = materialize(base, &es);
    if class == Class::Order {
        st.listings.insert((db, hash64(&listing(&dbdir.join("immutable")))));
    }
    let layout_id = hash64(&es);
    let same_files = class.same_immutable_files_as_canonical(spec);
    let combos: Vec<(DirV, Chan)> = if light {
        vec![(DirV::Db, Chan::Tree)]
    } else {
        DirV::LAYOUTS.iter().flat_map(|d| Chan::ALL.iter().map(move |c| (*d, *c))).collect()
    };
    for b in db.first..=db.last() + 1 {
        let Some(baseline) = bl.root(db, b) else { continue };
        let complete = covered_complete(&es, db.p, db.first, b);
        let canon_missing = if b == db.last() + 1 { bl.missing.get(&(db.p, db.first, db.n)) } else { None };
        let mut base_chan_ok = true;
        // is the cache-less computation fine for the directory currently handed in?
        let mut imm_tree_ok = true;
        let mut tree_failed: Vec<DirV> = vec![];
        for &(dirv, ch) in &combos {
            if ch == Chan::Tree {
                imm_tree_ok = true;
            }
            rep.eval();
            let out = run_chan(eng, base, &dbdir, dirv, ch, b);
            if out.is_root() {
                rep.nontrivial(&("layout", db, layout_id, b, dirv, ch));
            }
            // a layout that holds the same immutable files as the canonical one must also agree with
            // it on "no root" when the beacon's trio is absent
            let rootness_ok = complete || !same_files || canon_missing.is_none_or(|c| c.is_root() == out.is_root());
            if conforms(&out, baseline, complete) && rootness_ok {
                rep.outcome(match (&out, complete) {
                    (Out::Root(_), true) => "root-equals-baseline",
                    (Out::Root(_), false) => "beacon-trio-incomplete→different-root",
                    (Out::Err(_), false) => "beacon-trio-missing→error",
                    (Out::Err(_), true) => "error-equals-baseline-error",
                });
                continue;
            }
            rep.outcome("MISMATCH");
            if !complete {
                let key = match &class {
                    Class::NonCanonicalName | Class::ForeignImmutableExtension => class_key(&class),
                    _ if !rootness_ok => class_key(&class),
                    _ => "C12/covered-file-missing-not-reflected".to_string(),
                };
                let what = if !rootness_ok {
                    format!(
                        "{:?}, layout {desc}: no immutable file numbered {b} exists (a database holding only the canonical files answers {}), yet {} via {} at beacon {b} answers {}",
                        db, canon_missing.map(|c| c.show()).unwrap_or_default(), ch.name(), dirv.name(), out.show()
                    )
                } else {
                    format!(
                        "{:?}, layout {desc} [{}]: the immutable files numbered up to {b} are not all present, yet {} via {} at beacon {b} answers {} — the root of the complete database",
                        db, brief(&es), ch.name(), dirv.name(), out.show()
                    )
                };
                rep.outcome(if !rootness_ok { "MISMATCH:root-although-no-immutable-file-of-the-beacon-exists" } else { "MISMATCH:covered-files-missing-yet-root-of-complete-database" });
                let mut case = layout_case(db, &es, &desc, b, dirv, ch, &key);
                case["must_not_yield_root"] = json!(!rootness_ok);
                rep.violation(&key, what, case);
                continue;
            }
            if (dirv, ch) == (DirV::Db, Chan::Tree) {
                base_chan_ok = false;
                let (key, des, ddesc, dout) = diagnose(eng, &base.join("d"), db, spec, b, baseline);
                rep.violation(
                    &key,
                    format!(
                        "{:?}, layout {ddesc} [{}]: compute_merkle_tree (no cache) at beacon {b} answers {}, but the canonical layout of the same covered files (trios {}..={b} only, sorted creation) answers {} (first seen on layout {desc})",
                        db, brief(&des), dout.show(), db.first, baseline.show()
                    ),
                    layout_case(db, &des, &ddesc, b, DirV::Db, Chan::Tree, &key),
                );
            } else if ch == Chan::Tree {
                // (another directory handed in, no cache)
                imm_tree_ok = false;
                tree_failed.push(dirv);
                if base_chan_ok {
                    let key = "C12/root-depends-on-directory-handed-in";
                    rep.violation(
                        key,
                        format!(
                            "{:?}, layout {desc}: compute_merkle_tree without cache at beacon {b} answers {} when handed the {} and the baseline {} when handed the database directory",
                            db, out.show(), dirv.name(), baseline.show()
                        ),
                        layout_case(db, &es, &desc, b, dirv, ch, key),
                    );
                }
            } else if base_chan_ok && (dirv == DirV::Db || imm_tree_ok) {
                // the cache-less computation on the same directory is fine: name what differs
                let dir = dirv.path(&dbdir);
                let epoch = if ch == Chan::Message { 9 } else { 0 };
                let key = if !conforms(&eng.merkle(None, &dir, b, epoch), baseline, complete) {
                    "C12/root-depends-on-beacon-epoch".to_string()
                } else if ch == Chan::TreeJson {
                    "C12/root-depends-on-cache-history:json".to_string()
                } else if !conforms(&eng.merkle(Some(eng.memory_cache()), &dir, b, epoch), baseline, complete) {
                    "C12/root-depends-on-cache-history:memory".to_string()
                } else {
                    "C12/root-depends-on-entry-point:compute_protocol_message".to_string()
                };
                rep.violation(
                    &key,
                    format!(
                        "{:?}, layout {desc}: {} via {} at beacon {b} (an empty cache: no earlier computation) answers {}, while compute_merkle_tree without cache answers the baseline {}",
                        db, ch.name(), dirv.name(), out.show(), baseline.show()
                    ),
                    layout_case(db, &es, &desc, b, dirv, ch, &key),
                );
            }
            // else: already reported through the (db-dir, no-cache) evaluation of this layout
        }
        // range digests: the digest of every covered file, by name
        if !light && b <= db.last() && base_chan_ok {
            for dirv in DirV::LAYOUTS {
                if tree_failed.contains(&dirv) {
                    continue;
                }
                rep.eval();
                let got = eng.range(None, &dirv.path(&dbdir), db.first, b);
                let want = bl.expected_range(db.p, &es, db.first, b);
                match got {
                    Ok(v) if v == want => {
                        rep.outcome("range-digests-equal-reference");
                        rep.nontrivial(&("range", db, layout_id, b, dirv));
                    }
                    other => {
                        rep.outcome("MISMATCH");
                        let key = match &class {
                            Class::NonCanonicalName | Class::ForeignImmutableExtension => class_key(&class),
                            _ => format!("C12/range-digests-depend-on-layout:{}", class_key(&class).trim_start_matches("C12/")),
                        };
                        let mut case = layout_case(db, &es, &desc, b, dirv, Chan::Tree, &key);
                        case["check"] = json!("range-digests");
                        rep.violation(
                            &key,
                            format!(
                                "{:?}, layout {desc}: compute_digests_for_range({}..={b}) via {} gives {:?}, the digests of the immutable files present are {:?}",
                                db, db.first, dirv.name(), other, want
                            ),
                            case,
                        );
                    }
                }
            }
        }
    }
    let sample_db = db.p == Pattern::MixA && db.first == 1 && db.n == 2;
    if sample_db && (matches!(spec, Spec::ExtraOne(3, true)) || matches!(spec, Spec::TrioPerm(k) if *k == 500) || matches!(spec, Spec::TopLevel(7))) {
        rep.sample(json!({"part": "A/layout", "db": db.to_json(), "layout": desc, "entries_in_creation_order": brief(&es),
            "readdir_order_of_immutable_dir": listing(&dbdir.join("immutable")),
            "root_at_last_beacon": bl.root(db, db.last()).map(|o| o.show())}));
    }
    let _ = std::fs::remove_dir_all(base);
}

fn specs_for(db: Db, thorough: bool, full_perm_db: bool) -> Vec<(Spec, bool)> {
    let mut v: Vec<(Spec, bool)> = vec![(Spec::Canonical, false)];
    for i in 0..beyond_additions(db).len() {
        v.push((Spec::Beyond(i), false));
    }
    for i in 0..extras(db.first, db.n).len() {
        v.push((Spec::ExtraOne(i, true), false));
        v.push((Spec::ExtraOne(i, false), false));
    }
    for m in 0..3 {
        v.push((Spec::ExtraAll(m), false));
    }
    v.push((Spec::ImmExtras, false));
    let len = (3 * db.n) as usize;
    if len <= 6 {
        for k in 1..factorial(len) {
            v.push((Spec::TrioPerm(k), false));
        }
    } else {
        for i in 0..named_orders(len).len() {
            v.push((Spec::TrioNamed(i), false));
        }
        if full_perm_db {
            for k in 1..factorial(len) {
                v.push((Spec::TrioPerm(k), true));
            }
        }
    }
    for k in 0..24 {
        v.push((Spec::TopLevel(k), false));
    }
    for (xi, x) in spelled_numbers(db).into_iter().enumerate() {
        for si in 0..spellings(x).len() {
            for ext in 0..3 {
                v.push((Spec::Spelled(xi, si, ext), false));
            }
        }
    }
    for ti in 0..db.n {
        for si in 0..spellings(db.first + ti).len() {
            v.push((Spec::Renamed(ti, si, true), false));
            v.push((Spec::Renamed(ti, si, false), false));
        }
    }
    for i in 0..foreign_names(db.first, db.last()).len() {
        v.push((Spec::Foreign(i, true), false));
        v.push((Spec::Foreign(i, false), false));
    }
    if db.n == 1 || (thorough && db.n == 2) {
        let l = len + imm_extras(db).len();
        for k in 1..factorial(l) {
            v.push((Spec::ImmPerm(k), db.n == 2));
        }
    }
    v
}

// ------------------------------------------------------------------------------------------------
// part B: perturbations (always without cache)

#[derive(Clone, Debug, PartialEq, Eq, Hash)]
enum Op {
    Xor(usize, u8),
    Truncate,
    Empty,
    Append(u8),
    Remove,
    BecomeDir,
    /// exchange the bytes with those of another entry (by path)
    SwapWith(String),
}

impl Op {
    fn to_json(&self) -> Value {
        match self {
            Op::Xor(pos, m) => json!({"op": "xor", "pos": pos, "mask": m}),
            Op::Truncate => json!({"op": "truncate-last-byte"}),
            Op::Empty => json!({"op": "truncate-to-empty"}),
            Op::Append(b) => json!({"op": "append", "byte": b}),
            Op::Remove => json!({"op": "remove-file"}),
            Op::BecomeDir => json!({"op": "replace-file-by-directory"}),
            Op::SwapWith(o) => json!({"op": "swap-content-with", "other": o}),
        }
    }
    fn from_json(v: &Value) -> Option<Op> {
        Some(match v["op"].as_str()? {
            "xor" => Op::Xor(v["pos"].as_u64()? as usize, v["mask"].as_u64()? as u8),
            "truncate-last-byte" => Op::Truncate,
            "truncate-to-empty" => Op::Empty,
            "append" => Op::Append(v["byte"].as_u64()? as u8),
            "remove-file" => Op::Remove,
            "replace-file-by-directory" => Op::BecomeDir,
            "swap-content-with" => Op::SwapWith(v["other"].as_str()?.to_string()),
            _ => return None,
        })
    }
}

fn perturb_layout(db: Db) -> Vec<Entry> {
    let (mut es, _, _) = build(db, &Spec::ExtraAll(0));
    es.push(Entry { rel: "immutable/99999.chunk".into(), dir: false, data: bytes_for("beyond:99999", 5) });
    es
}

fn is_covered(rel: &str, db: Db, b: u64) -> bool {
    as_trio_file(rel).is_some_and(|(num, _)| num >= db.first && num <= b)
}

fn ops_for(es: &[Entry], target: usize, db: Db, b: u64, thorough: bool) -> Vec<Op> {
    let e = &es[target];
    let len = e.data.len();
    let covered = is_covered(&e.rel, db, b);
    let mut ops = vec![];
    let positions: Vec<usize> = if len <= 16 || thorough {
        (0..len).collect()
    } else {
        let mut v = vec![0, 1, len / 2, 4095, 4096, 8190, 8191, 8192, len - 1];
        v.retain(|p| *p < len);
        v.sort();
        v.dedup();
        v
    };
    let masks: Vec<u8> = if len <= 16 && thorough && covered {
        (1..=255).collect()
    } else if len <= 16 {
        vec![0x01, 0x80, 0xff]
    } else {
        vec![0x01, 0x80]
    };
    for &p in &positions {
        for &m in &masks {
            ops.push(Op::Xor(p, m));
        }
    }
    if len > 0 {
        ops.push(Op::Truncate);
    }
    if len > 1 {
        ops.push(Op::Empty);
    }
    ops.push(Op::Append(0x00));
    ops.push(Op::Append(0x5a));
    if covered {
        for o in es.iter().skip(target + 1) {
            if !o.dir && is_covered(&o.rel, db, b) && o.data != e.data {
                ops.push(Op::SwapWith(o.rel.clone()));
            }
        }
    }
    ops.push(Op::Remove);
    // (turning the file `ledger/immutable` into a directory would create a second directory named
    // `immutable`: that is the observation of part D, not an extra *file*)
    if !e.rel.ends_with("/immutable") && e.rel != "immutable" {
        ops.push(Op::BecomeDir);
    }
    ops
}

fn apply_op(dbdir: &Path, es: &[Entry], target: usize, op: &Op) {
    let e = &es[target];
    let path = dbdir.join(&e.rel);
    let mut d = e.data.clone();
    match op {
        Op::Xor(pos, m) => d[*pos] ^= *m,
        Op::Truncate => {
            d.pop();
        }
        Op::Empty => d.clear(),
        Op::Append(b) => d.push(*b),
        Op::Remove => {
            std::fs::remove_file(&path).expect("remove");
            return;
        }
        Op::BecomeDir => {
            std::fs::remove_file(&path).expect("remove");
            std::fs::create_dir(&path).expect("mkdir");
            return;
        }
        Op::SwapWith(other) => {
            let o = es.iter().find(|x| x.rel == *other).expect("swap partner");
            std::fs::write(dbdir.join(&o.rel), &e.data).expect("write");
            d = o.data.clone();
        }
    }
    std::fs::write(&path, &d).expect("write");
}

fn undo_op(dbdir: &Path, es: &[Entry], target: usize, op: &Op) {
    let e = &es[target];
    let path = dbdir.join(&e.rel);
    match op {
        Op::BecomeDir => {
            std::fs::remove_dir(&path).expect("rmdir");
        }
        Op::SwapWith(other) => {
            let o = es.iter().find(|x| x.rel == *other).expect("swap partner");
            std::fs::write(dbdir.join(&o.rel), &o.data).expect("write");
        }
        _ => {}
    }
    std::fs::write(&path, &e.data).expect("restore");
}

fn perturb_case(db: Db, es: &[Entry], b: u64, target: &str, op: &Op, key: &str) -> Value {
    json!({"kind": "perturbation", "db": db.to_json(), "beacon": b, "target": target, "perturbation": op.to_json(), "key": key,
           "entries_in_creation_order": entries_to_json(es)})
}

/// all perturbations of one file of one database at one beacon
#[allow(clippy::too_many_arguments)]
fn eval_perturb(eng: &Engine, base: &Path, db: Db, es: &[Entry], b: u64, target: usize, ops: &[Op], bl: Option<&Baselines>, rep: &mut Report) {
    let _ = std::fs::remove_dir_all(base);
    let dbdir = materialize(base, es);
    let r0 = eng.merkle(None, &dbdir, b, 1);
    rep.eval();
    if !r0.is_root() || bl.is_some_and(|bl| bl.root(db, b).is_some_and(|x| *x != r0)) {
        // the unperturbed layout (all extra placements + one far file) already disagrees with the
        // canonical layout: the cause is named by part A; perturbing it would only repeat it
        rep.outcome("MISMATCH");
        let key = "C12/cacheless-root-differs-from-baseline";
        rep.violation(
            key,
            format!("{:?} beacon {b}: the layout used for perturbations answers {} before any perturbation, the canonical layout answers {:?}", db, r0.show(), bl.and_then(|bl| bl.root(db, b)).map(|o| o.show())),
            layout_case(db, es, "perturbation-base", b, DirV::Db, Chan::Tree, key),
        );
        let _ = std::fs::remove_dir_all(base);
        return;
    }
    let e = &es[target];
    let covered = is_covered(&e.rel, db, b);
    let mut by_pos: BTreeMap<usize, HashMap<Out, u8>> = BTreeMap::new();
    for op in ops {
        rep.eval();
        apply_op(&dbdir, es, target, op);
        let out = eng.merkle(None, &dbdir, b, 1);
        undo_op(&dbdir, es, target, op);
        rep.nontrivial(&("perturb", db, b, &e.rel, op));
        if covered {
            if out == r0 {
                rep.outcome("MISMATCH");
                let key = match op {
                    Op::Remove | Op::BecomeDir => "C12/covered-file-missing-not-reflected",
                    Op::SwapWith(_) => "C12/content-swap-not-reflected",
                    _ => "C12/covered-change-not-reflected",
                };
                rep.violation(
                    key,
                    format!(
                        "{:?} beacon {b}: after {} on covered file {} ({} bytes) compute_merkle_tree without cache still answers {}",
                        db, op.to_json(), e.rel, e.data.len(), out.show()
                    ),
                    perturb_case(db, es, b, &e.rel, op, key),
                );
            } else {
                rep.outcome(if out.is_root() { "covered-change→different-root" } else { "covered-change→error" });
                if let Op::Xor(pos, m) = op
                    && let Some(prev) = by_pos.entry(*pos).or_default().insert(out.clone(), *m)
                {
                    let key = "C12/covered-change-not-reflected";
                    rep.violation(
                        key,
                        format!(
                            "{:?} beacon {b}: byte {pos} of covered file {} xor {prev:#x} and xor {m:#x} give the same answer {}",
                            db, e.rel, out.show()
                        ),
                        perturb_case(db, es, b, &e.rel, op, key),
                    );
                }
            }
        } else if out != r0 {
            rep.outcome("MISMATCH");
            let key = "C12/uncovered-change-reflected";
            rep.violation(
                key,
                format!(
                    "{:?} beacon {b}: {} on {} (not an immutable file numbered <= {b}) changes the answer from {} to {}",
                    db, op.to_json(), e.rel, r0.show(), out.show()
                ),
                perturb_case(db, es, b, &e.rel, op, key),
            );
        } else {
            rep.outcome("uncovered-change→same-root");
        }
    }
    if db.p == Pattern::MixA && db.first == 1 && db.n == 2 && b == 2 && (e.rel == "immutable/00002.chunk" || e.rel == "immutable/00000.bak") {
        rep.sample(json!({"part": "B/perturbation", "db": db.to_json(), "beacon": b, "target": e.rel, "covered": covered,
            "perturbations": ops.iter().take(4).map(|o| o.to_json()).collect::<Vec<_>>(), "perturbations_total": ops.len(), "reference": r0.show()}));
    }
    let _ = std::fs::remove_dir_all(base);
}

// ------------------------------------------------------------------------------------------------
// part C: cache histories over unchanged files

#[derive(Clone, Copy, Debug, PartialEq, Eq, Hash)]
enum Step {
    Merkle(u64),
    Range(u64, u64),
    /// `reset()` of the cache provider
    Reset,
    /// a new provider object on the same store (process restart; JSON cache only)
    Reopen,
}

impl Step {
    fn to_json(&self) -> Value {
        match self {
            Step::Merkle(b) => json!({"step": "compute_merkle_tree", "beacon": b}),
            Step::Range(lo, hi) => json!({"step": "compute_digests_for_range", "from": lo, "to": hi}),
            Step::Reset => json!({"step": "cache-reset"}),
            Step::Reopen => json!({"step": "reopen-cache"}),
        }
    }
    fn from_json(v: &Value) -> Option<Step> {
        Some(match v["step"].as_str()? {
            "compute_merkle_tree" => Step::Merkle(v["beacon"].as_u64()?),
            "compute_digests_for_range" => Step::Range(v["from"].as_u64()?, v["to"].as_u64()?),
            "cache-reset" => Step::Reset,
            "reopen-cache" => Step::Reopen,
            _ => return None,
        })
    }
}

#[derive(Clone, Copy, Debug, PartialEq, Eq, Hash)]
enum Prov {
    Memory,
    Json,
}

impl Prov {
    fn name(self) -> &'static str {
        match self {
            Prov::Memory => "memory",
            Prov::Json => "json",
        }
    }
}

fn alphabet(db: Db, prov: Prov) -> Vec<Step> {
    let mut v = vec![];
    for b in db.first..=db.last() + 1 {
        v.push(Step::Merkle(b));
    }
    for lo in db.first..=db.last() + 1 {
        for hi in lo..=db.last() + 1 {
            v.push(Step::Range(lo, hi));
        }
    }
    v.push(Step::Reset);
    if prov == Prov::Json {
        v.push(Step::Reopen);
    }
    v
}

fn history_case(db: Db, es: &[Entry], prov: Prov, phase: usize, steps: &[Step], failing: usize, key: &str) -> Value {
    json!({"kind": "cache-history", "db": db.to_json(), "cache": prov.name(), "directory_phase": phase,
           "steps": steps.iter().map(|s| s.to_json()).collect::<Vec<_>>(), "failing_step": failing, "key": key,
           "entries_in_creation_order": entries_to_json(es)})
}

/// Run one history on the (unchanged) database in `dbdir`; every step is compared with the
/// cache-less baseline.
#[allow(clippy::too_many_arguments)]
fn eval_history(eng: &Engine, cache_file: &Path, dbdir: &Path, db: Db, es: &[Entry], prov: Prov, phase: usize, steps: &[Step], bl: &Baselines, rep: &mut Report) {
    let _ = std::fs::remove_file(cache_file);
    let _ = std::fs::remove_file(cache_file.with_extension("tmp"));
    let mut cache: Cache = match prov {
        Prov::Memory => eng.memory_cache(),
        Prov::Json => eng.json_cache(cache_file),
    };
    let mut computed = 0;
    for (i, s) in steps.iter().enumerate() {
        let dirv = DirV::ALL[(i + phase) % 2];
        let dir = dirv.path(dbdir);
        match *s {
            Step::Reset => eng.reset(&cache),
            Step::Reopen => {
                if let Ok(c) = eng.json_cache_via_builder(cache_file) {
                    cache = c;
                }
            }
            Step::Merkle(b) => {
                rep.eval();
                let out = eng.merkle(Some(cache.clone()), &dir, b, 3 + i as u64);
                let Some(baseline) = bl.root(db, b) else { continue };
                let complete = b <= db.last();
                if conforms(&out, baseline, complete) {
                    computed += 1;
                    rep.outcome(if complete { "history-step-root-equals-baseline" } else { "history-step-missing-beacon→error" });
                } else {
                    rep.outcome("MISMATCH");
                    let cold = eng.merkle(None, &dir, b, 1);
                    let key = if conforms(&cold, baseline, complete) {
                        format!("C12/root-depends-on-cache-history:{}", prov.name())
                    } else {
                        "C12/cacheless-root-differs-from-baseline".to_string()
                    };
                    rep.violation(
                        &key,
                        format!(
                            "{:?}, {} cache, history {:?}: step {i} (compute_merkle_tree at beacon {b} via {}) answers {}; without cache on the canonical layout the answer is {}",
                            db, prov.name(), steps, dirv.name(), out.show(), baseline.show()
                        ),
                        history_case(db, es, prov, phase, &steps[..=i], i, &key),
                    );
                }
            }
            Step::Range(lo, hi) => {
                rep.eval();
                let got = eng.range(Some(cache.clone()), &dir, lo, hi);
                let want = bl.expected_range(db.p, es, lo, hi);
                if got.as_ref().ok() == Some(&want) {
                    computed += 1;
                    rep.outcome("history-step-range-digests-equal-reference");
                } else {
                    rep.outcome("MISMATCH");
                    let cold = eng.range(None, &dir, lo, hi);
                    let key = if cold.as_ref().ok() == Some(&want) {
                        format!("C12/range-digests-depend-on-cache-history:{}", prov.name())
                    } else {
                        "C12/cacheless-range-digests-differ-from-baseline".to_string()
                    };
                    rep.violation(
                        &key,
                        format!(
                            "{:?}, {} cache, history {:?}: step {i} (compute_digests_for_range {lo}..={hi} via {}) gives {:?}; without cache the digests are {:?}",
                            db, prov.name(), steps, dirv.name(), got, want
                        ),
                        history_case(db, es, prov, phase, &steps[..=i], i, &key),
                    );
                }
            }
        }
    }
    if computed >= 2 {
        rep.nontrivial(&("history", db, prov, phase, steps));
    }
}

// ------------------------------------------------------------------------------------------------
// part D: observations (never violations)

fn observations(eng: &Engine, scratch: &Path, bl: &Baselines, db: Db) -> Value {
    let b = db.last();
    let Some(baseline) = bl.root(db, b) else { return json!(null) };
    let canon = db.canonical();
    let a = format!("{:05}", db.first);
    let verdict = |out: &Out| -> String {
        if out == baseline { "same root".into() } else { format!("DIFFERENT: {}", out.show()) }
    };
    let lookalike_trio = |prefix: &str| -> Vec<Entry> {
        (0..3).map(|e| file(&format!("{prefix}/{}", trio_name(db.first, e)), 5)).chain((0..3).map(|e| file(&format!("{prefix}/{}", trio_name(b, e)), 5))).collect()
    };
    let mut obs = serde_json::Map::new();
    let mut run = |name: &str, es: Vec<Entry>| {
        let out = eval_once(eng, &scratch.join("obs"), &es, DirV::Db, Chan::Tree, b);
        obs.insert(name.to_string(), json!(verdict(&out)));
    };
    // a second directory called `immutable` elsewhere in the tree
    run("second-immutable-dir:ledger/immutable created before immutable/", lookalike_trio("ledger/immutable").into_iter().chain(canon.clone()).collect());
    run("second-immutable-dir:ledger/immutable created after immutable/", canon.clone().into_iter().chain(lookalike_trio("ledger/immutable")).collect());
    run("second-immutable-dir:volatile/x/immutable created before", lookalike_trio("volatile/x/immutable").into_iter().chain(canon.clone()).collect());
    run("second-immutable-dir:immutable/immutable (nested)", canon.clone().into_iter().chain(lookalike_trio("immutable/immutable")).collect());
    // the same, when the parent of the database directory is handed in (<dir>/immutable does not
    // exist, the directory is found by a walk in listing order)
    for (name, es) in [
        ("second-immutable-dir, parent of db handed in: ledger/immutable created after immutable/", canon.clone().into_iter().chain(lookalike_trio("ledger/immutable")).collect::<Vec<Entry>>()),
        ("second-immutable-dir, parent of db handed in: ledger/immutable created before immutable/", lookalike_trio("ledger/immutable").into_iter().chain(canon.clone()).collect::<Vec<Entry>>()),
    ] {
        let out = eval_once(eng, &scratch.join("obs"), &es, DirV::Parent, Chan::Tree, b);
        obs.insert(name.to_string(), json!(verdict(&out)));
    }
    let mut run = |name: &str, es: Vec<Entry>| {
        let out = eval_once(eng, &scratch.join("obs"), &es, DirV::Db, Chan::Tree, b);
        obs.insert(name.to_string(), json!(verdict(&out)));
    };
    // stale cache: a covered byte changes after the cache was warmed (outside the property: the
    // property only speaks of cache state over unchanged files, and of sensitivity without cache)
    {
        let base = scratch.join("obs-stale");
        let _ = std::fs::remove_dir_all(&base);
        let dbdir = materialize(&base, &canon);
        let cache = eng.memory_cache();
        let warm = eng.merkle(Some(cache.clone()), &dbdir, b, 1);
        let target = dbdir.join(format!("immutable/{a}.secondary"));
        let mut d = std::fs::read(&target).unwrap_or_default();
        d.push(0x42);
        let _ = std::fs::write(&target, &d);
        let stale = eng.merkle(Some(cache), &dbdir, b, 1);
        let cold = eng.merkle(None, &dbdir, b, 1);
        obs.insert(
            "stale-cache: covered file modified after the cache was warmed".into(),
            json!(format!(
                "warm cache {} the change, no cache {} it",
                if stale == warm { "masks" } else { "reflects" },
                if cold != warm { "reflects" } else { "MASKS" }
            )),
        );
        let _ = std::fs::remove_dir_all(&base);
    }
    Value::Object(obs)
}

// ------------------------------------------------------------------------------------------------
// replay

fn replay(ctx: &Ctx, rep: &mut Report, v: &Value) {
    let eng = Engine::new();
    let scratch = ctx.scratch();
    let Some(db) = Db::from_json(&v["db"]) else {
        rep.machinery_error("replay file lacks db".into());
        return;
    };
    let bl = compute_baselines(&eng, &scratch, &[db.p], &[db.first], db.n.max(v["beacon"].as_u64().unwrap_or(0).saturating_sub(db.first)) + 1, rep);
    let es = entries_from_json(&v["entries_in_creation_order"]).unwrap_or_default();
    match v["kind"].as_str().unwrap_or("") {
        "baseline" => {}
        "layout" => {
            let b = v["beacon"].as_u64().unwrap_or(0);
            let dirv = DirV::parse(v["directory_handed_in"].as_str().unwrap_or(""));
            let ch = Chan::parse(v["entry_point"].as_str().unwrap_or(""));
            let key = v["key"].as_str().unwrap_or("C12/replay").to_string();
            rep.eval();
            let Some(baseline) = bl.root(db, b) else {
                rep.machinery_error("no baseline for the replayed beacon".into());
                return;
            };
            let complete = covered_complete(&es, db.p, db.first, b);
            if key.starts_with("C12/range-digests") || v["check"].as_str() == Some("range-digests") {
                let base = scratch.join("replay");
                let dbdir = materialize(&base, &es);
                let got = eng.range(None, &dirv.path(&dbdir), db.first, b);
                let want = bl.expected_range(db.p, &es, db.first, b);
                if got.as_ref().ok() != Some(&want) {
                    rep.violation(&key, format!("replayed: range digests {:?}, reference {:?}", got, want), v.clone());
                }
            } else {
                let out = eval_once(&eng, &scratch.join("replay"), &es, dirv, ch, b);
                if v["must_not_yield_root"].as_bool() == Some(true) && out.is_root() {
                    rep.violation(&key, format!("replayed: {} via {} at beacon {b} answers {} although no immutable file numbered {b} exists", ch.name(), dirv.name(), out.show()), v.clone());
                } else if !conforms(&out, baseline, complete) {
                    rep.violation(&key, format!("replayed: {} via {} at beacon {b} answers {}, baseline {}", ch.name(), dirv.name(), out.show(), baseline.show()), v.clone());
                }
            }
        }
        "perturbation" => {
            let b = v["beacon"].as_u64().unwrap_or(0);
            let target = v["target"].as_str().unwrap_or("");
            let (Some(op), Some(ti)) = (Op::from_json(&v["perturbation"]), es.iter().position(|e| e.rel == target)) else {
                rep.machinery_error("replay file: bad perturbation".into());
                return;
            };
            eval_perturb(&eng, &scratch.join("replay"), db, &es, b, ti, &[op], None, rep);
        }
        "cache-history" => {
            let prov = if v["cache"].as_str() == Some("json") { Prov::Json } else { Prov::Memory };
            let phase = v["directory_phase"].as_u64().unwrap_or(0) as usize;
            let steps: Vec<Step> = v["steps"].as_array().map(|a| a.iter().filter_map(Step::from_json).collect()).unwrap_or_default();
            let base = scratch.join("replay");
            let dbdir = materialize(&base, &es);
            eval_history(&eng, &base.join("cache/c.json"), &dbdir, db, &es, prov, phase, &steps, &bl, rep);
        }
        other => rep.machinery_error(format!("unknown replay kind {other:?}")),
    }
    rep.nontrivial(&0);
    rep.nontrivial(&1);
}

// ------------------------------------------------------------------------------------------------

pub fn run(ctx: &Ctx) -> ! {
    let thorough = ctx.tier == mc_core::Tier::Thorough;
    let mut rep = Report::new(
        "exploration",
        "every database of the lattice (size pattern x first trio number x number of trios) is written to tmpfs in every \
         enumerated layout (creation orders, extra-file placements, files beyond the beacon), perturbed in every enumerated \
         single-byte / single-file way, and put through every cache history up to the depth bound; each case calls the real \
         CardanoImmutableDigester / CardanoDatabaseSignableBuilder and is compared with the cache-less answer on the canonical \
         layout of the same covered files. A case is non-trivial when the real code produced a Merkle root or range digests \
         for it (part A, C: at least two cache-using computations per history) or when a perturbation was applied to a \
         database whose reference root exists (part B); distinct = distinct (database, layout, beacon, directory, entry \
         point) / (database, beacon, file, perturbation) / (database, cache, history)",
    );
    if let Some(path) = &ctx.replay {
        let v = mc_core::load_replay(path);
        replay(ctx, &mut rep, &v);
        rep.finish(ctx);
    }
    let scratch = ctx.scratch();
    let threads = ctx.threads();

    let patterns: Vec<Pattern> = if thorough {
        vec![Pattern::Zero, Pattern::One, Pattern::Five, Pattern::MixA, Pattern::MixB, Pattern::Big]
    } else {
        vec![Pattern::Zero, Pattern::Five, Pattern::MixA, Pattern::Big]
    };
    let firsts: Vec<u64> = vec![0, 1];
    let nmax: u64 = if thorough { 4 } else { 3 };
    rep.extra(
        "bounds",
        json!({
            "size_patterns": patterns.iter().map(|p| p.name()).collect::<Vec<_>>(),
            "first_trio_numbers": firsts, "max_trios": nmax,
            "beacons": "every number from the first trio to one past the last trio",
            "cache_history_steps": if thorough { 4 } else { 3 },
            "byte_values_per_covered_position": if thorough { 255 } else { 3 },
        }),
    );

    let eng = Engine::new();
    let bl = compute_baselines(&eng, &scratch, &patterns, &firsts, nmax, &mut rep);
    // vacuity guard on the reference itself: different beacons of a database must give different roots
    for &p in &patterns {
        for &first in &firsts {
            let roots: HashSet<&Out> = (first..=first + nmax).filter_map(|b| bl.root.get(&(p, first, b))).collect();
            if roots.len() != (nmax + 1) as usize {
                rep.violation(
                    "C12/covered-change-not-reflected",
                    format!("baselines of pattern {} first {first} at beacons {first}..={} are not pairwise different", p.name(), first + nmax),
                    json!({"kind": "baseline", "db": Db{p, first, n: nmax + 1}.to_json(), "beacon": first + nmax}),
                );
            }
        }
    }

    let mut dbs: Vec<Db> = vec![];
    for &p in &patterns {
        for &first in &firsts {
            for n in 1..=nmax {
                // the big-file pattern is about hashing whole files, not about listing: small n only
                if p == Pattern::Big && n > 2 {
                    continue;
                }
                dbs.push(Db { p, first, n });
            }
        }
    }

    // ---- part A
    let full_perm_db = Db { p: Pattern::MixA, first: 1, n: 3 };
    let mut a_items: Vec<(Db, Vec<(Spec, bool)>)> = vec![];
    let mut a_variants = 0u64;
    let mut perm_sweeps: Vec<Value> = vec![];
    for &db in &dbs {
        let specs = specs_for(db, thorough, thorough && db == full_perm_db);
        a_variants += specs.len() as u64;
        let perms = specs.iter().filter(|(s, _)| matches!(s, Spec::TrioPerm(_) | Spec::TrioNamed(_))).count() as u64 + 1;
        if db.p == Pattern::MixA {
            perm_sweeps.push(json!({"db": db.to_json(), "trio_file_creation_orders": perms,
                "all_permutations": perms == factorial((3 * db.n) as usize)}));
        }
        for chunk in specs.chunks(48) {
            a_items.push((db, chunk.to_vec()));
        }
    }
    let a_parts = par_map(&a_items, threads, |i, (db, specs)| {
        let eng = Engine::new();
        let mut r = Report::new("exploration", "");
        let mut st = LayoutStats { listings: HashSet::new() };
        let base = scratch.join(format!("a{i}"));
        for (spec, light) in specs {
            eval_variant(&eng, &base, *db, spec, *light, &bl, &mut r, &mut st);
        }
        let _ = std::fs::remove_dir_all(&base);
        (r, st.listings)
    });
    let mut listings: HashSet<(Db, u64)> = HashSet::new();
    for (r, l) in a_parts {
        rep.merge(r);
        listings.extend(l);
    }
    rep.extra("partA_layouts", json!(a_variants));
    rep.extra("partA_trio_permutation_sweeps", json!(perm_sweeps));
    // the creation-order clause is only meaningful if creation order really changes what readdir returns
    let mut per_db: BTreeMap<String, u64> = BTreeMap::new();
    for (db, _) in &listings {
        *per_db.entry(format!("{}/first{}/n{}", db.p.name(), db.first, db.n)).or_insert(0) += 1;
    }
    let n2 = Db { p: Pattern::MixA, first: 1, n: 2 };
    let seen_n2 = listings.iter().filter(|(d, _)| *d == n2).count() as u64;
    rep.extra("distinct_readdir_orders_of_immutable_dir_observed", json!(listings.len()));
    rep.extra("distinct_readdir_orders_observed_for_db_mixA_first1_2trios", json!(seen_n2));
    if seen_n2 < 720 {
        rep.machinery_error(format!(
            "creation order does not control readdir order on the scratch file system: 720 creation orders of 6 files gave only {seen_n2} distinct listings"
        ));
    }

    // ---- part B
    let mut b_items: Vec<(Db, u64, usize)> = vec![];
    for &db in &dbs {
        let es = perturb_layout(db);
        for b in db.first..=db.last() {
            for (t, e) in es.iter().enumerate() {
                if !e.dir {
                    b_items.push((db, b, t));
                }
            }
        }
    }
    let b_parts = par_map(&b_items, threads, |i, &(db, b, t)| {
        let eng = Engine::new();
        let mut r = Report::new("exploration", "");
        let es = perturb_layout(db);
        let ops = ops_for(&es, t, db, b, thorough);
        r.add_extra("partB_perturbations", ops.len() as u64);
        if is_covered(&es[t].rel, db, b) {
            r.add_extra("partB_perturbations_of_covered_files", ops.len() as u64);
        }
        eval_perturb(&eng, &scratch.join(format!("b{i}")), db, &es, b, t, &ops, Some(&bl), &mut r);
        r
    });
    for r in b_parts {
        rep.merge(r);
    }

    // ---- part C
    let depth = if thorough { 4 } else { 3 };
    let c_patterns: Vec<Pattern> = if thorough { vec![Pattern::MixA, Pattern::Zero, Pattern::Five] } else { vec![Pattern::MixA, Pattern::Zero] };
    let mut c_dbs: Vec<(Db, PathBuf, Vec<Entry>)> = vec![];
    for &p in &c_patterns {
        for &first in &firsts {
            for n in 1..=nmax {
                // the largest alphabet at full depth only for one pattern
                if thorough && n == 4 && !(p == Pattern::MixA && first == 1) {
                    continue;
                }
                if !thorough && first == 0 && p != Pattern::MixA {
                    continue;
                }
                let db = Db { p, first, n };
                let (es, _, _) = build(db, &Spec::ExtraAll(2));
                let dir = materialize(&scratch.join(format!("c-db-{}-{first}-{n}", p.name().replace('/', "_"))), &es);
                c_dbs.push((db, dir, es));
            }
        }
    }
    struct CItem {
        dbi: usize,
        prov: Prov,
        phase: usize,
        from: usize,
        to: usize,
    }
    let mut c_items: Vec<CItem> = vec![];
    let mut seq_cache: HashMap<usize, Vec<Vec<usize>>> = HashMap::new();
    let mut c_histories = 0u64;
    for (dbi, (db, _, _)) in c_dbs.iter().enumerate() {
        for prov in [Prov::Memory, Prov::Json] {
            let al = alphabet(*db, prov).len();
            let seqs = seq_cache.entry(al).or_insert_with(|| mc_core::sequences(al, depth).into_iter().filter(|s| s.len() == depth).collect());
            for phase in 0..2 {
                c_histories += seqs.len() as u64;
                let mut from = 0;
                while from < seqs.len() {
                    let to = (from + 1024).min(seqs.len());
                    c_items.push(CItem { dbi, prov, phase, from, to });
                    from = to;
                }
            }
        }
    }
    rep.extra("partC_histories", json!(c_histories));
    rep.extra("partC_databases", json!(c_dbs.len()));
    let c_parts = par_map(&c_items, threads, |i, it| {
        let eng = Engine::new();
        let mut r = Report::new("exploration", "");
        let (db, dir, es) = &c_dbs[it.dbi];
        let al = alphabet(*db, it.prov);
        let seqs = &seq_cache[&al.len()];
        let cache_file = scratch.join(format!("c-cache-{i}")).join("immutables_digests.json");
        let _ = std::fs::create_dir_all(cache_file.parent().unwrap());
        for s in &seqs[it.from..it.to] {
            let steps: Vec<Step> = s.iter().map(|&k| al[k]).collect();
            eval_history(&eng, &cache_file, dir, *db, es, it.prov, it.phase, &steps, &bl, &mut r);
            if *db == (Db { p: Pattern::MixA, first: 1, n: 2 }) && it.prov == Prov::Json && it.phase == 0 && it.from == 0 && r.samples.is_empty() && hash64(&steps) % 97 == 5 {
                r.sample(json!({"part": "C/cache-history", "db": db.to_json(), "cache": it.prov.name(),
                    "steps": steps.iter().map(|s| s.to_json()).collect::<Vec<_>>()}));
            }
        }
        let _ = std::fs::remove_dir_all(cache_file.parent().unwrap());
        r
    });
    for r in c_parts {
        rep.merge(r);
    }
    // the databases of part C must not have been modified by the code under test
    for (db, dir, es) in &c_dbs {
        for e in es.iter().filter(|e| !e.dir) {
            if std::fs::read(dir.join(&e.rel)).ok().as_deref() != Some(&e.data[..]) {
                rep.machinery_error(format!("part C database {:?}: file {} changed during the run", db, e.rel));
            }
        }
    }

    // ---- part D
    let obs = observations(&eng, &scratch, &bl, Db { p: Pattern::MixA, first: 1, n: 2 });
    rep.extra("observations_outside_the_property", obs);

    rep.assume("the scratch directory is on tmpfs, whose readdir order is a function of creation order (newest first on this kernel): 'directory creation order' is controlled by the order in which the harness creates the entries; the run counts the distinct listings it observed and refuses a verdict if permuting creation does not permute listings");
    rep.assume("creation orders: all permutations of the trio files for 1 and 2 trios (and of 1 trio + 3 extras inside immutable/; thorough: 2 trios + 1 extra, and all 9! orders of 3 trios for one database); rotations, reversals, extension-major and interleaved orders beyond; all 24 orders of the four top-level groups");
    rep.assume("the reference is the real code's own cache-less answer on the canonical layout (differential oracle, no re-implementation of SHA-256 or of the Merkle tree); the sensitivity clauses (part B) keep a constant or truncated digest from passing");
    rep.assume("cache histories are over unchanged files only, as the property says; a cache warmed before a file changed is reported as an observation");
    rep.assume("an extra file is one that is not an immutable file by name: outside immutable/, or inside it without the exact extension chunk/primary/secondary, or a directory. Files inside immutable/ with an immutable extension but not the name NNNNN.<ext> of an immutable file (another spelling of a number, or a stem that is not a number) are extra files too and are judged (keys non-canonical-name-digested-as-immutable / foreign-file-with-immutable-extension-breaks-computation). A second directory named 'immutable' is reported under observations_outside_the_property, not judged");
    rep.assume("a beacon whose trio is absent or incomplete must not give the root of the complete database (an error is the usual answer); the property does not demand the error itself");
    rep.finish(ctx)
}
