//! C12 — TODO
use mc_core::Ctx;

pub fn run(_ctx: &Ctx) -> ! {
    eprintln!("C12: not implemented");
    std::process::exit(2)
}
