//! mc-db: serves C12 (see /verif/DESIGN.md §4)
mod c12;

fn main() {
    let ctx = mc_core::Ctx::from_args();
    mc_core::quiet_panics();
    match ctx.property.as_str() {
        "C12" => c12::run(&ctx),
        other => {
            eprintln!("mc-db does not serve {other}");
            std::process::exit(2);
        }
    }
}
