//! C12 — thin driver around the real code: `CardanoImmutableDigester` (no cache / memory cache /
//! JSON file cache), `compute_merkle_tree`, `compute_digests_for_range`, and
//! `CardanoDatabaseSignableBuilder::compute_protocol_message`. Everything goes through the public
//! API of `mithril-cardano-node-internal-database`.

use std::path::{Path, PathBuf};
use std::sync::Arc;

use mithril_cardano_node_internal_database::digesters::cache::{
    ImmutableFileDigestCacheProvider, JsonImmutableFileDigestCacheProvider, JsonImmutableFileDigestCacheProviderBuilder,
    MemoryImmutableFileDigestCacheProvider,
};
use mithril_cardano_node_internal_database::digesters::{CardanoImmutableDigester, ImmutableDigester, ImmutableDigesterError};
use mithril_cardano_node_internal_database::signable_builder::CardanoDatabaseSignableBuilder;
use mithril_common::entities::{CardanoDbBeacon, ProtocolMessagePartKey};
use mithril_common::signable_builder::SignableBuilder;

pub type Cache = Arc<dyn ImmutableFileDigestCacheProvider>;

/// what a computation answered
#[derive(Clone, Debug, PartialEq, Eq, Hash)]
pub enum Out {
    Root(String),
    Err(String),
}

impl Out {
    pub fn is_root(&self) -> bool {
        matches!(self, Out::Root(_))
    }
    pub fn show(&self) -> String {
        match self {
            Out::Root(r) => format!("root {r}"),
            Out::Err(e) => format!("error {e}"),
        }
    }
}

/// which directory is handed to the digester: the database directory (what signer and aggregator
/// pass) or its `immutable` sub-directory (what the repository's own tests pass)
#[derive(Clone, Copy, Debug, PartialEq, Eq, Hash)]
pub enum DirV {
    Db,
    Immutable,
    /// the parent of the database directory: `<db>/immutable` is then found by the directory walk
    Parent,
}

impl DirV {
    pub const ALL: [DirV; 2] = [DirV::Db, DirV::Immutable];
    /// part A also hands in the parent directory (it holds `db/` and the harness' cache directory)
    pub const LAYOUTS: [DirV; 3] = [DirV::Db, DirV::Immutable, DirV::Parent];
    pub fn path(self, db: &Path) -> PathBuf {
        match self {
            DirV::Db => db.to_path_buf(),
            DirV::Immutable => db.join("immutable"),
            DirV::Parent => db.parent().expect("db has a parent").to_path_buf(),
        }
    }
    pub fn name(self) -> &'static str {
        match self {
            DirV::Db => "db-dir",
            DirV::Immutable => "immutable-dir",
            DirV::Parent => "parent-of-db-dir",
        }
    }
    pub fn parse(s: &str) -> DirV {
        match s {
            "immutable-dir" => DirV::Immutable,
            "parent-of-db-dir" => DirV::Parent,
            _ => DirV::Db,
        }
    }
}

pub struct Engine {
    rt: tokio::runtime::Runtime,
    log: slog::Logger,
}

fn err_class(e: &ImmutableDigesterError) -> String {
    match e {
        ImmutableDigesterError::ListImmutablesError(inner) => format!("ListImmutablesError({inner})"),
        ImmutableDigesterError::NotEnoughImmutable { expected_number, found_number, .. } => {
            format!("NotEnoughImmutable(expected={expected_number}, found={found_number:?})")
        }
        ImmutableDigesterError::DigestComputationError(_) => "DigestComputationError".into(),
        ImmutableDigesterError::MerkleTreeComputationError(_) => "MerkleTreeComputationError".into(),
    }
}

impl Engine {
    pub fn new() -> Engine {
        let rt = tokio::runtime::Builder::new_current_thread()
            .max_blocking_threads(1)
            .build()
            .expect("tokio runtime");
        Engine { rt, log: slog::Logger::root(slog::Discard, slog::o!()) }
    }

    pub fn memory_cache(&self) -> Cache {
        Arc::new(MemoryImmutableFileDigestCacheProvider::default())
    }

    /// a JSON cache on `file` (the file is left as it is)
    pub fn json_cache(&self, file: &Path) -> Cache {
        Arc::new(JsonImmutableFileDigestCacheProvider::new(file))
    }

    /// a JSON cache opened the way signer and aggregator open it at start-up
    pub fn json_cache_via_builder(&self, file: &Path) -> Result<Cache, String> {
        let dir = file.parent().expect("cache dir").to_path_buf();
        let name = file.file_name().unwrap().to_string_lossy().into_owned();
        let r = mc_core::catch(|| {
            self.rt.block_on(async {
                JsonImmutableFileDigestCacheProviderBuilder::new(&dir, &name)
                    .ensure_dir_exist()
                    .should_reset_digests_cache(false)
                    .build()
                    .await
            })
        });
        match r {
            Ok(Ok(p)) => Ok(Arc::new(p)),
            Ok(Err(e)) => Err(format!("{e:#}")),
            Err(p) => Err(format!("panic: {p}")),
        }
    }

    pub fn reset(&self, cache: &Cache) {
        // resetting a JSON cache that has no file yet is an error of the provider; irrelevant here
        let _ = mc_core::catch(|| self.rt.block_on(cache.reset()));
    }

    /// `compute_merkle_tree` → root
    pub fn merkle(&self, cache: Option<Cache>, dir: &Path, beacon: u64, epoch: u64) -> Out {
        let dg = CardanoImmutableDigester::new(cache, self.log.clone());
        let b = CardanoDbBeacon::new(epoch, beacon);
        match mc_core::catch(|| self.rt.block_on(dg.compute_merkle_tree(dir, &b))) {
            Err(p) => Out::Err(format!("panic: {p} at {}", mc_core::last_panic_location())),
            Ok(Err(e)) => Out::Err(err_class(&e)),
            Ok(Ok(tree)) => match tree.compute_root() {
                Ok(root) => Out::Root(root.to_hex()),
                Err(e) => Out::Err(format!("compute_root: {e}")),
            },
        }
    }

    /// `CardanoDatabaseSignableBuilder::compute_protocol_message` → the signed Merkle-root part
    pub fn message(&self, cache: Option<Cache>, dir: &Path, beacon: u64, epoch: u64) -> Out {
        let dg: Arc<dyn ImmutableDigester> = Arc::new(CardanoImmutableDigester::new(cache, self.log.clone()));
        let sb = CardanoDatabaseSignableBuilder::new(dg, dir, self.log.clone());
        let b = CardanoDbBeacon::new(epoch, beacon);
        match mc_core::catch(|| self.rt.block_on(sb.compute_protocol_message(b))) {
            Err(p) => Out::Err(format!("panic: {p} at {}", mc_core::last_panic_location())),
            Ok(Err(e)) => {
                let class = match e.downcast_ref::<ImmutableDigesterError>() {
                    Some(d) => err_class(d),
                    None => format!("{e:#}").chars().take(120).collect(),
                };
                Out::Err(class)
            }
            Ok(Ok(msg)) => match msg.get_message_part(&ProtocolMessagePartKey::CardanoDatabaseMerkleRoot) {
                Some(v) => Out::Root(v.clone()),
                None => Out::Err("protocol message lacks the cardano_database_merkle_root part".into()),
            },
        }
    }

    /// `compute_digests_for_range` → sorted (file name, digest) pairs
    pub fn range(&self, cache: Option<Cache>, dir: &Path, lo: u64, hi: u64) -> Result<Vec<(String, String)>, String> {
        let dg = CardanoImmutableDigester::new(cache, self.log.clone());
        let r = lo..=hi;
        match mc_core::catch(|| self.rt.block_on(dg.compute_digests_for_range(dir, &r))) {
            Err(p) => Err(format!("panic: {p} at {}", mc_core::last_panic_location())),
            Ok(Err(e)) => Err(err_class(&e)),
            Ok(Ok(c)) => {
                let mut v: Vec<(String, String)> = c.entries.into_iter().map(|(f, d)| (f.filename, d)).collect();
                v.sort();
                Ok(v)
            }
        }
    }
}
