//! C12 — the finite database model: contents, layouts (ordered lists of file-system entries that
//! are created in list order), extra-file placements, creation orders.
//!
//! Nothing in here computes a digest. A layout is only a recipe for `materialize`.

use serde_json::{Value, json};
use std::path::{Path, PathBuf};

pub const EXTS: [&str; 3] = ["chunk", "primary", "secondary"];

/// file-size pattern of a database; the size of a file is a function of (number, extension) only,
/// so that databases with more trios share the content of the lower-numbered ones
#[derive(Clone, Copy, Debug, PartialEq, Eq, Hash)]
pub enum Pattern {
    Zero,
    One,
    Five,
    MixA,
    MixB,
    /// chunk files larger than the 8 KiB copy buffer used when hashing
    Big,
}

impl Pattern {
    pub fn name(self) -> &'static str {
        match self {
            Pattern::Zero => "all-empty",
            Pattern::One => "all-1-byte",
            Pattern::Five => "all-5-bytes",
            Pattern::MixA => "mix-0/1/5-a",
            Pattern::MixB => "mix-0/1/5-b",
            Pattern::Big => "chunk-8193-bytes",
        }
    }
    pub fn parse(s: &str) -> Option<Pattern> {
        [Pattern::Zero, Pattern::One, Pattern::Five, Pattern::MixA, Pattern::MixB, Pattern::Big]
            .into_iter()
            .find(|p| p.name() == s)
    }
    pub fn size(self, number: u64, ext: usize) -> usize {
        match self {
            Pattern::Zero => 0,
            Pattern::One => 1,
            Pattern::Five => 5,
            Pattern::MixA => [0, 1, 5][((number as usize) + ext) % 3],
            Pattern::MixB => [5, 1, 0][((number as usize) * 2 + ext) % 3],
            Pattern::Big => [8193, 1, 5][ext],
        }
    }
}

pub fn trio_name(number: u64, ext: usize) -> String {
    format!("{:05}.{}", number, EXTS[ext])
}

/// deterministic bytes, different for every key
pub fn bytes_for(key: &str, size: usize) -> Vec<u8> {
    let h = mc_core::hash64(key);
    (0..size)
        .map(|i| ((h >> ((i % 8) * 8)) as u8) ^ (i as u8).wrapping_mul(31) ^ ((i >> 8) as u8).wrapping_mul(7))
        .collect()
}

#[derive(Clone, Debug, PartialEq, Eq, Hash)]
pub struct Entry {
    /// path relative to the database directory
    pub rel: String,
    pub dir: bool,
    pub data: Vec<u8>,
}

impl Entry {
    pub fn to_json(&self) -> Value {
        if self.dir {
            json!({"path": self.rel, "dir": true})
        } else {
            json!({"path": self.rel, "bytes_hex": hex::encode(&self.data)})
        }
    }
    pub fn from_json(v: &Value) -> Option<Entry> {
        let rel = v["path"].as_str()?.to_string();
        if v["dir"].as_bool() == Some(true) {
            Some(Entry { rel, dir: true, data: vec![] })
        } else {
            Some(Entry { rel, dir: false, data: hex::decode(v["bytes_hex"].as_str()?).ok()? })
        }
    }
    /// short form for samples / messages
    pub fn brief(&self) -> String {
        if self.dir { format!("{}/", self.rel) } else { format!("{}[{}B]", self.rel, self.data.len()) }
    }
}

pub fn entries_to_json(es: &[Entry]) -> Value {
    Value::Array(es.iter().map(|e| e.to_json()).collect())
}
pub fn entries_from_json(v: &Value) -> Option<Vec<Entry>> {
    v.as_array()?.iter().map(Entry::from_json).collect()
}
pub fn brief(es: &[Entry]) -> String {
    es.iter().map(|e| e.brief()).collect::<Vec<_>>().join(" ")
}

pub fn file(rel: &str, size: usize) -> Entry {
    Entry { rel: rel.to_string(), dir: false, data: bytes_for(&format!("extra:{rel}"), size) }
}
pub fn dir(rel: &str) -> Entry {
    Entry { rel: rel.to_string(), dir: true, data: vec![] }
}
pub fn trio_entry(p: Pattern, number: u64, ext: usize) -> Entry {
    let name = trio_name(number, ext);
    let data = bytes_for(&name, p.size(number, ext));
    Entry { rel: format!("immutable/{name}"), dir: false, data }
}
/// the trio files of `numbers`, in sorted order
pub fn trios(p: Pattern, numbers: impl Iterator<Item = u64>) -> Vec<Entry> {
    let mut v = vec![];
    for n in numbers {
        for e in 0..3 {
            v.push(trio_entry(p, n, e));
        }
    }
    v
}

/// `immutable/<NNNNN>.<chunk|primary|secondary>` → (number, ext)
pub fn as_trio_file(rel: &str) -> Option<(u64, usize)> {
    let name = rel.strip_prefix("immutable/")?;
    if name.contains('/') {
        return None;
    }
    let (stem, ext) = name.split_once('.')?;
    let e = EXTS.iter().position(|x| *x == ext)?;
    if stem.len() != 5 || !stem.bytes().all(|b| b.is_ascii_digit()) {
        return None;
    }
    Some((stem.parse().ok()?, e))
}

/// Does the layout hold every covered file (trios first..=beacon) with its canonical content?
pub fn covered_complete(es: &[Entry], p: Pattern, first: u64, beacon: u64) -> bool {
    for n in first..=beacon {
        for e in 0..3 {
            let want = trio_entry(p, n, e);
            if !es.iter().any(|x| *x == want) {
                return false;
            }
        }
    }
    true
}

/// Create the entries in list order under `<base>/db`. A missing parent directory is created at the
/// moment its first child is created. Returns the database directory.
pub fn materialize(base: &Path, es: &[Entry]) -> PathBuf {
    let db = base.join("db");
    std::fs::create_dir_all(&db).expect("scratch db dir");
    for e in es {
        let p = db.join(&e.rel);
        if let Some(parent) = p.parent() {
            std::fs::create_dir_all(parent).expect("parent dir");
        }
        if e.dir {
            std::fs::create_dir_all(&p).expect("dir entry");
        } else {
            std::fs::write(&p, &e.data).expect("file entry");
        }
    }
    // the immutable directory always exists in a Cardano database
    std::fs::create_dir_all(db.join("immutable")).expect("immutable dir");
    db
}

/// names in the order `readdir` returns them (what the code under test will see)
pub fn listing(dir: &Path) -> Vec<String> {
    match std::fs::read_dir(dir) {
        Ok(rd) => rd.filter_map(|e| e.ok()).map(|e| e.file_name().to_string_lossy().into_owned()).collect(),
        Err(_) => vec![],
    }
}

// ------------------------------------------------------------------------------------------------
// extra files

pub struct Extra {
    /// which directory of the layout receives the files (part of the classifier key)
    pub place: &'static str,
    pub name: &'static str,
    pub entries: Vec<Entry>,
}

/// Every extra-file placement of the model for a database holding trios first..first+n-1.
/// None of these is an immutable file of the database: they are either outside `immutable/`, or
/// inside it without one of the three immutable extensions, or directories.
pub fn extras(first: u64, n: u64) -> Vec<Extra> {
    let last = first + n - 1;
    // a number that no trio of the database uses: below `first` when possible (so that it is
    // "covered" by every beacon), otherwise beyond every beacon
    let unused = if first > 0 { first - 1 } else { last + 3 };
    let f5 = |x: u64| format!("{x:05}");
    let (a, z, u) = (f5(first), f5(last), f5(unused));
    let mk = |place, name, entries| Extra { place, name, entries };
    vec![
        mk("root", "node-files", vec![file("protocolMagicId", 3), file("lock", 0), file("clean", 0)]),
        mk("root", "lookalike-files", vec![file(&format!("{a}.chunk"), 5), file(&format!("{z}.secondary"), 1), file(&format!("{u}.primary"), 5)]),
        mk("root", "lookalike-dir", vec![dir(&format!("{z}.primary")), file(&format!("{z}.primary/{z}.primary"), 5)]),
        mk("immutable", "bak-extension", vec![file(&format!("immutable/{a}.chunk.bak"), 5), file(&format!("immutable/{u}.bak"), 1)]),
        mk("immutable", "uppercase-extension", vec![file(&format!("immutable/{a}.CHUNK"), 5), file(&format!("immutable/{u}.Primary"), 5)]),
        mk("immutable", "tilde-extension", vec![file(&format!("immutable/{z}.chunk~"), 5)]),
        mk("immutable", "no-extension", vec![file(&format!("immutable/{a}"), 5), file("immutable/README", 5), file("immutable/chunk", 1)]),
        mk("immutable", "hidden-dot-files", vec![file("immutable/.chunk", 5), file("immutable/.primary", 0), file("immutable/.DS_Store", 5)]),
        mk("immutable", "tmp-of-beacon-files", vec![file(&format!("immutable/{z}.secondary.tmp"), 5), file(&format!("immutable/{z}.primary.partial"), 1)]),
        mk("immutable", "near-miss-extensions", vec![file(&format!("immutable/{a}.chunks"), 5), file(&format!("immutable/{a}.prim"), 5), file(&format!("immutable/{u}.secondary2"), 5)]),
        mk("immutable", "dir-named-like-immutable-file", vec![dir(&format!("immutable/{u}.chunk")), file(&format!("immutable/{u}.chunk/{u}.primary"), 5)]),
        mk("immutable", "subdir-with-lookalikes", vec![dir("immutable/sub"), file(&format!("immutable/sub/{a}.chunk"), 5), file(&format!("immutable/sub/{u}.secondary"), 5)]),
        mk("ledger", "lookalike-files", vec![file(&format!("ledger/{a}.chunk"), 5), file(&format!("ledger/{z}.primary"), 1), file(&format!("ledger/{u}.secondary"), 5)]),
        mk("ledger", "legacy-snapshot", vec![file("ledger/123456", 5)]),
        mk("ledger", "in-memory-snapshot", vec![dir("ledger/123999"), file("ledger/123999/meta", 1), file("ledger/123999/state", 5), dir("ledger/123999/tables"), file("ledger/123999/tables/tvar", 5)]),
        mk("ledger", "file-named-immutable", vec![file("ledger/immutable", 5)]),
        mk("volatile", "blocks", vec![file("volatile/blocks-0.dat", 5), file("volatile/blocks-1.dat", 0)]),
        mk("volatile", "lookalike-files", vec![file(&format!("volatile/{a}.secondary"), 5), file(&format!("volatile/{u}.chunk"), 5)]),
        mk("sibling-dir", "immutable.bak", vec![dir("immutable.bak"), file(&format!("immutable.bak/{a}.chunk"), 5), file(&format!("immutable.bak/{u}.chunk"), 5)]),
        mk("sibling-dir", "Immutable-and-immutables", vec![dir("Immutable"), file(&format!("Immutable/{a}.chunk"), 5), dir("immutables"), file(&format!("immutables/{a}.primary"), 5)]),
    ]
}

/// the k-th permutation (lexicographic) of 0..n
pub fn nth_permutation(n: usize, mut k: u64) -> Vec<usize> {
    let mut fact = vec![1u64; n + 1];
    for i in 1..=n {
        fact[i] = fact[i - 1] * i as u64;
    }
    let mut pool: Vec<usize> = (0..n).collect();
    let mut out = Vec::with_capacity(n);
    for i in (0..n).rev() {
        let f = fact[i];
        let idx = (k / f) as usize;
        k %= f;
        out.push(pool.remove(idx));
    }
    out
}

pub fn factorial(n: usize) -> u64 {
    (1..=n as u64).product()
}

/// named creation orders for lists that are too long for all permutations: every rotation of the
/// sorted list and of its reverse, extension-major orders, descending trios, odd/even interleave
pub fn named_orders(len: usize) -> Vec<(String, Vec<usize>)> {
    let mut out = vec![];
    let sorted: Vec<usize> = (0..len).collect();
    let reversed: Vec<usize> = (0..len).rev().collect();
    for r in 0..len {
        let mut a = sorted.clone();
        a.rotate_left(r);
        out.push((format!("rotate-{r}"), a));
        let mut b = reversed.clone();
        b.rotate_left(r);
        out.push((format!("reverse-rotate-{r}"), b));
    }
    if len % 3 == 0 {
        let ext_major: Vec<usize> = (0..3).flat_map(|e| (0..len / 3).map(move |t| t * 3 + e)).collect();
        out.push(("extension-major".into(), ext_major.clone()));
        out.push(("extension-major-reversed".into(), ext_major.into_iter().rev().collect()));
        let trio_desc: Vec<usize> = (0..len / 3).rev().flat_map(|t| (0..3).map(move |e| t * 3 + e)).collect();
        out.push(("trios-descending".into(), trio_desc));
    }
    let mut inter: Vec<usize> = (0..len).step_by(2).collect();
    inter.extend((1..len).step_by(2));
    out.push(("even-then-odd".into(), inter.clone()));
    out.push(("odd-then-even".into(), {
        let mut v: Vec<usize> = (1..len).step_by(2).collect();
        v.extend((0..len).step_by(2));
        v
    }));
    out.retain(|(_, o)| *o != sorted);
    out.sort_by(|a, b| a.1.cmp(&b.1));
    out.dedup_by(|a, b| a.1 == b.1);
    out
}

// ------------------------------------------------------------------------------------------------
// files inside `immutable/` that carry an immutable extension but not the name of an immutable file

/// other spellings of the number `x` that `str::parse::<u64>` accepts: fewer digits, more leading
/// zeros than five digits need, a leading plus sign. The canonical `{x:05}` is never returned.
pub fn spellings(x: u64) -> Vec<String> {
    let canonical = format!("{x:05}");
    let mut v = vec![format!("{x}"), format!("{x:03}"), format!("{x:06}"), format!("{x:09}"), format!("+{x}"), format!("+{x:05}")];
    v.retain(|s| *s != canonical);
    let mut out: Vec<String> = vec![];
    for s in v {
        if !out.contains(&s) {
            out.push(s);
        }
    }
    out
}

/// file names with an immutable extension whose stem is not a number (of an `u64`)
pub fn foreign_names(first: u64, last: u64) -> Vec<String> {
    vec![
        format!("{first:05} (copy).chunk"),
        format!("{last:05}.bak.chunk"),
        "notes.primary".into(),
        "abc.secondary".into(),
        ".tmp.chunk".into(),
        "99999999999999999999999.chunk".into(),
        "18446744073709551616.primary".into(),
        format!("-{first}.chunk"),
        format!("{last:05}x.secondary"),
        format!(" {first:05}.chunk"),
        format!("0x{last:04}.primary"),
        format!("{first:05}_{last:05}.secondary"),
    ]
}
