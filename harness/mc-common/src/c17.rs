//! C17 — beacons to sign respect the security margin, are monotone and agreed by all.
//!
//! Exhaustive enumeration of (tip, security parameter, step) on a dense lattice plus u64
//! boundary values, through the public `SignedEntityConfig::time_point_to_signed_entity` /
//! `list_allowed_signed_entity_types`, with an oracle in u128 arithmetic that restates the
//! property (it does not recompute the formula).

use mc_core::{Ctx, Report, catch, par_map};
use mithril_common::entities::{
    BlockNumber, BlockNumberOffset, CardanoBlocksTransactionsSigningConfig, CardanoDbBeacon,
    CardanoTransactionsSigningConfig, ChainPoint, Epoch, SignedEntityConfig, SignedEntityType,
    SignedEntityTypeDiscriminants, SlotNumber, TimePoint,
};
use serde_json::json;

const RANGE: u128 = 15;

fn config(sec: u64, step: u64) -> SignedEntityConfig {
    SignedEntityConfig {
        allowed_discriminants: SignedEntityTypeDiscriminants::all(),
        cardano_transactions_signing_config: Some(CardanoTransactionsSigningConfig {
            security_parameter: BlockNumberOffset(sec),
            step: BlockNumber(step),
        }),
        cardano_blocks_transactions_signing_config: Some(CardanoBlocksTransactionsSigningConfig {
            security_parameter: BlockNumberOffset(sec),
            step: BlockNumber(step),
        }),
    }
}

/// the signer's view: the two signing configurations travel as JSON inside the epoch settings
fn config_via_json(c: &SignedEntityConfig) -> SignedEntityConfig {
    let t = serde_json::to_string(c.cardano_transactions_signing_config.as_ref().unwrap()).unwrap();
    let b = serde_json::to_string(c.cardano_blocks_transactions_signing_config.as_ref().unwrap()).unwrap();
    // re-serialise with reversed key order as another node's serializer might
    let tv: serde_json::Value = serde_json::from_str(&t).unwrap();
    let rev: serde_json::Map<String, serde_json::Value> =
        tv.as_object().unwrap().iter().rev().map(|(k, v)| (k.clone(), v.clone())).collect();
    let t2 = serde_json::to_string(&rev).unwrap();
    SignedEntityConfig {
        allowed_discriminants: c.allowed_discriminants.clone(),
        cardano_transactions_signing_config: Some(serde_json::from_str(&t2).unwrap()),
        cardano_blocks_transactions_signing_config: Some(serde_json::from_str(&b).unwrap()),
    }
}

fn tp(epoch: u64, immutable: u64, tip: u64, salt: u64) -> TimePoint {
    TimePoint {
        epoch: Epoch(epoch),
        immutable_file_number: immutable,
        chain_point: ChainPoint {
            slot_number: SlotNumber(tip.wrapping_mul(3).wrapping_add(salt)),
            block_number: BlockNumber(tip),
            block_hash: format!("hash-{tip}-{salt}"),
        },
    }
}

#[derive(Clone, Copy, Debug, PartialEq)]
struct Sel {
    tx: u64,
    blocks: u64,
    blocks_offset: u64,
}

/// run the real code for one (config, time point); Err(message) on panic / unexpected error
fn select(cfg: &SignedEntityConfig, t: &TimePoint) -> Result<Sel, String> {
    catch(|| {
        let tx = cfg
            .time_point_to_signed_entity(SignedEntityTypeDiscriminants::CardanoTransactions, t)
            .map_err(|e| format!("error: {e}"))?;
        let bl = cfg
            .time_point_to_signed_entity(SignedEntityTypeDiscriminants::CardanoBlocksTransactions, t)
            .map_err(|e| format!("error: {e}"))?;
        let tx = match tx {
            SignedEntityType::CardanoTransactions(e, b) if e == t.epoch => *b,
            other => return Err(format!("wrong entity for CardanoTransactions: {other:?}")),
        };
        let (blocks, off) = match bl {
            SignedEntityType::CardanoBlocksTransactions(e, b, o) if e == t.epoch => (*b, *o),
            other => return Err(format!("wrong entity for CardanoBlocksTransactions: {other:?}")),
        };
        Ok(Sel { tx, blocks, blocks_offset: off })
    })
    .map_err(|p| format!("panic: {p} at {}", mc_core::last_panic_location()))?
}

struct Pair {
    sec: u64,
    step: u64,
}

fn check_pair(p: &Pair, tips: &[u64], dense: bool, extreme: bool) -> Report {
    let mut rep = Report::new("exploration", "");
    let cfg = config(p.sec, p.step);
    let cfg2 = config_via_json(&cfg);
    let mut prev: Option<(u64, Sel)> = None;
    let mut tx_jumps: Vec<u128> = vec![];
    let mut first_positive_tx: Option<u128> = None;
    for &tip in tips {
        rep.eval();
        let t = tp(3, 7, tip, 0);
        let ctxj = json!({"tip": tip.to_string(), "security_parameter": p.sec.to_string(), "step": p.step.to_string()});
        let s = match select(&cfg, &t) {
            Ok(s) => s,
            Err(e) => {
                if extreme && e.starts_with("panic") {
                    // arithmetic overflow traps exist only because this harness compiles with
                    // overflow-checks on; at u64 extremes this is an observation, not a verdict
                    rep.add_extra("panics_observed_at_u64_extremes", 1);
                    rep.outcome("panic@extreme");
                    prev = None;
                    continue;
                }
                rep.violation("C17/selection-fails", format!("selection failed for {ctxj}: {e}"), ctxj);
                prev = None;
                continue;
            }
        };
        // agreement: independently built config, other irrelevant time-point fields, repeated call
        let s2 = select(&cfg2, &tp(3, 99, tip, 5));
        if s2.as_ref().ok() != Some(&s) {
            rep.violation(
                "C17/nodes-disagree",
                format!("config rebuilt from JSON / different irrelevant fields selects {s2:?} instead of {s:?} for {ctxj}"),
                ctxj.clone(),
            );
        }
        let avail = (tip as u128).saturating_sub(p.sec as u128);
        // (1) security margin
        if (s.tx as u128) > avail {
            rep.violation("C17/margin-tx", format!("transactions beacon {} above tip-security {} for {ctxj}", s.tx, avail), ctxj.clone());
        }
        if (s.blocks as u128) > avail {
            rep.violation("C17/margin-blocks", format!("blocks beacon {} above tip-security {} for {ctxj}", s.blocks, avail), ctxj.clone());
        }
        if s.blocks_offset != p.sec {
            rep.violation("C17/offset-not-carried", format!("blocks entity carries offset {} for {ctxj}", s.blocks_offset), ctxj.clone());
        }
        // (4) complete block range boundary for the transaction entity
        if s.tx > 0 {
            if (s.tx as u128 + 1) % RANGE != 0 {
                rep.violation("C17/tx-not-on-range-boundary", format!("transactions beacon {} does not end a block range for {ctxj}", s.tx), ctxj.clone());
            }
            if first_positive_tx.is_none() {
                first_positive_tx = Some(s.tx as u128);
            }
            rep.nontrivial(&(p.sec, p.step, s.tx, s.blocks));
            rep.outcome("tx>0");
        } else if s.blocks > 0 {
            rep.nontrivial(&(p.sec, p.step, s.tx, s.blocks));
            rep.outcome("tx=0,blocks>0");
        } else {
            rep.outcome("both=0");
        }
        // blocks entity: always a whole number of steps from zero
        let bstep = (p.step as u128).max(1);
        if (s.blocks as u128) % bstep != 0 {
            rep.violation("C17/blocks-not-whole-steps", format!("blocks beacon {} is not a multiple of step for {ctxj}", s.blocks), ctxj.clone());
        }
        // (2),(3) successive tips
        if let Some((ptip, ps)) = prev
            && ptip + 1 == tip
        {
            if s.tx < ps.tx || s.blocks < ps.blocks {
                rep.violation("C17/not-monotone", format!("beacon decreased from {ps:?} to {s:?} when tip went {ptip}->{tip} ({ctxj})"), ctxj.clone());
            }
            let d = s.blocks as u128 - (ps.blocks.min(s.blocks)) as u128;
            if d != 0 && d != bstep {
                rep.violation("C17/blocks-jump-not-one-step", format!("blocks beacon moved by {d}, step {bstep} ({ctxj})"), ctxj.clone());
            }
            if ps.tx > 0 && s.tx > ps.tx {
                tx_jumps.push((s.tx - ps.tx) as u128);
            }
        }
        prev = Some((tip, s));
        if rep.samples.is_empty() && s.tx > 0 {
            rep.sample(json!({"case": ctxj, "transactions_beacon": s.tx, "blocks_beacon": s.blocks}));
        }
    }
    if dense {
        // whole signing steps: every move of the transactions beacon is the same g, a multiple of
        // the range length, and the first signed beacon is g-1 (steps are counted from zero)
        if let Some(&g) = tx_jumps.first() {
            if tx_jumps.iter().any(|j| *j != g) || g % RANGE != 0 {
                rep.violation(
                    "C17/tx-jumps-not-whole-steps",
                    format!("transactions beacon moves by {:?} for sec={} step={}", tx_jumps, p.sec, p.step),
                    json!({"security_parameter": p.sec, "step": p.step}),
                );
            }
            if let Some(f) = first_positive_tx
                && (f + 1) % g != 0
            {
                rep.violation(
                    "C17/tx-first-step-misaligned",
                    format!("first transactions beacon {f} is not a whole step (g={g}) for sec={} step={}", p.sec, p.step),
                    json!({"security_parameter": p.sec, "step": p.step}),
                );
            }
        }
    }
    rep
}

fn other_entities(rep: &mut Report) {
    // the entity types that do not involve block numbers: pure functions of (epoch, immutable)
    let cfg = config(5, 30);
    for epoch in [0u64, 1, 2, 3, u64::MAX] {
        for imm in [0u64, 1, 9, u64::MAX] {
            rep.eval();
            let t = tp(epoch, imm, 100, 1);
            let ctxj = json!({"epoch": epoch.to_string(), "immutable": imm.to_string()});
            let r = catch(|| {
                let msd = cfg.time_point_to_signed_entity(SignedEntityTypeDiscriminants::MithrilStakeDistribution, &t);
                let csd = cfg.time_point_to_signed_entity(SignedEntityTypeDiscriminants::CardanoStakeDistribution, &t);
                let cdb = cfg.time_point_to_signed_entity(SignedEntityTypeDiscriminants::CardanoDatabase, &t);
                let all = cfg.list_allowed_signed_entity_types(&t);
                (msd, csd, cdb, all)
            });
            match r {
                Err(p) => rep.violation("C17/panic-other-entities", format!("panic {p} for {ctxj}"), ctxj),
                Ok((msd, csd, cdb, all)) => {
                    if !matches!(msd, Ok(SignedEntityType::MithrilStakeDistribution(e)) if *e == epoch) {
                        rep.violation("C17/msd-epoch", format!("MithrilStakeDistribution entity {msd:?} for {ctxj}"), ctxj.clone());
                    }
                    match (&csd, epoch) {
                        (Err(_), 0) => {}
                        // epochs that do not fit the signed offset arithmetic are answered with an error
                        (Err(_), ep) if ep > i64::MAX as u64 => {}
                        (Ok(SignedEntityType::CardanoStakeDistribution(e)), ep) if ep > 0 && **e == ep - 1 => {}
                        _ => rep.violation("C17/csd-epoch", format!("CardanoStakeDistribution entity {csd:?} for {ctxj}"), ctxj.clone()),
                    }
                    if !matches!(&cdb, Ok(SignedEntityType::CardanoDatabase(b)) if *b == CardanoDbBeacon::new(epoch, imm)) {
                        rep.violation("C17/cdb-beacon", format!("CardanoDatabase entity {cdb:?} for {ctxj}"), ctxj.clone());
                    }
                    // the list is the per-discriminant selection, nothing else
                    match all {
                        Ok(list) => {
                            for e in &list {
                                let d: SignedEntityTypeDiscriminants = e.into();
                                let single = cfg.time_point_to_signed_entity(d, &t).ok();
                                if single.as_ref() != Some(e) {
                                    rep.violation("C17/list-disagrees", format!("list gives {e:?}, single call {single:?}"), ctxj.clone());
                                }
                            }
                            rep.nontrivial(&("other", epoch, imm));
                        }
                        Err(_) if epoch == 0 || epoch > i64::MAX as u64 => {
                            rep.nontrivial(&("other-epoch0", imm));
                        }
                        Err(e) => rep.violation("C17/list-fails", format!("list fails: {e} for {ctxj}"), ctxj.clone()),
                    }
                }
            }
        }
    }
}

pub fn run(ctx: &Ctx) -> ! {
    let (max_tip, max_sec, max_step) = ctx.tier.pick((400u64, 80u64, 95u64), (1500, 200, 240));
    let mut rep = Report::new(
        "exploration",
        "every (tip, security parameter, step) triple of the dense lattice tip<=T, sec<=S, step<=P, and every \
         combination of u64 boundary values, is pushed through SignedEntityConfig::time_point_to_signed_entity for both \
         block-number entities (and through a config rebuilt from JSON); a case is non-trivial when a non-zero beacon \
         is selected; distinct = distinct (sec, step, tx beacon, blocks beacon)",
    );
    rep.extra("lattice", json!({"max_tip": max_tip, "max_security_parameter": max_sec, "max_step": max_step}));
    if let Some(path) = &ctx.replay {
        let v = mc_core::load_replay(path);
        let g = |k: &str| v[k].as_str().and_then(|s| s.parse::<u64>().ok()).or(v[k].as_u64()).unwrap_or(0);
        let (sec, step) = (g("security_parameter"), g("step"));
        let tip = g("tip");
        let tips: Vec<u64> = (tip.saturating_sub(40)..=tip.saturating_add(1)).collect();
        let r = check_pair(&Pair { sec, step }, &tips, false, false);
        rep.merge(r);
        rep.nontrivial(&0);
        rep.nontrivial(&1);
        rep.finish(ctx);
    }
    // dense lattice
    let mut pairs = vec![];
    for sec in 0..=max_sec {
        for step in 0..=max_step {
            pairs.push(Pair { sec, step });
        }
    }
    let tips: Vec<u64> = (0..=max_tip).collect();
    let parts = par_map(&pairs, ctx.threads(), |_, p| check_pair(p, &tips, true, false));
    for p in parts {
        rep.merge(p);
    }
    // boundary values in every position (pairs tip, tip+1 around each boundary)
    let b: Vec<u64> = {
        let mut v = vec![0u64, 1, 14, 15, 16, 29, 30, 31, 1 << 32, (1 << 32) + 1, 1 << 63, (1 << 63) + 1];
        for d in 0..=31u64 {
            v.push(u64::MAX - d);
        }
        v.sort();
        v.dedup();
        v
    };
    let mut bpairs = vec![];
    for &sec in &b {
        for &step in &b {
            bpairs.push(Pair { sec, step });
        }
    }
    let mut btips = vec![];
    for &t in &b {
        btips.push(t);
        if t < u64::MAX {
            btips.push(t + 1);
        }
    }
    btips.sort();
    btips.dedup();
    let parts = par_map(&bpairs, ctx.threads(), |_, p| {
        let extreme = p.step > (1 << 63) || p.sec > (1 << 63);
        let mut r = Report::new("exploration", "");
        // tips beyond 2^63 are evaluated with the "extreme" rule too
        let (lo, hi): (Vec<u64>, Vec<u64>) = btips.iter().partition(|t| **t <= (1 << 63) + 1);
        r.merge(check_pair(p, &lo, false, extreme));
        r.merge(check_pair(p, &hi, false, true));
        r
    });
    for p in parts {
        rep.merge(p);
    }
    other_entities(&mut rep);
    rep.assume("block range length is 15 (the protocol constant the property's 'complete block range' refers to)");
    rep.assume("arithmetic-overflow panics for operands above 2^63 are reported as observations: they exist only under overflow-checks");
    rep.finish(ctx)
}
