//! C04 — TODO
use mc_core::Ctx;

pub fn run(_ctx: &Ctx) -> ! {
    eprintln!("C04: not implemented");
    std::process::exit(2)
}
