//! C04 — certificates are tamper-evident and survive the wire unchanged.
//!
//! Four exhaustive sweeps, all on the real code (`Certificate::try_compute_hash`,
//! `ProtocolMessage::compute_hash`, `TryFrom<Certificate> for CertificateMessage` and back,
//! `serde_json`, `MithrilCertificateVerifier::verify_certificate`):
//!
//! * **tamper**: every certificate of an explicit grammar x every single-field change from per-field
//!   alphabets: the hash must change when the changed field is one the certificate hash is documented
//!   to cover (sub-unit changes of `phi_f` are evaluated but nothing is required of them); plus, for both
//!   timestamps, chrono's leap-second representation hh:mm:60.fff against the following second;
//! * **pm**: every protocol message over small key subsets and an honest value alphabet, bucketed by
//!   digest: two different messages never share a digest;
//! * **wire**: every grammar certificate (and every certificate of a really signed chain, plus single
//!   field tamperings of those) -> `CertificateMessage` -> JSON text in many re-serialisations ->
//!   message -> certificate: same hash (carried and recomputed), same signed message, same
//!   `verify_certificate` outcome;
//! * **phi**: every rounding boundary of the U8F24 representation of `phi_f` in [0,1) and its f64
//!   neighbours through `ProtocolParameters` -> JSON -> back: same parameter hash.

use std::collections::HashMap;
use std::sync::Arc;

use chrono::{DateTime, NaiveDate, TimeDelta, Utc};
use mc_core::{Ctx, Report, catch, par_map};
use mithril_common::certificate_chain::{CertificateVerifier, MithrilCertificateVerifier};
use mithril_common::crypto_helper::{
    GenesisEd25519Signature, GenesisVerifier, ProtocolAggregateVerificationKeyForConcatenation,
    ProtocolMultiSignature,
};
use mithril_common::entities::{
    BlockNumber, BlockNumberOffset, CardanoDbBeacon, Certificate, CertificateMetadata,
    CertificateSignature, Epoch, ProtocolMessage, ProtocolMessagePartKey, ProtocolParameters,
    SignedEntityType, StakeDistributionParty,
};
use mithril_common::messages::CertificateMessage;
use mithril_common::test::builder::CertificateChainBuilder;
use mithril_common::test::double::FakeCertificaterRetriever;
use serde_json::{Value, json};

type Avk = ProtocolAggregateVerificationKeyForConcatenation;
type MSig = ProtocolMultiSignature;
type GSig = GenesisEd25519Signature;

const UNIT: f64 = 1.0 / 16777216.0; // one unit of U8F24
const H64A: &str = "9f86d081884c7d659a2feaa0c55ad015a3bf4f1b2b0b822cd15d6c15b0f00a08";
const H64B: &str = "0a1b2c3d4e5f60718293a4b5c6d7e8f900112233445566778899aabbccddeeff";

const PART_KEYS: [ProtocolMessagePartKey; 12] = [
    ProtocolMessagePartKey::SnapshotDigest,
    ProtocolMessagePartKey::CardanoTransactionsMerkleRoot,
    ProtocolMessagePartKey::CardanoBlocksTransactionsMerkleRoot,
    ProtocolMessagePartKey::NextAggregateVerificationKey,
    ProtocolMessagePartKey::NextProtocolParameters,
    ProtocolMessagePartKey::CurrentEpoch,
    ProtocolMessagePartKey::LatestBlockNumber,
    ProtocolMessagePartKey::CardanoBlocksTransactionsBlockNumberOffset,
    ProtocolMessagePartKey::CardanoStakeDistributionEpoch,
    ProtocolMessagePartKey::CardanoStakeDistributionMerkleRoot,
    ProtocolMessagePartKey::CardanoDatabaseMerkleRoot,
    ProtocolMessagePartKey::NextSnarkAggregateVerificationKey,
];

// ------------------------------------------------------------------------------------------------
// material: one really signed chain (genesis + 5 standard certificates, one per signed entity type)
// and real keys / signatures taken from it
// ------------------------------------------------------------------------------------------------

struct Material {
    /// latest -> genesis
    chain: Vec<Certificate>,
    genesis_verifier: GenesisVerifier,
    avks: Vec<Avk>,
    avk_alts: Vec<(String, Avk)>,
    msigs: Vec<MSig>,
    msig_alts: Vec<(String, MSig)>,
    gsig: GSig,
    gsig_alts: Vec<(String, GSig)>,
}

fn ts(n: i64) -> DateTime<Utc> {
    DateTime::from_timestamp_nanos(n)
}

/// the timestamp as the property sees it: a 64-bit count of nanoseconds (None when not representable)
fn ref_nanos(d: &DateTime<Utc>) -> Option<i64> {
    let n = d.timestamp() as i128 * 1_000_000_000 + d.timestamp_subsec_nanos() as i128;
    i64::try_from(n).ok()
}

fn set_variant(variant: usize, c: [u64; 3]) -> SignedEntityType {
    match variant {
        1 => SignedEntityType::MithrilStakeDistribution(Epoch(c[0])),
        2 => SignedEntityType::CardanoStakeDistribution(Epoch(c[0])),
        3 => SignedEntityType::CardanoDatabase(CardanoDbBeacon::new(c[0], c[1])),
        4 => SignedEntityType::CardanoTransactions(Epoch(c[0]), BlockNumber(c[1])),
        _ => SignedEntityType::CardanoBlocksTransactions(Epoch(c[0]), BlockNumber(c[1]), BlockNumberOffset(c[2])),
    }
}

fn set_components(s: &SignedEntityType) -> (usize, Vec<u64>) {
    match s {
        SignedEntityType::MithrilStakeDistribution(e) => (1, vec![**e]),
        SignedEntityType::CardanoStakeDistribution(e) => (2, vec![**e]),
        SignedEntityType::CardanoDatabase(b) => (3, vec![*b.epoch, b.immutable_file_number]),
        SignedEntityType::CardanoTransactions(e, b) => (4, vec![**e, **b]),
        SignedEntityType::CardanoBlocksTransactions(e, b, o) => (5, vec![**e, **b, **o]),
    }
}

fn hex_json_edit(hex_json: &str, f: impl FnOnce(&mut Value)) -> String {
    let bytes = hex::decode(hex_json).expect("json hex");
    let mut v: Value = serde_json::from_slice(&bytes).expect("json inside json hex");
    f(&mut v);
    hex::encode(serde_json::to_string(&v).unwrap())
}

fn bump(v: &mut Value, d: i64) {
    let n = v.as_u64().expect("number");
    *v = json!(if d >= 0 { n.wrapping_add(d as u64) } else { n.wrapping_sub((-d) as u64) });
}

fn build_material() -> Material {
    let params = ProtocolParameters::new(2, 20, 0.65);
    let chain = CertificateChainBuilder::new()
        .with_total_certificates(6)
        .with_certificates_per_epoch(2)
        .with_protocol_parameters(params.into())
        .with_total_signers_per_epoch_processor(&|e| 2 + (*e as usize % 2))
        // the genesis producer stamps the wall clock: replace it (hashes are recomputed afterwards)
        .with_genesis_certificate_processor(&|mut c, _, _| {
            c.metadata.initiated_at = ts(1_136_214_245_000_000_000);
            c.metadata.sealed_at = ts(1_136_214_245_000_000_001);
            c
        })
        .with_standard_certificate_processor(&|mut c, cx| {
            let i = cx.index_certificate as u64;
            if let CertificateSignature::MultiSignature(_, sig) = c.signature.clone() {
                let set = set_variant(((i - 1) % 5 + 1) as usize, [*cx.epoch, 100 + i, 15]);
                c.signature = CertificateSignature::MultiSignature(set, sig);
            }
            c.metadata.initiated_at = ts(1_707_743_507_012_304_300 + i as i64 * 1_000_000_007);
            c.metadata.sealed_at = ts(1_707_743_507_012_304_300 + i as i64 * 1_000_000_007 + 123_456_789);
            c
        })
        .build();
    let genesis_verifier = chain.genesis_verifier.clone();
    let chain = chain.certificates_chained;

    let mut avks: Vec<Avk> = vec![];
    let mut msigs: Vec<MSig> = vec![];
    let mut gsig = None;
    for c in &chain {
        if !avks.iter().any(|a| a.to_json_hex().unwrap() == c.aggregate_verification_key.to_json_hex().unwrap()) {
            avks.push(c.aggregate_verification_key.clone());
        }
        match &c.signature {
            CertificateSignature::MultiSignature(_, s) => msigs.push(s.clone()),
            CertificateSignature::GenesisSignature(s) => gsig = Some(*s),
        }
    }
    assert!(avks.len() >= 2 && msigs.len() >= 2);
    let gsig = gsig.expect("genesis signature");

    // single-field changes of a real aggregate verification key, through its own decoder
    let a0 = avks[0].to_json_hex().unwrap();
    let mut avk_alts = vec![("another real key".to_string(), avks[1].clone())];
    let avk_edits: Vec<(&str, Box<dyn Fn(&mut Value)>)> = vec![
        ("root[0]^1", Box::new(|v| { let b = v["mt_commitment"]["root"][0].as_u64().unwrap(); v["mt_commitment"]["root"][0] = json!(b ^ 1); })),
        ("root[31]^128", Box::new(|v| { let b = v["mt_commitment"]["root"][31].as_u64().unwrap(); v["mt_commitment"]["root"][31] = json!(b ^ 128); })),
        ("nr_leaves+1", Box::new(|v| bump(&mut v["mt_commitment"]["nr_leaves"], 1))),
        ("nr_leaves-1", Box::new(|v| bump(&mut v["mt_commitment"]["nr_leaves"], -1))),
        ("total_stake+1", Box::new(|v| bump(&mut v["total_stake"], 1))),
        ("total_stake-1", Box::new(|v| bump(&mut v["total_stake"], -1))),
        ("total_stake=2^64-1", Box::new(|v| v["total_stake"] = json!(u64::MAX))),
        ("total_stake^2^32", Box::new(|v| { let b = v["total_stake"].as_u64().unwrap(); v["total_stake"] = json!(b ^ (1 << 32)); })),
        ("root shortened", Box::new(|v| { v["mt_commitment"]["root"].as_array_mut().unwrap().pop(); })),
    ];
    for (name, f) in avk_edits {
        let edited = hex_json_edit(&a0, f);
        if let Ok(Ok(k)) = catch(|| Avk::from_json_hex(&edited)) {
            avk_alts.push((name.to_string(), k));
        }
    }

    // single-field changes of a real multi-signature, through its own decoder
    let s0 = msigs[0].to_json_hex().unwrap();
    let mut msig_alts = vec![("another real multi-signature".to_string(), msigs[1].clone())];
    let msig_edits: Vec<(&str, Box<dyn Fn(&mut Value)>)> = vec![
        ("first index +1", Box::new(|v| bump(&mut v["signatures"][0][0]["indexes"][0], 1))),
        ("last index dropped", Box::new(|v| { v["signatures"][0][0]["indexes"].as_array_mut().unwrap().pop(); })),
        ("signer_index+1", Box::new(|v| bump(&mut v["signatures"][0][0]["signer_index"], 1))),
        ("claimed stake+1", Box::new(|v| bump(&mut v["signatures"][0][1][1], 1))),
        ("batch path value[0][0]^1", Box::new(|v| { let b = v["batch_proof"]["values"][0][0].as_u64().unwrap(); v["batch_proof"]["values"][0][0] = json!(b ^ 1); })),
        ("batch path index+1", Box::new(|v| bump(&mut v["batch_proof"]["indices"][0], 1))),
        ("sigma of the other multi-signature", Box::new({
            let other = msigs[1].to_json_hex().unwrap();
            move |v| {
                let o: Value = serde_json::from_slice(&hex::decode(&other).unwrap()).unwrap();
                v["signatures"][0][0]["sigma"] = o["signatures"][0][0]["sigma"].clone();
            }
        })),
    ];
    for (name, f) in msig_edits {
        let edited = hex_json_edit(&s0, f);
        if edited == s0 {
            continue;
        }
        if let Ok(Ok(k)) = catch(|| MSig::from_json_hex(&edited)) {
            msig_alts.push((name.to_string(), k));
        }
    }

    let g0 = gsig.to_bytes_hex().unwrap();
    let mut gsig_alts = vec![];
    for (name, pos, mask) in [("R byte 0 ^1", 0usize, 1u8), ("R byte 31 ^64", 31, 64), ("s byte 32 ^1", 32, 1), ("s byte 63 ^8", 63, 8)] {
        let mut b = hex::decode(&g0).unwrap();
        b[pos] ^= mask;
        if let Ok(Ok(k)) = catch(|| GSig::from_bytes_hex(&hex::encode(&b))) {
            gsig_alts.push((name.to_string(), k));
        }
    }
    Material { chain, genesis_verifier, avks, avk_alts, msigs, msig_alts, gsig, gsig_alts }
}

// ------------------------------------------------------------------------------------------------
// certificate grammar
// ------------------------------------------------------------------------------------------------

/// indices into the per-dimension alphabets below
#[derive(Clone, Copy, Debug, PartialEq, Eq, Hash)]
struct Spec {
    kind: usize,    // 0 genesis, 1..=5 standard with that signed entity type
    ext: usize,     // magnitude of every u64 (epoch, beacons, k, m, stakes)
    signers: usize, // signer list shape
    ts: usize,      // timestamps
    pm: usize,      // protocol message shape
    strs: usize,    // previous hash / network / version strings
    phi: usize,     // phi_f
}

const N_KIND: usize = 6;
const EXT: [u64; 5] = [5, 0, u64::MAX, 1 << 32, 1 << 63];
const N_SIGNERS: usize = 4;
const N_TS: usize = 7;
const N_PM: usize = 3;
const N_STRS: usize = 3;
const PHI: [f64; 6] = [0.65, 0.2, 1.0, UNIT, 0.5 + UNIT / 2.0, 0.0];

impl Spec {
    fn to_json(self) -> Value {
        json!([self.kind, self.ext, self.signers, self.ts, self.pm, self.strs, self.phi])
    }
    fn from_json(v: &Value) -> Spec {
        let g = |i: usize| v[i].as_u64().unwrap_or(0) as usize;
        Spec { kind: g(0) % N_KIND, ext: g(1) % EXT.len(), signers: g(2) % N_SIGNERS, ts: g(3) % N_TS, pm: g(4) % N_PM, strs: g(5) % N_STRS, phi: g(6) % PHI.len() }
    }
}

fn leap_second() -> DateTime<Utc> {
    // 2016-12-31T23:59:60.5Z, held by chrono as second 59 with 1.5e9 nanoseconds
    NaiveDate::from_ymd_opt(2016, 12, 31).unwrap().and_hms_nano_opt(23, 59, 59, 1_500_000_000).unwrap().and_utc()
}

fn timestamps(i: usize) -> (DateTime<Utc>, DateTime<Utc>) {
    match i {
        0 => (ts(1_707_743_507_012_304_300), ts(1_707_743_607_000_000_001)), // sub-second parts
        1 => (ts(0), ts(0)),                                                 // the epoch itself
        2 => (ts(1), ts(2)),                                                 // 1 ns
        3 => (ts(i64::MIN), ts(i64::MIN + 1)),                               // 1677-09-21
        4 => (ts(i64::MAX - 1), ts(i64::MAX)),                               // 2262-04-11
        5 => (ts(-1), ts(-1_000_000_001)),                                   // just before the epoch
        _ => (leap_second(), ts(1_483_228_800_500_000_000)),                 // 23:59:60.5 and 00:00:00.5
    }
}

fn signer_list(i: usize, x: u64) -> Vec<StakeDistributionParty> {
    let p = |id: &str, stake: u64| StakeDistributionParty { party_id: id.to_string(), stake };
    match i {
        0 => vec![p("p", 1), p("pa", x), p("pab", 3)], // ids that are prefixes of one another
        1 => vec![],
        2 => vec![p("pool1mxyec46067n3querj9cxkk0g0zlag93pf3ya9vuyr3wgkq2e6t7", x)],
        _ => vec![p("", x), p("x", 1), p("x", 1), p("\"x\\\u{e9}\u{1F600}\n", 0)],
    }
}

fn strings(i: usize) -> (String, String, String) {
    match i {
        0 => (H64B.to_string(), "devnet".to_string(), "0.1.0".to_string()),
        1 => (String::new(), String::new(), String::new()),
        _ => ("previous\"hash\\/".to_string(), "t\u{e9}st-net \u{1F600}\n\t\u{0}\u{7f}".to_string(), "0.1.0+build/\u{3b1}".to_string()),
    }
}

fn protocol_message(i: usize, x: u64, mat: &Material) -> ProtocolMessage {
    let mut m = ProtocolMessage::new();
    let avk_hex = mat.avks[1].to_json_hex().unwrap();
    match i {
        0 => {
            m.set_message_part(ProtocolMessagePartKey::SnapshotDigest, H64A.to_string());
            m.set_message_part(ProtocolMessagePartKey::NextAggregateVerificationKey, avk_hex);
            m.set_message_part(ProtocolMessagePartKey::NextProtocolParameters, H64B.to_string());
            m.set_message_part(ProtocolMessagePartKey::CurrentEpoch, x.to_string());
        }
        1 => {}
        _ => {
            for (n, k) in PART_KEYS.iter().enumerate() {
                let v = match n % 4 {
                    0 => H64A.to_string(),
                    1 => x.wrapping_add(n as u64).to_string(),
                    2 => avk_hex.clone(),
                    _ => H64B[..(2 * n).min(64)].to_string(),
                };
                m.set_message_part(*k, v);
            }
        }
    }
    m
}

fn build(spec: Spec, mat: &Material) -> Certificate {
    let x = EXT[spec.ext];
    let (initiated_at, sealed_at) = timestamps(spec.ts);
    let (previous_hash, network, version) = strings(spec.strs);
    let pm = protocol_message(spec.pm, x, mat);
    let signature = if spec.kind == 0 {
        CertificateSignature::GenesisSignature(mat.gsig)
    } else {
        let comps = if spec.ext == 0 { [5, 100, 15] } else { [x, x, x] };
        CertificateSignature::MultiSignature(set_variant(spec.kind, comps), mat.msigs[0].clone())
    };
    let (k, m) = if spec.ext == 0 { (5, 100) } else { (x, x) };
    let mut c = Certificate {
        hash: String::new(),
        previous_hash,
        epoch: Epoch(x),
        metadata: CertificateMetadata::new(network, version, ProtocolParameters::new(k, m, PHI[spec.phi]), initiated_at, sealed_at, signer_list(spec.signers, x)),
        signed_message: pm.compute_hash(),
        protocol_message: pm,
        aggregate_verification_key: mat.avks[0].clone(),
        ancillary_prover_data: None,
        ancillary_verifier_data: None,
        signature,
    };
    c.hash = c.try_compute_hash().expect("hash of a grammar certificate");
    c
}

fn grammar(thorough: bool) -> Vec<Spec> {
    let mut out = vec![];
    if thorough {
        for kind in 0..N_KIND {
            for ext in 0..EXT.len() {
                for signers in 0..N_SIGNERS {
                    for ts in 0..N_TS {
                        for pm in 0..N_PM {
                            for strs in 0..N_STRS {
                                for phi in 0..PHI.len() {
                                    out.push(Spec { kind, ext, signers, ts, pm, strs, phi });
                                }
                            }
                        }
                    }
                }
            }
        }
    } else {
        // two full sub-products sharing the centre (structure and magnitudes; content shapes)
        for kind in 0..N_KIND {
            for ext in 0..3 {
                for signers in 0..3 {
                    for ts in 0..N_TS {
                        out.push(Spec { kind, ext, signers, ts, pm: 0, strs: 0, phi: 0 });
                    }
                }
            }
        }
        for kind in 0..N_KIND {
            for pm in 0..N_PM {
                for strs in 0..N_STRS {
                    for phi in 0..4 {
                        let s = Spec { kind, ext: 0, signers: 0, ts: 0, pm, strs, phi };
                        if !out.contains(&s) {
                            out.push(s);
                        }
                    }
                }
            }
        }
    }
    out
}

// ------------------------------------------------------------------------------------------------
// single-field changes
// ------------------------------------------------------------------------------------------------

fn string_changes(s: &str) -> Vec<(String, String)> {
    let mut v: Vec<(String, String)> = vec![
        ("append '0'".into(), format!("{s}0")),
        ("prepend '0'".into(), format!("0{s}")),
        ("empty".into(), String::new()),
        ("upper case".into(), s.to_uppercase()),
        ("append ' '".into(), format!("{s} ")),
    ];
    let chars: Vec<char> = s.chars().collect();
    if !chars.is_empty() {
        v.push(("delete last char".into(), chars[..chars.len() - 1].iter().collect()));
        v.push(("delete first char".into(), chars[1..].iter().collect()));
        let mut c = chars.clone();
        let l = c.len() - 1;
        c[l] = if c[l] == 'z' { 'y' } else { 'z' };
        v.push(("replace last char".into(), c.iter().collect()));
    } else {
        v.push(("single char".into(), "a".into()));
    }
    let mut out: Vec<(String, String)> = vec![];
    for (n, t) in v {
        if t != s && !out.iter().any(|(_, o)| *o == t) {
            out.push((n, t));
        }
    }
    out
}

fn int_changes(x: u64) -> Vec<(String, u64)> {
    let cands = [
        ("+1", x.checked_add(1)),
        ("-1", x.checked_sub(1)),
        ("=0", Some(0)),
        ("=2^64-1", Some(u64::MAX)),
        ("^2^8", Some(x ^ (1 << 8))),
        ("^2^32", Some(x ^ (1 << 32))),
        ("^2^63", Some(x ^ (1 << 63))),
    ];
    let mut out: Vec<(String, u64)> = vec![];
    for (n, c) in cands {
        if let Some(c) = c
            && c != x
            && !out.iter().any(|(_, o)| *o == c)
        {
            out.push((n.to_string(), c));
        }
    }
    out
}

fn time_changes(d: &DateTime<Utc>) -> Vec<(String, DateTime<Utc>)> {
    let Some(n0) = ref_nanos(d) else { return vec![] };
    let mut out = vec![];
    for (name, delta) in [("+1ns", 1i64), ("-1ns", -1), ("+1s", 1_000_000_000), ("-1s", -1_000_000_000), ("+1ms", 1_000_000), ("+2^32ns", 1 << 32)] {
        if let Some(t) = d.checked_add_signed(TimeDelta::nanoseconds(delta))
            && let Some(n1) = ref_nanos(&t)
            && n1 != n0
        {
            out.push((name.to_string(), t));
        }
    }
    out
}

/// Pairs (hh:mm:60.fff, hh:(mm+1):00.fff): chrono's leap-second representation (second 59 with a
/// nanosecond field >= 1e9; accepted and written back as "hh:mm:60.fff" on *any* minute) and the plain
/// following second with the same sub-second part. The two are different `DateTime<Utc>` values with
/// different JSON texts, both survive the wire unchanged, and both are 64-bit-nanosecond representable.
fn leap_pairs() -> Vec<(DateTime<Utc>, DateTime<Utc>)> {
    let mk = |y: i32, mo: u32, d: u32, h: u32, mi: u32, frac: u32| {
        let day = NaiveDate::from_ymd_opt(y, mo, d).unwrap();
        let a = day.and_hms_nano_opt(h, mi, 59, 1_000_000_000 + frac).unwrap().and_utc();
        let b = (day.and_hms_nano_opt(h, mi, 59, frac).unwrap() + TimeDelta::seconds(1)).and_utc();
        (a, b)
    };
    vec![
        mk(2016, 12, 31, 23, 59, 500_000_000), // a real leap second: 23:59:60.5 / 00:00:00.5 next day
        mk(2024, 2, 12, 13, 11, 250_000_000),  // an ordinary minute: 13:11:60.25 / 13:12:00.25
        mk(1970, 1, 1, 0, 0, 0),               // no sub-second part: 00:00:60 / 00:01:00
        mk(2006, 1, 2, 15, 4, 999_999_999),    // 15:04:60.999999999 / 15:05:00.999999999
        mk(2262, 4, 11, 23, 46, 1),            // last representable minute: 23:46:60.000000001 / 23:47:00.000000001
    ]
}

/// the pairs above really are what the class needs (distinct values, distinct JSON, read back unchanged)
fn leap_pairs_self_check(rep: &mut Report) {
    for (a, b) in leap_pairs() {
        let (ta, tb) = (serde_json::to_string(&a).unwrap(), serde_json::to_string(&b).unwrap());
        let back_a: Result<DateTime<Utc>, _> = serde_json::from_str(&ta);
        let back_b: Result<DateTime<Utc>, _> = serde_json::from_str(&tb);
        let ok = a != b
            && ta != tb
            && ta.contains(":60")
            && a.timestamp_subsec_nanos() >= 1_000_000_000
            && b.timestamp_subsec_nanos() < 1_000_000_000
            && matches!(&back_a, Ok(x) if *x == a && x.timestamp_subsec_nanos() == a.timestamp_subsec_nanos())
            && matches!(&back_b, Ok(x) if *x == b)
            && ref_nanos(&a).is_some()
            && ref_nanos(&b).is_some();
        if !ok {
            rep.machinery_error(format!("leap-second pair self-check failed for {ta} / {tb}"));
        }
    }
}

/// phi_f as a count of 2^-24 units under the four usual rounding conventions (scaling by 2^24 is exact)
fn fixed_views(x: f64) -> [f64; 4] {
    let y = x * 16777216.0;
    [y.floor(), y.ceil(), y.round(), y.round_ties_even()]
}

/// Calls `f(field, description, required, changed certificate)` for every single-field change of `base`.
/// `required` = the property demands a different hash for this change.
fn for_each_change(base: &Certificate, mat: &Material, mut f: impl FnMut(&str, String, bool, Certificate)) {
    // plain strings
    for (n, s) in string_changes(&base.previous_hash) {
        let mut c = base.clone();
        c.previous_hash = s;
        f("previous_hash", n, true, c);
    }
    for (n, s) in string_changes(&base.signed_message) {
        let mut c = base.clone();
        c.signed_message = s;
        f("signed_message", n, true, c);
    }
    for (n, s) in string_changes(&base.metadata.network) {
        let mut c = base.clone();
        c.metadata.network = s;
        f("metadata.network", n, true, c);
    }
    for (n, s) in string_changes(&base.metadata.protocol_version) {
        let mut c = base.clone();
        c.metadata.protocol_version = s;
        f("metadata.protocol_version", n, true, c);
    }
    // integers
    for (n, x) in int_changes(*base.epoch) {
        let mut c = base.clone();
        c.epoch = Epoch(x);
        f("epoch", n, true, c);
    }
    for (n, x) in int_changes(base.metadata.protocol_parameters.k) {
        let mut c = base.clone();
        c.metadata.protocol_parameters.k = x;
        f("metadata.protocol_parameters.k", n, true, c);
    }
    for (n, x) in int_changes(base.metadata.protocol_parameters.m) {
        let mut c = base.clone();
        c.metadata.protocol_parameters.m = x;
        f("metadata.protocol_parameters.m", n, true, c);
    }
    // k and m exchanged is a two-field change: not enumerated.
    // phi_f: a whole unit of the fixed-point precision must show, anything smaller need not
    let phi = base.metadata.protocol_parameters.phi_f;
    for (n, p, required) in [
        ("+1 unit of U8F24", phi + UNIT, true),
        ("-1 unit of U8F24", phi - UNIT, true),
        ("+16 units of U8F24", phi + 16.0 * UNIT, true),
        ("+1/2 unit", phi + UNIT / 2.0, false),
        ("-1/2 unit", phi - UNIT / 2.0, false),
        ("+1/4 unit", phi + UNIT / 4.0, false),
        ("+1 ulp", f64::from_bits(phi.to_bits() + 1), false),
        ("-1 ulp", f64::from_bits(phi.to_bits().wrapping_sub(1)), false),
    ] {
        // "differs at the fixed-point precision" is taken independently of the rounding convention:
        // the two values must differ as 24-bit fractions under floor, ceiling, half-away and half-even
        // (two exact rounding ties one unit apart coincide under half-even: nothing is demanded there)
        let required = required && fixed_views(p).iter().zip(fixed_views(phi)).all(|(a, b)| *a != b);
        if p >= 0.0 && p < 256.0 && p != phi && !p.is_nan() {
            let mut c = base.clone();
            c.metadata.protocol_parameters.phi_f = p;
            f("metadata.protocol_parameters.phi_f", n.to_string(), required, c);
        }
    }
    // timestamps
    for (n, t) in time_changes(&base.metadata.initiated_at) {
        let mut c = base.clone();
        c.metadata.initiated_at = t;
        f("metadata.initiated_at", n, true, c);
    }
    for (n, t) in time_changes(&base.metadata.sealed_at) {
        let mut c = base.clone();
        c.metadata.sealed_at = t;
        f("metadata.sealed_at", n, true, c);
    }
    // signer list: per element fields, then list operations
    let signers = &base.metadata.signers;
    for i in 0..signers.len() {
        for (n, s) in string_changes(&signers[i].party_id) {
            let mut c = base.clone();
            c.metadata.signers[i].party_id = s;
            f("metadata.signers.party_id", format!("signer {i}: {n}"), true, c);
        }
        for (n, x) in int_changes(signers[i].stake) {
            let mut c = base.clone();
            c.metadata.signers[i].stake = x;
            f("metadata.signers.stake", format!("signer {i}: {n}"), true, c);
        }
        let mut c = base.clone();
        c.metadata.signers.remove(i);
        f("metadata.signers", format!("remove signer {i}"), true, c);
        if i + 1 < signers.len() && signers[i] != signers[i + 1] {
            let mut c = base.clone();
            c.metadata.signers.swap(i, i + 1);
            f("metadata.signers", format!("swap signers {i},{}", i + 1), true, c);
        }
    }
    if signers.len() >= 3 && signers[0] != signers[signers.len() - 1] {
        let mut c = base.clone();
        c.metadata.signers.rotate_left(1);
        if c.metadata.signers != *signers {
            f("metadata.signers", "rotate".to_string(), true, c);
        }
    }
    for i in 0..=signers.len() {
        let fresh = StakeDistributionParty { party_id: "q".to_string(), stake: 7 };
        let mut c = base.clone();
        c.metadata.signers.insert(i, fresh);
        f("metadata.signers", format!("insert a new signer at {i}"), true, c);
        if let Some(dup) = signers.get(i) {
            let mut c = base.clone();
            c.metadata.signers.insert(i, dup.clone());
            f("metadata.signers", format!("duplicate signer {i}"), true, c);
        }
        let empty = StakeDistributionParty { party_id: String::new(), stake: 0 };
        let mut c = base.clone();
        c.metadata.signers.insert(i, empty);
        f("metadata.signers", format!("insert an empty signer at {i}"), true, c);
    }
    // protocol message parts
    for key in PART_KEYS {
        match base.protocol_message.get_message_part(&key) {
            Some(v) => {
                for (n, s) in string_changes(v) {
                    let mut c = base.clone();
                    c.protocol_message.set_message_part(key, s);
                    f("protocol_message.part-value", format!("{key}: {n}"), true, c);
                }
                let mut c = base.clone();
                c.protocol_message.message_parts.remove(&key);
                f("protocol_message.part-removed", format!("{key}"), true, c);
            }
            None => {
                for v in ["1", "", H64A] {
                    let mut c = base.clone();
                    c.protocol_message.set_message_part(key, v.to_string());
                    f("protocol_message.part-added", format!("{key} = {v:?}"), true, c);
                }
            }
        }
    }
    // aggregate verification key
    for (n, k) in &mat.avk_alts {
        let mut c = base.clone();
        c.aggregate_verification_key = k.clone();
        f("aggregate_verification_key", n.clone(), true, c);
    }
    // signature, signed entity type
    match &base.signature {
        CertificateSignature::GenesisSignature(_) => {
            for (n, g) in &mat.gsig_alts {
                let mut c = base.clone();
                c.signature = CertificateSignature::GenesisSignature(*g);
                f("signature.genesis_signature", n.clone(), true, c);
            }
            let mut c = base.clone();
            c.signature = CertificateSignature::MultiSignature(SignedEntityType::genesis(base.epoch), mat.msigs[0].clone());
            f("signature.kind", "genesis signature replaced by a multi-signature".to_string(), true, c);
        }
        CertificateSignature::MultiSignature(set, sig) => {
            for (n, s) in &mat.msig_alts {
                let mut c = base.clone();
                c.signature = CertificateSignature::MultiSignature(set.clone(), s.clone());
                f("signature.multi_signature", n.clone(), true, c);
            }
            let mut c = base.clone();
            c.signature = CertificateSignature::GenesisSignature(mat.gsig);
            f("signature.kind", "multi-signature replaced by a genesis signature".to_string(), true, c);
            let (variant, comps) = set_components(set);
            for (i, x) in comps.iter().enumerate() {
                for (n, y) in int_changes(*x) {
                    let mut cc = [0u64; 3];
                    cc[..comps.len()].copy_from_slice(&comps);
                    cc[i] = y;
                    let mut c = base.clone();
                    c.signature = CertificateSignature::MultiSignature(set_variant(variant, cc), sig.clone());
                    f("signed_entity_type.beacon", format!("component {i} {n}"), true, c);
                }
            }
            for other in 1..=5 {
                if other != variant {
                    let mut cc = [0u64; 3];
                    cc[..comps.len()].copy_from_slice(&comps);
                    let new_set = set_variant(other, cc);
                    let mut c = base.clone();
                    c.signature = CertificateSignature::MultiSignature(new_set.clone(), sig.clone());
                    f("signed_entity_type.variant", format!("{set:?} -> {new_set:?}"), true, c);
                }
            }
        }
    }
}

fn compute_hash(c: &Certificate) -> Option<String> {
    match catch(|| c.try_compute_hash()) {
        Ok(Ok(h)) => Some(h),
        _ => None,
    }
}

fn tamper_one(spec: Spec, mat: &Material) -> Report {
    let mut rep = Report::new("exploration", "");
    let base = build(spec, mat);
    let h0 = base.hash.clone();
    let mut first_sample = true;
    for_each_change(&base, mat, |field, what, required, changed| {
        rep.eval();
        let Some(h1) = compute_hash(&changed) else {
            rep.outcome("tamper:hash-not-computable");
            return;
        };
        rep.nontrivial(&("tamper", spec, field, &what));
        if h1 != h0 {
            rep.outcome(if required { "tamper:hash-changed" } else { "tamper:phi-change-below-precision:hash-changed" });
            if first_sample && spec == (Spec { kind: 3, ext: 0, signers: 0, ts: 0, pm: 0, strs: 0, phi: 0 }) && (field == "metadata.sealed_at" || field == "signed_entity_type.beacon") {
                first_sample = field != "metadata.sealed_at";
                rep.sample(json!({"part": "tamper", "spec": spec.to_json(), "field": field, "change": what, "hash": h0, "changed_hash": h1}));
            }
        } else if required {
            rep.outcome("tamper:HASH-UNCHANGED");
            rep.violation(
                &format!("C04/hash-unchanged:{field}"),
                format!(
                    "two certificates that differ only in {field} ({what}) have the same hash {h0}; base certificate spec {:?}: epoch {}, signed entity type {:?}",
                    spec, base.epoch, base.signed_entity_type()
                ),
                json!({"part": "tamper", "spec": spec.to_json(), "field": field, "change": what}),
            );
        } else {
            rep.outcome("tamper:phi-change-below-precision:hash-unchanged");
        }
    });
    // leap-second representation against the following second, for both timestamps, on several minutes
    for field in ["metadata.initiated_at", "metadata.sealed_at"] {
        for (a, b) in leap_pairs() {
            let (mut ca, mut cb) = (base.clone(), base.clone());
            if field == "metadata.initiated_at" {
                ca.metadata.initiated_at = a;
                cb.metadata.initiated_at = b;
            } else {
                ca.metadata.sealed_at = a;
                cb.metadata.sealed_at = b;
            }
            rep.eval();
            let (Some(ha), Some(hb)) = (compute_hash(&ca), compute_hash(&cb)) else {
                rep.outcome("tamper:hash-not-computable");
                continue;
            };
            let (ta, tb) = (serde_json::to_string(&a).unwrap(), serde_json::to_string(&b).unwrap());
            rep.nontrivial(&("tamper-leap", spec, field, &ta));
            if ha != hb {
                rep.outcome("tamper:leap-second:hash-changed");
            } else {
                rep.outcome("tamper:leap-second:HASH-UNCHANGED");
                rep.violation(
                    "C04/hash-unchanged:metadata.timestamp-leap-second",
                    format!(
                        "two certificates that differ only in {field} = {ta} (leap-second representation, nanosecond field {}) versus {tb} (the following second) have the same hash {ha}: \
                         both values give the same timestamp_nanos_opt() = {:?}; base certificate spec {:?}",
                        a.timestamp_subsec_nanos(),
                        ref_nanos(&a),
                        spec
                    ),
                    json!({"part": "tamper", "spec": spec.to_json(), "field": field, "change": format!("{ta} vs {tb}")}),
                );
            }
        }
    }
    rep
}

// ------------------------------------------------------------------------------------------------
// protocol messages
// ------------------------------------------------------------------------------------------------

fn pm_part(rep: &mut Report, thorough: bool, mat: &Material) {
    let avk_hex = mat.avks[0].to_json_hex().unwrap();
    let mut alphabet: Vec<String> = ["0", "1", "12", "2", "a", "ab", "b", H64A].iter().map(|s| s.to_string()).collect();
    if thorough {
        for s in ["10", "c", "ca", "e", H64B, &H64A[..63], &avk_hex, &format!("{avk_hex}1")] {
            alphabet.push(s.to_string());
        }
    }
    let max_keys = 3;
    let mut seen: HashMap<String, Vec<(usize, usize)>> = HashMap::new();
    let mut total = 0u64;
    let mut collisions = 0u64;
    // all subsets of at most `max_keys` of the 12 keys, all value assignments
    for mask in 0u32..(1 << 12) {
        if mask.count_ones() as usize > max_keys {
            continue;
        }
        let keys: Vec<usize> = (0..12).filter(|i| mask & (1 << i) != 0).collect();
        let n = alphabet.len();
        let combos = n.pow(keys.len() as u32);
        for combo in 0..combos {
            let mut m = ProtocolMessage::new();
            let mut desc = vec![];
            let mut c = combo;
            for k in &keys {
                let vi = c % n;
                c /= n;
                m.set_message_part(PART_KEYS[*k], alphabet[vi].clone());
                desc.push((*k, vi));
            }
            let digest = m.compute_hash();
            total += 1;
            rep.eval();
            if let Some(prev) = seen.get(&digest) {
                if *prev != desc {
                    collisions += 1;
                    let show = |d: &Vec<(usize, usize)>| d.iter().map(|(k, v)| format!("{}={:?}", PART_KEYS[*k], alphabet[*v])).collect::<Vec<_>>().join(", ");
                    rep.violation(
                        "C04/protocol-message-digest-collision",
                        format!("two different protocol messages over the honest value grammar share the digest {digest}: {{{}}} and {{{}}}", show(prev), show(&desc)),
                        json!({"part": "pm", "a": show(prev), "b": show(&desc)}),
                    );
                }
            } else {
                seen.insert(digest, desc);
            }
        }
    }
    {
        let mut m = ProtocolMessage::new();
        m.set_message_part(ProtocolMessagePartKey::CurrentEpoch, "1".to_string());
        m.set_message_part(ProtocolMessagePartKey::LatestBlockNumber, "12".to_string());
        let mut n = ProtocolMessage::new();
        n.set_message_part(ProtocolMessagePartKey::CurrentEpoch, "12".to_string());
        n.set_message_part(ProtocolMessagePartKey::LatestBlockNumber, "2".to_string());
        rep.sample(json!({"part": "pm", "a": {"current_epoch": "1", "latest_block_number": "12"}, "digest_a": m.compute_hash(), "b": {"current_epoch": "12", "latest_block_number": "2"}, "digest_b": n.compute_hash()}));
    }
    rep.outcome_n("pm:distinct-digest", seen.len() as u64);
    rep.add_extra("pm_messages", total);
    rep.add_extra("pm_distinct_digests", seen.len() as u64);
    rep.add_extra("pm_collisions", collisions);
    rep.extra("pm_value_alphabet", json!(alphabet.iter().map(|s| if s.len() > 70 { format!("<{} hex chars>", s.len()) } else { s.clone() }).collect::<Vec<_>>()));
    for i in 0..seen.len().min(40_000) {
        rep.nontrivial(&("pm", i));
    }
    // detector self-test, outside the honest grammar (values that spell a key name): the bucket
    // comparison must see this well-known concatenation collision, otherwise it proves nothing
    let mut a = ProtocolMessage::new();
    a.set_message_part(ProtocolMessagePartKey::SnapshotDigest, "xcurrent_epoch5".to_string());
    let mut b = ProtocolMessage::new();
    b.set_message_part(ProtocolMessagePartKey::SnapshotDigest, "x".to_string());
    b.set_message_part(ProtocolMessagePartKey::CurrentEpoch, "5".to_string());
    if a == b || a.compute_hash() != b.compute_hash() {
        rep.extra("pm_out_of_grammar_collision_observed", json!(false));
    } else {
        rep.extra("pm_out_of_grammar_collision_observed", json!(true));
        rep.outcome("pm:out-of-grammar-collision(observation)");
    }
}

// ------------------------------------------------------------------------------------------------
// wire: JSON re-serialisations
// ------------------------------------------------------------------------------------------------

#[derive(Clone, Copy, Debug, PartialEq)]
enum Order {
    Sorted,
    Reversed,
    Rotated,
}
#[derive(Clone, Copy, Debug, PartialEq)]
enum IntFmt {
    Plain,
    DotZero,
    Exp,
}
#[derive(Clone, Copy, Debug, PartialEq)]
enum FloatFmt {
    Shortest,
    Sci,
    Digits17,
    Exact,
    IntegerIfWhole,
}
#[derive(Clone, Copy, Debug)]
struct Style {
    name: &'static str,
    order: Order,
    heavy_ws: bool,
    int: IntFmt,
    float: FloatFmt,
}

const STYLES: [Style; 9] = [
    Style { name: "sorted keys", order: Order::Sorted, heavy_ws: false, int: IntFmt::Plain, float: FloatFmt::Shortest },
    Style { name: "reversed keys, whitespace everywhere", order: Order::Reversed, heavy_ws: true, int: IntFmt::Plain, float: FloatFmt::Shortest },
    Style { name: "rotated keys, floats in scientific notation", order: Order::Rotated, heavy_ws: false, int: IntFmt::Plain, float: FloatFmt::Sci },
    Style { name: "floats with 18 significant digits", order: Order::Sorted, heavy_ws: false, int: IntFmt::Plain, float: FloatFmt::Digits17 },
    Style { name: "floats as exact decimal expansion", order: Order::Reversed, heavy_ws: false, int: IntFmt::Plain, float: FloatFmt::Exact },
    Style { name: "whole floats as integers", order: Order::Rotated, heavy_ws: true, int: IntFmt::Plain, float: FloatFmt::IntegerIfWhole },
    Style { name: "integers as n.0", order: Order::Sorted, heavy_ws: false, int: IntFmt::DotZero, float: FloatFmt::Shortest },
    Style { name: "integers as ne0", order: Order::Sorted, heavy_ws: false, int: IntFmt::Exp, float: FloatFmt::Shortest },
    Style { name: "integers as ne0, reversed keys", order: Order::Reversed, heavy_ws: true, int: IntFmt::Exp, float: FloatFmt::Sci },
];

fn trim_float(mut s: String) -> String {
    if s.contains('.') && !s.contains('e') {
        while s.ends_with('0') {
            s.pop();
        }
        if s.ends_with('.') {
            s.push('0');
        }
    }
    s
}

fn emit(v: &Value, st: &Style, out: &mut String) {
    let ws = if st.heavy_ws { " \n\t\r " } else { "" };
    match v {
        Value::Null => out.push_str("null"),
        Value::Bool(b) => out.push_str(if *b { "true" } else { "false" }),
        Value::String(s) => out.push_str(&serde_json::to_string(s).unwrap()),
        Value::Number(n) => {
            if let Some(u) = n.as_u64() {
                match st.int {
                    IntFmt::Plain => out.push_str(&u.to_string()),
                    IntFmt::DotZero => out.push_str(&format!("{u}.0")),
                    IntFmt::Exp => out.push_str(&format!("{u}e0")),
                }
            } else if let Some(i) = n.as_i64() {
                out.push_str(&i.to_string());
            } else {
                let f = n.as_f64().unwrap();
                let s = match st.float {
                    FloatFmt::Shortest => n.to_string(),
                    FloatFmt::Sci => format!("{f:e}"),
                    FloatFmt::Digits17 => format!("{f:.17e}"),
                    FloatFmt::Exact => trim_float(format!("{f:.200}")),
                    FloatFmt::IntegerIfWhole => {
                        if f.fract() == 0.0 && f.abs() < 1e15 {
                            format!("{}", f as i64)
                        } else {
                            n.to_string()
                        }
                    }
                };
                out.push_str(&s);
            }
        }
        Value::Array(a) => {
            out.push('[');
            for (i, e) in a.iter().enumerate() {
                if i > 0 {
                    out.push(',');
                }
                out.push_str(ws);
                emit(e, st, out);
                out.push_str(ws);
            }
            out.push(']');
        }
        Value::Object(o) => {
            let mut entries: Vec<(&String, &Value)> = o.iter().collect();
            entries.sort_by(|a, b| a.0.cmp(b.0));
            match st.order {
                Order::Sorted => {}
                Order::Reversed => entries.reverse(),
                Order::Rotated => {
                    if !entries.is_empty() {
                        let n = entries.len();
                        entries.rotate_left(n / 2 + 1 - (n % 2));
                    }
                }
            }
            out.push('{');
            for (i, (k, e)) in entries.iter().enumerate() {
                if i > 0 {
                    out.push(',');
                }
                out.push_str(ws);
                out.push_str(&serde_json::to_string(k).unwrap());
                out.push_str(ws);
                out.push(':');
                out.push_str(ws);
                emit(e, st, out);
                out.push_str(ws);
            }
            out.push('}');
        }
    }
}

/// floats are left out of the emitter self-check: reading them back bit-exactly is the subject's business
fn without_floats(v: &Value) -> Value {
    match v {
        Value::Number(n) if !n.is_u64() && !n.is_i64() => Value::Null,
        Value::Array(a) => Value::Array(a.iter().map(without_floats).collect()),
        Value::Object(o) => Value::Object(o.iter().map(|(k, e)| (k.clone(), without_floats(e))).collect()),
        other => other.clone(),
    }
}

/// every JSON text of one message: (style name, text, must parse)
fn reserialisations(msg: &CertificateMessage, rep: &mut Report) -> Vec<(String, String, bool)> {
    let mut out = vec![];
    let canonical = serde_json::to_string(msg).expect("serialize message");
    out.push(("serde_json::to_string".to_string(), canonical.clone(), true));
    out.push(("serde_json::to_string_pretty".to_string(), serde_json::to_string_pretty(msg).unwrap(), true));
    let value: Value = serde_json::to_value(msg).expect("message to value");
    for st in STYLES.iter() {
        let mut s = String::new();
        emit(&value, st, &mut s);
        let plain = st.int == IntFmt::Plain;
        if plain && st.float == FloatFmt::Shortest {
            // emitter self-check: the text denotes the same JSON document
            match serde_json::from_str::<Value>(&s) {
                Ok(back) if without_floats(&back) == without_floats(&value) => {}
                _ => rep.machinery_error(format!("JSON emitter self-check failed for style {}", st.name)),
            }
        }
        // integer re-formatting (5.0, 5e0) is only followed where serde accepts it
        out.push((st.name.to_string(), s, plain));
    }
    out
}

/// the same message with every key in its *other* codec (observation only: the property speaks of
/// the message the conversion itself produces)
fn alternative_codecs(msg: &CertificateMessage) -> Option<CertificateMessage> {
    let mut m = msg.clone();
    let avk = Avk::try_from(m.aggregate_verification_key.as_str()).ok()?;
    m.aggregate_verification_key = avk.to_bytes_hex().ok()?;
    if !m.multi_signature.is_empty() {
        let s = MSig::try_from(m.multi_signature.as_str()).ok()?;
        m.multi_signature = s.to_bytes_hex().ok()?;
    }
    if !m.genesis_signature.is_empty() {
        let s = GSig::try_from(m.genesis_signature.as_str()).ok()?;
        m.genesis_signature = s.to_json_hex().ok()?;
    }
    Some(m)
}

struct Verify<'a> {
    verifier: MithrilCertificateVerifier,
    rt: tokio::runtime::Runtime,
    _mat: &'a Material,
}

impl<'a> Verify<'a> {
    fn new(mat: &'a Material) -> Self {
        let logger = slog::Logger::root(slog::Discard, slog::o!());
        let retriever = Arc::new(FakeCertificaterRetriever::from_certificates(&mat.chain));
        let verifier = MithrilCertificateVerifier::new(logger, retriever, Arc::new(mat.genesis_verifier.clone()));
        let rt = tokio::runtime::Builder::new_current_thread().build().expect("tokio runtime");
        Verify { verifier, rt, _mat: mat }
    }
    /// Ok(previous hash or "-") / Err(())
    fn outcome(&self, c: &Certificate) -> Result<String, String> {
        match catch(|| self.rt.block_on(self.verifier.verify_certificate(c))) {
            Ok(Ok(prev)) => Ok(prev.map(|p| p.hash).unwrap_or_else(|| "-".to_string())),
            Ok(Err(e)) => Err(format!("{e:#}").chars().take(160).collect()),
            Err(p) => Err(format!("panic: {p}")),
        }
    }
}

/// one certificate through every re-serialisation. `verify`: also compare `verify_certificate`.
fn wire_one(label: &Value, cert: &Certificate, verify: Option<&Verify>, rep: &mut Report) {
    let msg: CertificateMessage = match catch(|| CertificateMessage::try_from(cert.clone())) {
        Ok(Ok(m)) => m,
        other => {
            rep.eval();
            rep.outcome("wire:CONVERSION-FAILED");
            rep.violation(
                "C04/wire:certificate-to-message-fails",
                format!("certificate {label} cannot be converted to its message: {:?}", other.map(|r| r.map(|_| ()).map_err(|e| format!("{e:#}")))),
                json!({"part": "wire", "case": label}),
            );
            return;
        }
    };
    let h_carried = cert.hash.clone();
    let h_computed = compute_hash(cert);
    let direct = verify.map(|v| v.outcome(cert));
    if label["tamper"] == "signed entity type variant" && label["hash"] == "stale" {
        rep.add_extra(
            if matches!(direct, Some(Ok(_))) { "signed_variant_swap_with_untouched_hash_accepted_by_verify_certificate" } else { "signed_variant_swap_with_untouched_hash_rejected_by_verify_certificate" },
            1,
        );
    }
    let mut texts = reserialisations(&msg, rep);
    let n_property = texts.len();
    if let Some(alt) = alternative_codecs(&msg) {
        texts.push(("keys in their other codec (observation)".to_string(), serde_json::to_string(&alt).unwrap(), false));
    }
    for (i, (style, text, must_parse)) in texts.iter().enumerate() {
        rep.eval();
        let observation_only = i >= n_property;
        let back = catch(|| -> Result<Certificate, String> {
            let m: CertificateMessage = serde_json::from_str(text).map_err(|e| format!("json: {e}"))?;
            Certificate::try_from(m).map_err(|e| format!("conversion: {e:#}"))
        });
        let back = match back {
            Ok(Ok(c)) => c,
            Ok(Err(e)) | Err(e) => {
                if *must_parse {
                    rep.outcome("wire:REJECTED");
                    rep.violation(
                        "C04/wire:reserialisation-rejected",
                        format!("certificate {label}: its message re-serialised as '{style}' is not read back: {e}"),
                        json!({"part": "wire", "case": label, "style": style}),
                    );
                } else if observation_only {
                    rep.outcome("wire:other-codec:rejected(observation)");
                } else {
                    rep.outcome("wire:number-format-not-accepted-by-serde");
                }
                continue;
            }
        };
        rep.nontrivial(&("wire", label.to_string(), style));
        let same_hash = back.hash == h_carried && compute_hash(&back) == h_computed;
        let same_signed = back.signed_message == cert.signed_message && back.protocol_message.compute_hash() == cert.protocol_message.compute_hash();
        let via_wire = verify.map(|v| v.outcome(&back));
        let same_outcome = match (&direct, &via_wire) {
            (Some(Ok(a)), Some(Ok(b))) => a == b,
            (Some(Err(_)), Some(Err(_))) => true,
            (None, None) => true,
            _ => false,
        };
        if observation_only {
            rep.outcome(if same_hash && same_signed && same_outcome { "wire:other-codec:same(observation)" } else { "wire:other-codec:DIFFERENT(observation)" });
            continue;
        }
        if same_hash && same_signed && same_outcome {
            match &direct {
                Some(Ok(_)) => rep.outcome("wire:same,verified-ok-both"),
                Some(Err(_)) => rep.outcome("wire:same,rejected-both"),
                None => rep.outcome("wire:same"),
            }
            continue;
        }
        let phi0 = cert.metadata.protocol_parameters.phi_f;
        let phi1 = back.metadata.protocol_parameters.phi_f;
        // the float root cause gets its own key only when restoring phi_f alone restores the hash
        let phi_is_the_cause = phi0.to_bits() != phi1.to_bits() && {
            let mut fixed = back.clone();
            fixed.metadata.protocol_parameters.phi_f = phi0;
            compute_hash(&fixed) == h_computed
        };
        let key = if !same_hash && phi_is_the_cause {
            "C04/wire:phi_f-not-read-back-exactly"
        } else if !same_hash {
            "C04/wire:hash-changed"
        } else if !same_signed {
            "C04/wire:signed-message-changed"
        } else {
            "C04/wire:verification-outcome-changed"
        };
        rep.outcome("wire:DIFFERENT");
        rep.violation(
            key,
            format!(
                "certificate {label} -> message -> JSON ('{style}') -> message -> certificate: carried hash {} -> {}, recomputed hash {:?} -> {:?}, signed message {} -> {}, phi_f {:?} -> {:?}, verify_certificate {:?} -> {:?}",
                h_carried, back.hash, h_computed, compute_hash(&back), cert.signed_message, back.signed_message, phi0, phi1, direct, via_wire
            ),
            json!({"part": "wire", "case": label, "style": style}),
        );
    }
}

/// the really signed certificates and single-field tamperings of them (hash left stale / recomputed)
fn signed_cases(mat: &Material) -> Vec<(Value, Certificate)> {
    let mut out = vec![];
    for (i, c) in mat.chain.iter().enumerate() {
        out.push((json!({"signed": i, "tamper": "none"}), c.clone()));
        let other = &mat.chain[(i + 1) % mat.chain.len()];
        let mut tampers: Vec<(&str, Certificate)> = vec![];
        let mut push = |n: &'static str, f: &dyn Fn(&mut Certificate)| {
            let mut t = c.clone();
            f(&mut t);
            tampers.push((n, t));
        };
        push("epoch+1", &|t| t.epoch = t.epoch + 1);
        push("network", &|t| t.metadata.network.push('x'));
        push("k+1", &|t| t.metadata.protocol_parameters.k += 1);
        push("sealed_at+1ns", &|t| t.metadata.sealed_at = t.metadata.sealed_at + TimeDelta::nanoseconds(1));
        push("signer stake+1", &|t| {
            if let Some(s) = t.metadata.signers.first_mut() {
                s.stake += 1
            } else {
                t.metadata.signers.push(StakeDistributionParty { party_id: "q".into(), stake: 1 })
            }
        });
        push("message part", &|t| {
            t.protocol_message.set_message_part(ProtocolMessagePartKey::SnapshotDigest, H64A.to_string());
        });
        push("signed_message", &|t| t.signed_message = H64A.to_string());
        push("previous_hash", &|t| t.previous_hash = other.hash.clone());
        push("aggregate_verification_key", &|t| t.aggregate_verification_key = other.aggregate_verification_key.clone());
        push("signature", &|t| {
            t.signature = match (&t.signature, &other.signature) {
                (CertificateSignature::MultiSignature(set, _), CertificateSignature::MultiSignature(_, s)) => CertificateSignature::MultiSignature(set.clone(), s.clone()),
                (CertificateSignature::MultiSignature(set, _), _) => CertificateSignature::MultiSignature(set.clone(), mat.msig_alts[1 % mat.msig_alts.len()].1.clone()),
                (CertificateSignature::GenesisSignature(_), _) => CertificateSignature::GenesisSignature(mat.gsig_alts[0].1),
            }
        });
        push("signed entity type variant", &|t| {
            if let CertificateSignature::MultiSignature(set, s) = &t.signature {
                let (v, comps) = set_components(set);
                let mut cc = [0u64; 3];
                cc[..comps.len()].copy_from_slice(&comps);
                let w = match v {
                    1 => 2,
                    2 => 1,
                    3 => 4,
                    4 => 3,
                    _ => 4,
                };
                t.signature = CertificateSignature::MultiSignature(set_variant(w, cc), s.clone());
            }
        });
        for (n, t) in tampers {
            if n == "signed entity type variant" && c.is_genesis() {
                continue; // a genesis certificate carries no signed entity type
            }
            out.push((json!({"signed": i, "tamper": n, "hash": "stale"}), t.clone()));
            let mut r = t;
            if let Some(h) = compute_hash(&r) {
                r.hash = h;
            }
            out.push((json!({"signed": i, "tamper": n, "hash": "recomputed"}), r));
        }
    }
    out
}

// ------------------------------------------------------------------------------------------------
// phi_f rounding boundaries through JSON
// ------------------------------------------------------------------------------------------------

const PHI_BLOCK: u64 = 1 << 12;

fn phi_roundtrip(v: f64) -> Result<(f64, bool), String> {
    let p = ProtocolParameters::new(5, 100, v);
    let text = serde_json::to_string(&p).map_err(|e| e.to_string())?;
    let q: ProtocolParameters = serde_json::from_str(&text).map_err(|e| e.to_string())?;
    let same_hash = q.phi_f.to_bits() == v.to_bits() || q.compute_hash() == p.compute_hash();
    Ok((q.phi_f, same_hash))
}

fn phi_block(block: u64, offsets: &[i64]) -> Report {
    let mut rep = Report::new("exploration", "");
    let mut inexact = 0u64;
    let mut changed = 0u64;
    let mut evals = 0u64;
    for n in block * PHI_BLOCK..(block + 1) * PHI_BLOCK {
        let tie = (n as f64 + 0.5) * UNIT; // exact: n + 0.5 has at most 25 significant bits
        for d in offsets {
            let v = f64::from_bits((tie.to_bits() as i64 + d) as u64);
            evals += 1;
            match phi_roundtrip(v) {
                Ok((back, same_hash)) => {
                    if back.to_bits() != v.to_bits() {
                        inexact += 1;
                    }
                    if !same_hash {
                        changed += 1;
                        let decile = ((v * 10.0) as u64).min(9);
                        rep.add_extra(&format!("phi_values_whose_hash_changes_in_[0.{decile},{})", if decile == 9 { "1.0".to_string() } else { format!("0.{}", decile + 1) }), 1);
                        rep.violation(
                            "C04/wire:phi_f-not-read-back-exactly",
                            format!(
                                "protocol parameters with phi_f = {v:?} (bits {:#018x}; {} ulp from the U8F24 rounding boundary ({n}+1/2)/2^24) are written to JSON as {v:?} and read back as {back:?}: the parameter hash - and with it the certificate hash - changes",
                                v.to_bits(),
                                d
                            ),
                            json!({"part": "phi", "phi_f_bits": format!("{:#018x}", v.to_bits()), "phi_f": format!("{v:?}"), "read_back": format!("{back:?}")}),
                        );
                    }
                }
                Err(e) => {
                    rep.violation("C04/wire:phi_f-json-fails", format!("phi_f {v:?}: {e}"), json!({"part": "phi", "phi_f_bits": format!("{:#018x}", v.to_bits())}));
                }
            }
        }
    }
    rep.evaluations += evals;
    rep.add_extra("phi_values", evals);
    rep.add_extra("phi_values_not_read_back_bit_exactly", inexact);
    rep.add_extra("phi_values_whose_hash_changes", changed);
    rep.outcome_n("phi:same-hash", evals - changed);
    if changed > 0 {
        rep.outcome_n("phi:HASH-CHANGED", changed);
    }
    // every value here sits on or next to a rounding boundary: one ulp lost on the way flips the hash
    rep.nontrivial(&("phi-block", block));
    rep
}

// ------------------------------------------------------------------------------------------------

fn replay(ctx: &Ctx, mat: &Material, rep: &mut Report) {
    let v = mc_core::load_replay(ctx.replay.as_ref().unwrap());
    match v["part"].as_str().unwrap_or("") {
        "tamper" => {
            let spec = Spec::from_json(&v["spec"]);
            rep.merge(tamper_one(spec, mat));
        }
        "wire" => {
            let case = &v["case"];
            if case.get("signed").is_some() {
                let verify = Verify::new(mat);
                for (label, cert) in signed_cases(mat) {
                    if label == *case {
                        wire_one(&label, &cert, Some(&verify), rep);
                    }
                }
            } else {
                let spec = Spec::from_json(&case["spec"]);
                wire_one(case, &build(spec, mat), None, rep);
            }
        }
        "phi" => {
            let bits = u64::from_str_radix(v["phi_f_bits"].as_str().unwrap_or("0x0").trim_start_matches("0x"), 16).unwrap_or(0);
            let phi = f64::from_bits(bits);
            // the whole certificate, not only the parameters
            let mut c = build(Spec { kind: 3, ext: 0, signers: 0, ts: 0, pm: 0, strs: 0, phi: 0 }, mat);
            c.metadata.protocol_parameters.phi_f = phi;
            c.hash = c.try_compute_hash().unwrap();
            wire_one(&json!({"phi_f_bits": format!("{bits:#018x}")}), &c, None, rep);
            rep.eval();
            if let Ok((back, same)) = phi_roundtrip(phi)
                && !same
            {
                rep.violation("C04/wire:phi_f-not-read-back-exactly", format!("phi_f {phi:?} is read back as {back:?} and hashes differently"), v.clone());
            }
        }
        "pm" => pm_part(rep, ctx.tier == mc_core::Tier::Thorough, mat),
        other => rep.machinery_error(format!("unknown replay part {other:?}")),
    }
    rep.nontrivial(&"replay-0");
    rep.nontrivial(&"replay-1");
}

pub fn run(ctx: &Ctx) -> ! {
    let thorough = ctx.tier == mc_core::Tier::Thorough;
    let mut rep = Report::new(
        "exploration",
        "tamper: every certificate of the grammar (genesis/5 signed entity types x u64 magnitudes x signer lists x timestamps x \
         message shapes x strings x phi_f) x every single-field change of the per-field alphabets is hashed by Certificate::try_compute_hash \
         (non-trivial = the changed certificate could be built and hashed); pm: every protocol message over <=3 of the 12 keys and the honest \
         value alphabet is digested and bucketed; wire: every grammar certificate, every certificate of a really signed chain and single-field \
         tamperings of those go through CertificateMessage and every JSON re-serialisation back to a certificate (non-trivial = read back); \
         phi: every U8F24 rounding boundary in [0,1) and its f64 neighbours goes through ProtocolParameters -> JSON -> back; \
         distinct = distinct (part, certificate, change | style) cases",
    );
    rep.max_samples = 8;
    let mat = build_material();
    leap_pairs_self_check(&mut rep);
    rep.assume("ancillary prover/verifier data cannot be present in this build: without the cargo feature future_snark both types are enums without variants, so only 'absent' is enumerated");
    rep.assume("in the +-ns / +-s / +ms alphabets a timestamp change counts when the 64-bit nanosecond count differs; the one class of distinct DateTime values with the same count - a leap-second representation hh:mm:60.fff against the following second - is enumerated separately under its own key");
    rep.assume("a change of phi_f is required to change the hash only when it is a whole unit of U8F24 (2^-24) or more and shows as a different 24-bit fraction under floor, ceiling, half-away and half-even rounding alike (two exact rounding ties one unit apart coincide under half-even); smaller changes are evaluated and reported as observations");
    rep.assume("re-serialisations that write integers as 5.0 / 5e0 are followed only where serde accepts them; string escaping variants and alternative key codecs are not demanded by the property (the latter are reported as observations)");
    rep.assume("honest protocol-message values are hex strings and decimal numbers; values that spell key names are outside the property (one such collision is shown as a detector self-test)");
    rep.assume("trusted: sha2, chrono, hex, serde_json as a JSON *writer* of the harness-side emitter (self-checked by reading the text back as a JSON value)");

    if ctx.replay.is_some() {
        replay(ctx, &mat, &mut rep);
        rep.finish(ctx);
    }

    // ---- tamper ----
    let specs = grammar(thorough);
    rep.extra("grammar_certificates", json!(specs.len()));
    rep.extra("real_signed_chain", json!({"certificates": mat.chain.len(), "distinct_avks": mat.avks.len(), "avk_changes": mat.avk_alts.len(), "multi_signature_changes": mat.msig_alts.len(), "genesis_signature_changes": mat.gsig_alts.len()}));
    let parts = par_map(&specs, ctx.threads(), |_, s| tamper_one(*s, &mat));
    let before = rep.evaluations;
    for p in parts {
        rep.merge(p);
    }
    rep.extra("tamper_hash_comparisons", json!(rep.evaluations - before));

    // ---- protocol messages ----
    let before = rep.evaluations;
    pm_part(&mut rep, thorough, &mat);
    rep.extra("pm_evaluations", json!(rep.evaluations - before));

    // ---- wire ----
    let before = rep.evaluations;
    let parts = par_map(&specs, ctx.threads(), |_, s| {
        let mut r = Report::new("exploration", "");
        let c = build(*s, &mat);
        wire_one(&json!({"spec": s.to_json()}), &c, None, &mut r);
        r
    });
    for p in parts {
        rep.merge(p);
    }
    let signed = signed_cases(&mat);
    rep.extra("wire_signed_cases", json!(signed.len()));
    let chunks: Vec<&[(Value, Certificate)]> = signed.chunks(8).collect();
    let parts = par_map(&chunks, ctx.threads(), |_, chunk| {
        let mut r = Report::new("exploration", "");
        let verify = Verify::new(&mat);
        for (label, cert) in chunk.iter() {
            wire_one(label, cert, Some(&verify), &mut r);
        }
        r
    });
    for p in parts {
        rep.merge(p);
    }
    rep.extra("wire_evaluations", json!(rep.evaluations - before));
    rep.extra("wire_styles", json!(STYLES.iter().map(|s| s.name).collect::<Vec<_>>()));
    if let Some((label, c)) = signed.first() {
        let m: CertificateMessage = c.clone().try_into().unwrap();
        let mut s = String::new();
        emit(&serde_json::to_value(&m).unwrap(), &STYLES[2], &mut s);
        rep.sample(json!({"part": "wire", "case": label, "style": STYLES[2].name, "json_prefix": s.chars().take(300).collect::<String>()}));
    }

    // ---- phi ----
    let offsets: Vec<i64> = if thorough { vec![-3, -2, -1, 0, 1, 2, 3] } else { vec![-1, 0, 1] };
    let blocks: Vec<u64> = (0..(1u64 << 24) / PHI_BLOCK).collect();
    rep.extra("phi_boundaries", json!({"n_from": 0, "n_to_exclusive": 1u64 << 24, "ulp_offsets": offsets}));
    let parts = par_map(&blocks, ctx.threads(), |_, b| phi_block(*b, &offsets));
    for p in parts {
        rep.merge(p);
    }
    // the first affected value at or above a few everyday magnitudes, as samples
    for start in [0.05f64, 0.2, 0.65] {
        let n0 = (start / UNIT) as u64;
        'search: for n in n0..n0 + 100_000 {
            let tie = (n as f64 + 0.5) * UNIT;
            for d in &offsets {
                let v = f64::from_bits((tie.to_bits() as i64 + d) as u64);
                if let Ok((back, false)) = phi_roundtrip(v) {
                    rep.max_samples += 1;
                    rep.sample(json!({"part": "phi", "first_affected_value_at_or_above": start, "phi_f": format!("{v:?}"), "phi_f_bits": format!("{:#018x}", v.to_bits()), "read_back": format!("{back:?}"), "ulp_from_boundary": d, "boundary_n": n}));
                    break 'search;
                }
            }
        }
    }
    rep.finish(ctx)
}
