//! C07 — signer registration requires a genuine, pool-bound, stake-bound key.
//!
//! Bounded exhaustive enumeration of registrations through the real
//! `ProtocolKeyRegistration::{init, register, close}` (mithril-common → mithril-stm), through the call
//! sequence of the aggregator's `MithrilSignerRegistrationVerifier::verify` (mirrored here, the
//! aggregator crate is not linked) and through `SignerBuilder::new`.
//!
//! Space: two pools A, B (in the stake distribution) and an outsider pool C, each with a real cold
//! key, Sum6 KES key, operational certificate, BLS key + proof of possession; KES signatures made at
//! chosen evolutions. Enumerated: every A/B splice of the components, every single (quick: also
//! pairs for one base; thorough: pairs for all bases) deviation of a component from an honest
//! registration, the full (signing evolution × announced evolution) rectangle, stake distribution
//! variants and sequences of registrations in one key registration.
//!
//! Oracle (`c07/reference.rs`, primitive libraries only): accepted ⇒ the conjunction of the
//! property holds; the returned party id is the pool id of the cold key; the stake recorded for
//! the key is the stake distribution's value for that pool; honest registrations (generated with the
//! primitive libraries, and produced by the repository's own signer-side code) are accepted.

use std::collections::BTreeMap;
use std::sync::Arc;

use ed25519_dalek::Signer as _;
use kes_summed_ed25519::kes::{Sum6Kes, Sum6KesSig};
use kes_summed_ed25519::traits::KesSk;
use mc_core::{Ctx, Report, catch, par_map};
use mithril_common::StdResult;
use mithril_common::crypto_helper::{
    ColdKeyGenerator, KesEvolutions, KesPeriod, KesSigner, KesSignerStandard, OpCert, OpCertWithoutColdVerificationKey,
    ProtocolInitializer, ProtocolKey, ProtocolKeyRegistration, ProtocolOpCert,
    ProtocolSignerVerificationKeyForConcatenation, ProtocolSignerVerificationKeySignatureForConcatenation,
    SignerRegistrationParameters, Sum6KesBytes,
};
use mithril_common::entities::{ProtocolParameters, Signer, SignerWithStake, StakeDistribution};
use mithril_common::messages::RegisterSignerMessage;
use mithril_common::protocol::SignerBuilder;
use mithril_common::test::crypto_helper::SerDeShelleyFileFormatTestExtension;
use rand_chacha::ChaCha20Rng;
use rand_core::SeedableRng;
use serde::{Deserialize, Serialize};
use serde_json::{Value, json};

mod reference;
use reference as rf;

/// The forged-from-public-values proof of possession (see `family_rogue`) satisfies the two
/// pairing equations the implementation checks, so the oracle — which restates "its proof of
/// possession is valid" by those equations — does not flag it. It is reported as an observation.
const POP_FORGERY_IS_VIOLATION: bool = false;

const KES_SK_LEN: usize = 612; // Sum6Kes::SIZE + 4

// ------------------------------------------------------------------------------------------------
// raw registrations (what is written to replay files)
// ------------------------------------------------------------------------------------------------

mod hexser {
    use serde::{Deserialize, Deserializer, Serializer};
    pub fn serialize<S: Serializer>(v: &Vec<u8>, s: S) -> Result<S::Ok, S::Error> {
        s.serialize_str(&hex::encode(v))
    }
    pub fn deserialize<'de, D: Deserializer<'de>>(d: D) -> Result<Vec<u8>, D::Error> {
        let s = String::deserialize(d)?;
        hex::decode(s).map_err(serde::de::Error::custom)
    }
}
mod hexopt {
    use serde::{Deserialize, Deserializer, Serializer};
    pub fn serialize<S: Serializer>(v: &Option<Vec<u8>>, s: S) -> Result<S::Ok, S::Error> {
        match v {
            Some(v) => s.serialize_some(&hex::encode(v)),
            None => s.serialize_none(),
        }
    }
    pub fn deserialize<'de, D: Deserializer<'de>>(d: D) -> Result<Option<Vec<u8>>, D::Error> {
        let s = Option::<String>::deserialize(d)?;
        s.map(|s| hex::decode(s).map_err(serde::de::Error::custom)).transpose()
    }
}

#[derive(Clone, Debug, Serialize, Deserialize, PartialEq, Eq, Hash)]
struct RawCert {
    #[serde(with = "hexser")]
    cold_vk: Vec<u8>,
    #[serde(with = "hexser")]
    kes_vk: Vec<u8>,
    issue_number: u64,
    start_kes_period: u64,
    #[serde(with = "hexser")]
    cert_sig: Vec<u8>,
}

#[derive(Clone, Debug, Serialize, Deserialize, PartialEq, Eq, Hash)]
struct Raw {
    /// claimed party id
    party_id: Option<String>,
    cert: Option<RawCert>,
    #[serde(with = "hexser")]
    vk: Vec<u8>,
    #[serde(with = "hexser")]
    k1: Vec<u8>,
    #[serde(with = "hexser")]
    k2: Vec<u8>,
    #[serde(with = "hexopt")]
    kes_sig: Option<Vec<u8>>,
    /// announced number of KES evolutions
    announced: Option<u64>,
}

#[derive(Clone, Debug, Serialize, Deserialize, Hash)]
struct Reg {
    raw: Raw,
    /// generator's knowledge: produced exactly as an honest signer does, nothing altered
    honest: bool,
    /// claimed stake (only meaningful on the `builder` route, where records carry one)
    claimed_stake: Option<u64>,
}

#[derive(Clone, Debug, Serialize, Deserialize, Hash, PartialEq, Eq)]
enum Route {
    /// `ProtocolKeyRegistration::init(dist)`, `register` for every registration in order, `close`
    Register,
    /// the aggregator verifier's call sequence, once per registration (fresh key registration each
    /// time, KES evolutions = chain period − certificate start period)
    Verifier { chain_kes_period: Option<u64> },
    /// `SignerBuilder::new(list of SignerWithStake)`
    Builder,
}

#[derive(Clone, Debug, Serialize, Deserialize, Hash)]
struct Case {
    family: String,
    label: String,
    route: Route,
    dist: Vec<(String, u64)>,
    regs: Vec<Reg>,
}

// ------------------------------------------------------------------------------------------------
// test material
// ------------------------------------------------------------------------------------------------

struct Pool {
    name: &'static str,
    cold_sk: ed25519_dalek::SigningKey,
    cold_vk: [u8; 32],
    /// secret KES key bytes after t evolutions, t = 0..=63
    kes_sk: Vec<Vec<u8>>,
    kes_vk: [u8; 32],
    issue: u64,
    start: u64,
    cert_sig: [u8; 64],
    pool_id: String,
    pool_hash_hex: String,
    bls: BlsKey,
    stake: u64,
}

#[derive(Clone)]
struct BlsKey {
    seed: u8,
    vk: [u8; 96],
    k1: [u8; 48],
    k2: [u8; 48],
}

impl BlsKey {
    fn vkpop(&self) -> Vec<u8> {
        [&self.vk[..], &self.k1[..], &self.k2[..]].concat()
    }
}

struct Mat {
    pools: Vec<Pool>,
    /// a BLS key that belongs to no pool
    fresh: BlsKey,
    /// `fresh − pools[1]`: key and proof of possession computed from public values only
    rogue: BlsKey,
    params: ProtocolParameters,
}

fn stm_params() -> mithril_stm::Parameters {
    mithril_stm::Parameters { m: 10, k: 3, phi_f: 0.8 }
}

fn bls_key(seed: u8) -> BlsKey {
    let mut rng = ChaCha20Rng::from_seed([seed; 32]);
    let init = mithril_stm::Initializer::new(stm_params(), 1, &mut rng);
    let b = init.get_verification_key_proof_of_possession_for_concatenation().to_bytes();
    BlsKey { seed, vk: b[..96].try_into().unwrap(), k1: b[96..144].try_into().unwrap(), k2: b[144..].try_into().unwrap() }
}

fn g1_sub(a: &[u8; 48], b: &[u8; 48]) -> [u8; 48] {
    use blst::*;
    unsafe {
        let (mut pa, mut pb) = (blst_p1_affine::default(), blst_p1_affine::default());
        assert!(blst_p1_uncompress(&mut pa, a.as_ptr()) == BLST_ERROR::BLST_SUCCESS);
        assert!(blst_p1_uncompress(&mut pb, b.as_ptr()) == BLST_ERROR::BLST_SUCCESS);
        let (mut ja, mut jb, mut out) = (blst_p1::default(), blst_p1::default(), blst_p1::default());
        blst_p1_from_affine(&mut ja, &pa);
        blst_p1_from_affine(&mut jb, &pb);
        blst_p1_cneg(&mut jb, true);
        blst_p1_add_or_double(&mut out, &ja, &jb);
        let mut bytes = [0u8; 48];
        blst_p1_compress(bytes.as_mut_ptr(), &out);
        bytes
    }
}

/// `a + T` for a non-trivial point T = r·P of the cofactor subgroup of E(Fp) (P on the curve, outside
/// G1): another encoding-level value of a proof-of-possession element for which the pairing
/// equations still hold
fn g1_add_cofactor_point(a: &[u8; 48]) -> [u8; 48] {
    use blst::*;
    // order of the prime-order subgroup, little endian
    const R_LE: [u8; 32] = [
        0x01, 0x00, 0x00, 0x00, 0xff, 0xff, 0xff, 0xff, 0xfe, 0x5b, 0xfe, 0xff, 0x02, 0xa4, 0xbd, 0x53, 0x05, 0xd8, 0xa1, 0x09, 0x08, 0xd8, 0x39, 0x33,
        0x48, 0x7d, 0x9d, 0x29, 0x53, 0xa7, 0xed, 0x73,
    ];
    unsafe {
        let mut torsion = None;
        for i in 1u8..=255 {
            let mut c = [0u8; 48];
            c[0] = 0x80;
            c[47] = i;
            let mut p = blst_p1_affine::default();
            if blst_p1_uncompress(&mut p, c.as_ptr()) != BLST_ERROR::BLST_SUCCESS || blst_p1_affine_in_g1(&p) {
                continue;
            }
            let (mut j, mut t) = (blst_p1::default(), blst_p1::default());
            blst_p1_from_affine(&mut j, &p);
            blst_p1_mult(&mut t, &j, R_LE.as_ptr(), 255);
            if !blst_p1_is_inf(&t) {
                torsion = Some(t);
                break;
            }
        }
        let torsion = torsion.expect("a point of the cofactor subgroup");
        let mut pa = blst_p1_affine::default();
        assert!(blst_p1_uncompress(&mut pa, a.as_ptr()) == BLST_ERROR::BLST_SUCCESS);
        let (mut ja, mut out) = (blst_p1::default(), blst_p1::default());
        blst_p1_from_affine(&mut ja, &pa);
        blst_p1_add_or_double(&mut out, &ja, &torsion);
        let mut bytes = [0u8; 48];
        blst_p1_compress(bytes.as_mut_ptr(), &out);
        assert!(bytes != *a);
        bytes
    }
}

fn g2_sub(a: &[u8; 96], b: &[u8; 96]) -> [u8; 96] {
    use blst::*;
    unsafe {
        let (mut pa, mut pb) = (blst_p2_affine::default(), blst_p2_affine::default());
        assert!(blst_p2_uncompress(&mut pa, a.as_ptr()) == BLST_ERROR::BLST_SUCCESS);
        assert!(blst_p2_uncompress(&mut pb, b.as_ptr()) == BLST_ERROR::BLST_SUCCESS);
        let (mut ja, mut jb, mut out) = (blst_p2::default(), blst_p2::default(), blst_p2::default());
        blst_p2_from_affine(&mut ja, &pa);
        blst_p2_from_affine(&mut jb, &pb);
        blst_p2_cneg(&mut jb, true);
        blst_p2_add_or_double(&mut out, &ja, &jb);
        let mut bytes = [0u8; 96];
        blst_p2_compress(bytes.as_mut_ptr(), &out);
        bytes
    }
}

fn make_pool(name: &'static str, seed: u8, issue: u64, start: u64, stake: u64) -> Pool {
    let cold_sk = ColdKeyGenerator::create_deterministic_keypair([seed; 32]);
    let cold_vk = cold_sk.verifying_key().to_bytes();
    let mut buf = [0u8; KES_SK_LEN];
    let mut kseed = [seed.wrapping_add(100); 32];
    let (mut sk, pk) = Sum6Kes::keygen(&mut buf, &mut kseed);
    let mut kes_sk = vec![sk.clone_sk()];
    for _ in 1..64 {
        sk.update().expect("Sum6 key evolves 63 times");
        kes_sk.push(sk.clone_sk());
    }
    assert!(sk.update().is_err(), "a Sum6 key has exactly 64 evolutions");
    let kes_vk: [u8; 32] = pk.as_bytes().try_into().unwrap();
    let cert_sig = cold_sk.sign(&rf::opcert_signable(&kes_vk, issue, start)).to_bytes();
    Pool {
        name,
        cold_vk,
        kes_sk,
        kes_vk,
        issue,
        start,
        cert_sig,
        pool_id: rf::pool_id(&cold_vk),
        pool_hash_hex: hex::encode(rf::blake2b_224(&cold_vk)),
        bls: bls_key(seed.wrapping_add(50)),
        stake,
        cold_sk,
    }
}

fn kes_sign(pool: &Pool, at: u32, msg: &[u8]) -> Vec<u8> {
    let mut b = pool.kes_sk[at as usize].clone();
    let sk = Sum6Kes::from_bytes(&mut b).expect("evolved KES key decodes");
    assert_eq!(sk.get_period(), at);
    sk.sign(msg).to_bytes().to_vec()
}

fn material() -> Mat {
    let pools = vec![
        make_pool("A", 1, 3, 10, 100),
        make_pool("B", 2, 7, 20, 250),
        make_pool("C", 3, 1, 0, 40),
    ];
    let fresh = bls_key(77);
    let b = &pools[1].bls;
    let rogue = BlsKey { seed: 0, vk: g2_sub(&fresh.vk, &b.vk), k1: g1_sub(&fresh.k1, &b.k1), k2: g1_sub(&fresh.k2, &b.k2) };
    Mat { pools, fresh, rogue, params: ProtocolParameters { k: 3, m: 10, phi_f: 0.8 } }
}

/// The honest registration of every pool at evolutions 0, 1, 63 produced by the real signer-side
/// code (`KesSignerStandard` reading Shelley files written by the repository's codecs, `OpCert::new`,
/// `ProtocolInitializer::setup`). They are cases of their own (family "real-signer": must satisfy the
/// reference and be accepted) and are compared with what this harness generates with the primitive
/// libraries (counted).
fn real_signer_cases(ctx: &Ctx, m: &Mat, rep: &mut Report) -> Vec<Case> {
    let dir = ctx.scratch();
    let mut out = vec![];
    for p in m.pools.iter() {
        let sk_path = dir.join(format!("kes-{}.skey", p.name));
        let cert_path = dir.join(format!("opcert-{}.cert", p.name));
        let mut kb = Sum6KesBytes([0u8; KES_SK_LEN]);
        kb.0.copy_from_slice(&p.kes_sk[0]);
        kb.to_file(&sk_path).expect("write KES key");
        let opcert = OpCert::new(
            kes_summed_ed25519::PublicKey::from_bytes(&p.kes_vk).unwrap(),
            p.issue,
            KesPeriod(p.start),
            p.cold_sk.clone(),
        );
        opcert.to_file(&cert_path).expect("write opcert");
        for t in [0u32, 1, 63] {
            let signer: Arc<dyn KesSigner> = Arc::new(KesSignerStandard::new(sk_path.clone(), cert_path.clone()));
            let mut rng = ChaCha20Rng::from_seed([p.bls.seed; 32]);
            let init = ProtocolInitializer::setup(stm_params(), Some(signer), Some(KesPeriod(p.start + t as u64)), p.stake, &mut rng)
                .expect("real signer setup");
            let vkpop = init.verification_key_for_concatenation().to_bytes().to_vec();
            let sig = init.verification_key_signature_for_concatenation().map(|s| s.to_bytes().to_vec());
            let identical = vkpop == p.bls.vkpop()
                && sig.as_deref() == Some(&kes_sign(p, t, &p.bls.vkpop())[..])
                && opcert.get_certificate_signature().to_bytes() == p.cert_sig
                && opcert.get_cold_verification_key().to_bytes() == p.cold_vk;
            rep.add_extra(if identical { "real_signer_output_identical_to_generated" } else { "real_signer_output_differs_from_generated" }, 1);
            let raw = Raw {
                party_id: Some(opcert.compute_protocol_party_id().unwrap_or_default()),
                cert: Some(RawCert {
                    cold_vk: opcert.get_cold_verification_key().to_bytes().to_vec(),
                    kes_vk: opcert.get_kes_verification_key().as_bytes().to_vec(),
                    issue_number: opcert.get_issue_number(),
                    start_kes_period: opcert.get_start_kes_period().0,
                    cert_sig: opcert.get_certificate_signature().to_bytes().to_vec(),
                }),
                vk: vkpop[..96].to_vec(),
                k1: vkpop[96..144].to_vec(),
                k2: vkpop[144..].to_vec(),
                kes_sig: sig,
                announced: Some(t as u64),
            };
            out.push(Case {
                family: "real-signer".into(),
                label: format!("{} signed-at={t} by KesSignerStandard/ProtocolInitializer::setup", p.name),
                route: Route::Register,
                dist: dist(m, "with-C"),
                regs: vec![Reg { raw, honest: true, claimed_stake: Some(p.stake) }],
            });
        }
    }
    out
}

// ------------------------------------------------------------------------------------------------
// symbolic registrations
// ------------------------------------------------------------------------------------------------

#[derive(Clone)]
enum CertSig {
    Bytes([u8; 64]),
    /// the cold key of pool i signs whatever body is submitted
    SignedBy(usize),
}

#[derive(Clone)]
enum Over {
    /// the key bytes as submitted (vk ‖ k1 ‖ k2)
    Submitted,
    Bytes(Vec<u8>),
}

#[derive(Clone)]
enum Kes {
    None,
    Sign { pool: usize, at: u32, over: Over, flip_chunk: Option<usize> },
}

#[derive(Clone)]
struct RegB {
    has_cert: bool,
    cold_vk: [u8; 32],
    kes_vk: [u8; 32],
    issue: u64,
    start: u64,
    cert_sig: CertSig,
    vk: [u8; 96],
    k1: [u8; 48],
    k2: [u8; 48],
    kes: Kes,
    announced: Option<u64>,
    party: Option<String>,
    claimed_stake: Option<u64>,
    honest: bool,
}

impl RegB {
    /// the registration an honest signer of pool `p` makes at evolution `t`.
    /// `operator = true`: same bytes, but certificate and KES signature are re-made over whatever
    /// the later deviations put into the registration (the adversary who owns pool `p`'s keys)
    fn honest(m: &Mat, p: usize, t: u32, operator: bool) -> RegB {
        let pl = &m.pools[p];
        RegB {
            has_cert: true,
            cold_vk: pl.cold_vk,
            kes_vk: pl.kes_vk,
            issue: pl.issue,
            start: pl.start,
            cert_sig: if operator { CertSig::SignedBy(p) } else { CertSig::Bytes(pl.cert_sig) },
            vk: pl.bls.vk,
            k1: pl.bls.k1,
            k2: pl.bls.k2,
            kes: Kes::Sign { pool: p, at: t, over: if operator { Over::Submitted } else { Over::Bytes(pl.bls.vkpop()) }, flip_chunk: None },
            announced: Some(t as u64),
            party: Some(pl.pool_id.clone()),
            claimed_stake: Some(pl.stake),
            honest: true,
        }
    }

    fn key(&mut self, k: &BlsKey) {
        self.vk = k.vk;
        self.k1 = k.k1;
        self.k2 = k.k2;
    }

    fn resolve(&self, m: &Mat) -> Reg {
        let submitted = [&self.vk[..], &self.k1[..], &self.k2[..]].concat();
        let cert = self.has_cert.then(|| RawCert {
            cold_vk: self.cold_vk.to_vec(),
            kes_vk: self.kes_vk.to_vec(),
            issue_number: self.issue,
            start_kes_period: self.start,
            cert_sig: match &self.cert_sig {
                CertSig::Bytes(b) => b.to_vec(),
                CertSig::SignedBy(i) => m.pools[*i].cold_sk.sign(&rf::opcert_signable(&self.kes_vk, self.issue, self.start)).to_bytes().to_vec(),
            },
        });
        let kes_sig = match &self.kes {
            Kes::None => None,
            Kes::Sign { pool, at, over, flip_chunk } => {
                let msg = match over {
                    Over::Submitted => submitted.clone(),
                    Over::Bytes(b) => b.clone(),
                };
                let mut s = kes_sign(&m.pools[*pool], *at, &msg);
                if let Some(c) = flip_chunk {
                    s[c * 32] ^= 1;
                }
                Some(s)
            }
        };
        Reg {
            raw: Raw {
                party_id: self.party.clone(),
                cert,
                vk: self.vk.to_vec(),
                k1: self.k1.to_vec(),
                k2: self.k2.to_vec(),
                kes_sig,
                announced: self.announced,
            },
            honest: self.honest,
            claimed_stake: self.claimed_stake,
        }
    }
}

fn flip<const N: usize>(b: &[u8; N], bit: usize) -> [u8; N] {
    let mut o = *b;
    o[bit / 8] ^= 1 << (bit % 8);
    o
}

// stake distributions -----------------------------------------------------------------------------

const DISTS: [&str; 11] =
    ["both", "A-only", "B-only", "swapped-stakes", "empty", "with-C", "A-zero", "A-max", "hex-ids", "upper-case-ids", "with-weak"];

fn weak_cold_key() -> [u8; 32] {
    let mut k = [0u8; 32];
    k[0] = 1; // the neutral element of the curve
    k
}

fn dist(m: &Mat, name: &str) -> Vec<(String, u64)> {
    let (a, b, c) = (&m.pools[0], &m.pools[1], &m.pools[2]);
    match name {
        "both" => vec![(a.pool_id.clone(), a.stake), (b.pool_id.clone(), b.stake)],
        "A-only" => vec![(a.pool_id.clone(), a.stake)],
        "B-only" => vec![(b.pool_id.clone(), b.stake)],
        "swapped-stakes" => vec![(a.pool_id.clone(), b.stake), (b.pool_id.clone(), a.stake)],
        "empty" => vec![],
        "with-C" => vec![(a.pool_id.clone(), a.stake), (b.pool_id.clone(), b.stake), (c.pool_id.clone(), c.stake)],
        "A-zero" => vec![(a.pool_id.clone(), 0), (b.pool_id.clone(), b.stake)],
        "A-max" => vec![(a.pool_id.clone(), u64::MAX), (b.pool_id.clone(), b.stake)],
        "hex-ids" => vec![(a.pool_hash_hex.clone(), a.stake), (b.pool_hash_hex.clone(), b.stake)],
        "upper-case-ids" => vec![(a.pool_id.to_uppercase(), a.stake), (b.pool_id.to_uppercase(), b.stake)],
        "with-weak" => vec![(a.pool_id.clone(), a.stake), (b.pool_id.clone(), b.stake), (rf::pool_id(&weak_cold_key()), 77)],
        _ => unreachable!(),
    }
}

// ------------------------------------------------------------------------------------------------
// case builders
// ------------------------------------------------------------------------------------------------

#[derive(Clone)]
struct CaseB {
    dist: &'static str,
    prior: Vec<RegB>,
    reg: RegB,
}

struct Dev {
    /// deviations of the same group are alternatives (never combined with each other)
    group: &'static str,
    name: String,
    keeps_honest: bool,
    f: Box<dyn Fn(&Mat, &mut CaseB) + Sync + Send>,
}

fn dev(group: &'static str, name: impl Into<String>, f: impl Fn(&Mat, &mut CaseB) + Sync + Send + 'static) -> Dev {
    Dev { group, name: name.into(), keeps_honest: false, f: Box::new(f) }
}

fn dev_h(group: &'static str, name: impl Into<String>, f: impl Fn(&Mat, &mut CaseB) + Sync + Send + 'static) -> Dev {
    Dev { group, name: name.into(), keeps_honest: true, f: Box::new(f) }
}

const BIG_EVOLUTIONS: [u64; 7] =
    [(1 << 32) - 2, (1 << 32) - 1, 1 << 32, (1 << 32) + 1, 1 << 63, u64::MAX - 1, u64::MAX];

/// every single deviation from the honest registration of pool `p` (other pool `q`) signed at `t`
fn deviations(p: usize, t: u32) -> Vec<Dev> {
    let q = 1 - p;
    let c = 2usize;
    let mut d: Vec<Dev> = vec![];
    // cold key
    for o in [q, c] {
        d.push(dev("cold", format!("cold-key-of-{o}"), move |m, x| x.reg.cold_vk = m.pools[o].cold_vk));
    }
    for bit in [0usize, 1, 2, 7, 100, 255] {
        d.push(dev("cold", format!("cold-key-bit-{bit}"), move |_, x| x.reg.cold_vk = flip(&x.reg.cold_vk, bit)));
    }
    // certificate body
    for o in [q, c] {
        d.push(dev("kes_vk", format!("cert-kes-vk-of-{o}"), move |m, x| x.reg.kes_vk = m.pools[o].kes_vk));
    }
    for bit in [0usize, 255] {
        d.push(dev("kes_vk", format!("cert-kes-vk-bit-{bit}"), move |_, x| x.reg.kes_vk = flip(&x.reg.kes_vk, bit)));
    }
    d.push(dev("issue", "issue-of-other", move |m, x| x.reg.issue = m.pools[q].issue));
    d.push(dev("issue", "issue+1", |_, x| x.reg.issue += 1));
    d.push(dev("issue", "issue-1", |_, x| x.reg.issue -= 1));
    d.push(dev("issue", "issue=0", |_, x| x.reg.issue = 0));
    d.push(dev("issue", "issue=max", |_, x| x.reg.issue = u64::MAX));
    d.push(dev("start", "start-of-other", move |m, x| x.reg.start = m.pools[q].start));
    d.push(dev("start", "start+1", |_, x| x.reg.start += 1));
    d.push(dev("start", "start-1", |_, x| x.reg.start -= 1));
    d.push(dev("start", "start=0", |_, x| x.reg.start = 0));
    d.push(dev("start", "start=max", |_, x| x.reg.start = u64::MAX));
    // certificate signature
    for o in [q, c] {
        d.push(dev("cert_sig", format!("cert-sig-of-{o}"), move |m, x| x.reg.cert_sig = CertSig::Bytes(m.pools[o].cert_sig)));
        d.push(dev("cert_sig", format!("cert-signed-by-cold-key-of-{o}"), move |_, x| x.reg.cert_sig = CertSig::SignedBy(o)));
    }
    d.push(dev("cert_sig", "cert-sig-zero", |_, x| x.reg.cert_sig = CertSig::Bytes([0u8; 64])));
    for bit in [0usize, 255, 256, 500, 511] {
        d.push(dev("cert_sig", format!("cert-sig-bit-{bit}"), move |m, x| {
            x.reg.cert_sig = CertSig::Bytes(flip(&m.pools[p].cert_sig, bit));
        }));
    }
    // the whole certificate missing
    d.push(dev("cert", "no-certificate", |_, x| x.reg.has_cert = false));
    d.push(dev("cert", "no-certificate-no-kes", |_, x| {
        x.reg.has_cert = false;
        x.reg.kes = Kes::None;
        x.reg.announced = None;
    }));
    // KES signature
    d.push(dev("kes", "no-kes-signature", |_, x| x.reg.kes = Kes::None));
    for o in [q, c] {
        d.push(dev("kes", format!("kes-by-{o}-over-submitted"), move |_, x| {
            x.reg.kes = Kes::Sign { pool: o, at: t, over: Over::Submitted, flip_chunk: None }
        }));
        d.push(dev("kes", format!("kes-by-{o}-over-its-own-key"), move |m, x| {
            x.reg.kes = Kes::Sign { pool: o, at: t, over: Over::Bytes(m.pools[o].bls.vkpop()), flip_chunk: None }
        }));
        d.push(dev("kes", format!("kes-by-self-over-key-of-{o}"), move |m, x| {
            x.reg.kes = Kes::Sign { pool: p, at: t, over: Over::Bytes(m.pools[o].bls.vkpop()), flip_chunk: None }
        }));
    }
    d.push(dev("kes", "kes-over-vk-without-pop", move |_, x| {
        x.reg.kes = Kes::Sign { pool: p, at: t, over: Over::Bytes(x.reg.vk.to_vec()), flip_chunk: None }
    }));
    d.push(dev("kes", "kes-over-empty", move |_, x| {
        x.reg.kes = Kes::Sign { pool: p, at: t, over: Over::Bytes(vec![]), flip_chunk: None }
    }));
    d.push(dev("kes", "kes-over-key-plus-suffix", move |m, x| {
        let mut b = m.pools[p].bls.vkpop();
        b.push(0);
        x.reg.kes = Kes::Sign { pool: p, at: t, over: Over::Bytes(b), flip_chunk: None }
    }));
    d.push(dev("kes", "kes-over-certificate-body", move |m, x| {
        let pl = &m.pools[p];
        x.reg.kes = Kes::Sign { pool: p, at: t, over: Over::Bytes(rf::opcert_signable(&pl.kes_vk, pl.issue, pl.start).to_vec()), flip_chunk: None }
    }));
    for chunk in 0..14usize {
        d.push(dev("kes", format!("kes-sig-flip-chunk-{chunk}"), move |_, x| {
            if let Kes::Sign { flip_chunk, .. } = &mut x.reg.kes {
                *flip_chunk = Some(chunk);
            }
        }));
    }
    for dt in [-2i64, -1, 1, 2] {
        let at = t as i64 + dt;
        if (0..64).contains(&at) {
            d.push(dev("kes", format!("kes-made-at-t{dt:+}"), move |_, x| {
                if let Kes::Sign { at: a, .. } = &mut x.reg.kes {
                    *a = at as u32;
                }
            }));
        }
    }
    // announced evolution
    d.push(dev("announced", "announced-missing", |_, x| x.reg.announced = None));
    let mut anns: Vec<u64> = vec![0, 62, 63, 64, 65, 66];
    for dt in [-2i64, -1, 1, 2] {
        if t as i64 + dt >= 0 {
            anns.push((t as i64 + dt) as u64);
        }
    }
    anns.extend(BIG_EVOLUTIONS);
    anns.sort();
    anns.dedup();
    for a in anns {
        if a != t as u64 {
            d.push(dev("announced", format!("announced={a}"), move |_, x| x.reg.announced = Some(a)));
        }
    }
    // BLS key and proof of possession
    d.push(dev("key", "key+pop-of-other", move |m, x| {
        let k = m.pools[q].bls.clone();
        x.reg.key(&k)
    }));
    d.push(dev("key", "key+pop-fresh", |m, x| {
        let k = m.fresh.clone();
        x.reg.key(&k)
    }));
    d.push(dev("key", "vk-of-other", move |m, x| x.reg.vk = m.pools[q].bls.vk));
    d.push(dev("key", "vk-fresh", |m, x| x.reg.vk = m.fresh.vk));
    for bit in [0usize, 8, 767] {
        d.push(dev("key", format!("vk-bit-{bit}"), move |_, x| x.reg.vk = flip(&x.reg.vk, bit)));
    }
    d.push(dev("k1", "k1-of-other", move |m, x| x.reg.k1 = m.pools[q].bls.k1));
    d.push(dev("k1", "k1-fresh", |m, x| x.reg.k1 = m.fresh.k1));
    d.push(dev("k1", "k1=k2", |_, x| x.reg.k1 = x.reg.k2));
    for bit in [0usize, 8, 383] {
        d.push(dev("k1", format!("k1-bit-{bit}"), move |_, x| x.reg.k1 = flip(&x.reg.k1, bit)));
    }
    d.push(dev("k1", "k1=infinity", |_, x| {
        x.reg.k1 = [0u8; 48];
        x.reg.k1[0] = 0xc0;
    }));
    d.push(dev("k2", "k2-of-other", move |m, x| x.reg.k2 = m.pools[q].bls.k2));
    d.push(dev("k2", "k2-fresh", |m, x| x.reg.k2 = m.fresh.k2));
    d.push(dev("k2", "k2=k1", |_, x| x.reg.k2 = x.reg.k1));
    for bit in [0usize, 8, 383] {
        d.push(dev("k2", format!("k2-bit-{bit}"), move |_, x| x.reg.k2 = flip(&x.reg.k2, bit)));
    }
    d.push(dev("k2", "k2=infinity", |_, x| {
        x.reg.k2 = [0u8; 48];
        x.reg.k2[0] = 0xc0;
    }));
    d.push(dev("k2", "k2=zero-bytes", |_, x| x.reg.k2 = [0u8; 48]));
    d.push(dev("k1", "k1+cofactor-point", |_, x| x.reg.k1 = g1_add_cofactor_point(&x.reg.k1)));
    d.push(dev("k2", "k2+cofactor-point", |_, x| x.reg.k2 = g1_add_cofactor_point(&x.reg.k2)));
    // claimed party id
    d.push(dev("party", "party-id-missing", |_, x| x.reg.party = None));
    d.push(dev("party", "party-id-empty", |_, x| x.reg.party = Some(String::new())));
    for o in [q, c] {
        d.push(dev("party", format!("party-id-of-{o}"), move |m, x| x.reg.party = Some(m.pools[o].pool_id.clone())));
    }
    d.push(dev("party", "party-id-garbage", |_, x| x.reg.party = Some("pool1notapool".into())));
    d.push(dev("party", "party-id-hex-hash", move |m, x| x.reg.party = Some(m.pools[p].pool_hash_hex.clone())));
    // stake distribution of the round
    for name in DISTS {
        if name != "both" {
            let keeps = matches!(name, "swapped-stakes" | "with-C" | "with-weak") || (name == "A-only" && p == 0) || (name == "B-only" && p == 1) || (name == "A-max" && p == 1) || (name == "A-zero" && p == 1);
            let mut dv = dev("dist", format!("dist={name}"), move |_, x| x.dist = name);
            dv.keeps_honest = keeps;
            d.push(dv);
        }
    }
    // earlier registrations in the same round
    d.push(dev("prior", "prior:same-registration", move |m, x| x.prior.push(RegB::honest(m, p, t, false))));
    d.push(dev("prior", "prior:other-pool-registered-this-key", move |m, x| {
        let mut r = RegB::honest(m, q, 1, true);
        let k = m.pools[p].bls.clone();
        r.key(&k);
        r.honest = false;
        x.prior.push(r);
    }));
    d.push(dev_h("prior", "prior:other-pool-honest", move |m, x| x.prior.push(RegB::honest(m, q, 1, false))));
    d
}

fn build_case(m: &Mat, family: &str, label: String, cb: &CaseB) -> Case {
    let mut regs: Vec<Reg> = cb.prior.iter().map(|r| r.resolve(m)).collect();
    regs.push(cb.reg.resolve(m));
    Case { family: family.into(), label, route: Route::Register, dist: dist(m, cb.dist), regs }
}

/// the ball of radius `depth` around the honest registration of (p, t), for the outsider adversary
/// (fixed signatures, `operator = false`) or the operator adversary (re-signs with the pool's own
/// keys); `first = None`: the honest centre, `first = Some(i)`: deviation i alone and (depth 2)
/// combined with every later deviation of another group
fn family_ball(m: &Mat, p: usize, t: u32, depth: usize, operator: bool, first: Option<usize>, out: &mut Vec<Case>) {
    let devs = deviations(p, t);
    let base = CaseB { dist: "both", prior: vec![], reg: RegB::honest(m, p, t, operator) };
    let who = if operator { "operator" } else { "outsider" };
    let tag = format!("{}@{t}/{who}", m.pools[p].name);
    let Some(i) = first else {
        out.push(build_case(m, "ball", format!("{tag}: honest"), &base));
        return;
    };
    let d1 = &devs[i];
    let mut c1 = base.clone();
    (d1.f)(m, &mut c1);
    c1.reg.honest &= d1.keeps_honest;
    out.push(build_case(m, "ball", format!("{tag}: {}", d1.name), &c1));
    if depth >= 2 {
        for d2 in devs.iter().skip(i + 1) {
            if d2.group == d1.group {
                continue;
            }
            let mut c2 = c1.clone();
            (d2.f)(m, &mut c2);
            c2.reg.honest &= d2.keeps_honest;
            out.push(build_case(m, "ball", format!("{tag}: {} + {}", d1.name, d2.name), &c2));
        }
    }
}

/// every splice of the components of the honest registrations of A and B (both made at `t`)
fn family_splice(m: &Mat, t: u32, bits_range: std::ops::Range<u32>, out: &mut Vec<Case>) {
    // two-valued components: cold, kes_vk, issue, start, vk, k1, k2, party;
    // four-valued: certificate signature {A's, B's, freshly signed by A, by B},
    //              KES signature {A's, B's honest signature, A's / B's key over the submitted bytes}
    for bits in bits_range {
        for cs in 0..4usize {
            for ks in 0..4usize {
                let pick = |i: u32| ((bits >> i) & 1) as usize;
                let mut r = RegB::honest(m, pick(0), t, false);
                r.kes_vk = m.pools[pick(1)].kes_vk;
                r.issue = m.pools[pick(2)].issue;
                r.start = m.pools[pick(3)].start;
                r.vk = m.pools[pick(4)].bls.vk;
                r.k1 = m.pools[pick(5)].bls.k1;
                r.k2 = m.pools[pick(6)].bls.k2;
                r.party = Some(m.pools[pick(7)].pool_id.clone());
                r.cert_sig = if cs < 2 { CertSig::Bytes(m.pools[cs].cert_sig) } else { CertSig::SignedBy(cs - 2) };
                r.kes = if ks < 2 {
                    Kes::Sign { pool: ks, at: t, over: Over::Bytes(m.pools[ks].bls.vkpop()), flip_chunk: None }
                } else {
                    Kes::Sign { pool: ks - 2, at: t, over: Over::Submitted, flip_chunk: None }
                };
                let all_a = bits == 0 && (cs == 0 || cs == 2) && (ks == 0 || ks == 2);
                let all_b = bits == 0xff && (cs == 1 || cs == 3) && (ks == 1 || ks == 3);
                r.honest = all_a || all_b;
                let cb = CaseB { dist: "both", prior: vec![], reg: r };
                out.push(build_case(m, "splice", format!("t={t} components={bits:08b} cert_sig={cs} kes={ks}"), &cb));
            }
        }
    }
}

/// signing evolution × announced evolution
fn family_window(m: &Mat, p: usize, ts: &[u32], out: &mut Vec<Case>) {
    {
        for &t in ts {
            let mut anns: Vec<Option<u64>> = (0..=70u64).map(Some).collect();
            anns.extend(BIG_EVOLUTIONS.iter().map(|a| Some(*a)));
            anns.push(None);
            for a in anns {
                let mut r = RegB::honest(m, p, t, false);
                r.announced = a;
                r.honest = a == Some(t as u64);
                let cb = CaseB { dist: "both", prior: vec![], reg: r };
                out.push(build_case(m, "window", format!("{} signed-at={t} announced={a:?}", m.pools[p].name), &cb));
            }
        }
    }
}

/// honest registrations of A, B, C against every stake distribution
fn family_dist(m: &Mat, out: &mut Vec<Case>) {
    for p in 0..3 {
        for name in DISTS {
            let mut r = RegB::honest(m, p, 1, false);
            let d = dist(m, name);
            r.honest = d.iter().any(|(id, s)| *id == m.pools[p].pool_id && *s > 0);
            let cb = CaseB { dist: name, prior: vec![], reg: r };
            out.push(build_case(m, "dist", format!("{} honest, dist={name}", m.pools[p].name), &cb));
        }
    }
}

fn sequence_menu(m: &Mat) -> Vec<(String, RegB)> {
    let mut menu = vec![];
    for p in 0..3 {
        menu.push((format!("honest-{}", m.pools[p].name), RegB::honest(m, p, 1, false)));
    }
    let mut again = RegB::honest(m, 0, 5, false);
    again.honest = true;
    menu.push(("honest-A-signed-at-5".into(), again));
    for (thief, victim) in [(1usize, 0usize), (0, 1)] {
        let mut r = RegB::honest(m, thief, 1, true);
        let k = m.pools[victim].bls.clone();
        r.key(&k);
        r.honest = false;
        menu.push((format!("{}-registers-key-of-{}", m.pools[thief].name, m.pools[victim].name), r));
    }
    for (name, k1, k2) in [("k1", true, false), ("k2", false, true)] {
        let mut r = RegB::honest(m, 1, 1, true);
        let mut k = m.pools[0].bls.clone();
        if k1 {
            k.k1 = g1_add_cofactor_point(&k.k1);
        }
        if k2 {
            k.k2 = g1_add_cofactor_point(&k.k2);
        }
        r.key(&k);
        r.honest = false;
        menu.push((format!("B-registers-key-of-A-with-{name}-moved-by-a-cofactor-point"), r));
    }
    let mut second = RegB::honest(m, 0, 1, true);
    second.key(&m.fresh.clone());
    second.honest = false;
    menu.push(("A-registers-a-second-key".into(), second));
    menu
}

/// sequences of registrations in one key registration
fn family_sequence(m: &Mat, len: usize, out: &mut Vec<Case>) {
    let menu = sequence_menu(m);
    for seq in mc_core::sequences(menu.len(), len) {
        if seq.len() < 2 {
            continue;
        }
        let regs: Vec<Reg> = seq.iter().map(|i| menu[*i].1.resolve(m)).collect();
        let label = seq.iter().map(|i| menu[*i].0.clone()).collect::<Vec<_>>().join(" ; ");
        out.push(Case { family: "sequence".into(), label, route: Route::Register, dist: dist(m, "with-C"), regs });
    }
}

/// cold key = neutral element, certificate "signature" (R = neutral element, S = 0)
fn family_weak(m: &Mat, out: &mut Vec<Case>) {
    for name in ["both", "with-weak"] {
        let mut r = RegB::honest(m, 0, 1, true);
        r.cold_vk = weak_cold_key();
        let mut sig = [0u8; 64];
        sig[0] = 1;
        r.cert_sig = CertSig::Bytes(sig);
        r.key(&m.fresh.clone());
        r.party = None;
        r.honest = false;
        out.push(build_case(m, "weak-cold-key", format!("neutral-element cold key, dist={name}"), &CaseB { dist: name, prior: vec![], reg: r }));
    }
}

/// pool A registers `fresh − key(B)` with a proof of possession computed from B's public proof
fn family_rogue(m: &Mat, out: &mut Vec<Case>) {
    let mut r = RegB::honest(m, 0, 1, true);
    r.key(&m.rogue.clone());
    r.honest = false;
    out.push(build_case(m, "rogue-key", "A registers (fresh − key of B) with PoP = PoP(fresh) − PoP(B)".into(), &CaseB { dist: "both", prior: vec![], reg: r.clone() }));
    // and after B registered: the two keys aggregate to `fresh`
    out.push(build_case(
        m,
        "rogue-key",
        "B honest ; A registers (fresh − key of B) with PoP = PoP(fresh) − PoP(B)".into(),
        &CaseB { dist: "both", prior: vec![RegB::honest(m, 1, 1, false)], reg: r },
    ));
}

/// the aggregator verifier's call sequence
fn family_verifier(m: &Mat, p: usize, ts: &[u32], out: &mut Vec<Case>) {
    {
        let q = 1 - p;
        let pl = &m.pools[p];
        for &t in ts {
            let mut chains: Vec<Option<u64>> = vec![None, Some(0), Some(pl.start - 1), Some(u64::MAX)];
            for d in -3i64..=3 {
                chains.push(Some((pl.start as i64 + t as i64 + d) as u64));
            }
            for chain in chains {
                for msg_ann in [Some(t as u64), None, Some(t as u64 + 7), Some(u64::MAX)] {
                    for party in [Some(pl.pool_id.clone()), Some(String::new()), Some(m.pools[q].pool_id.clone()), Some("pool1notapool".to_string())] {
                        for dname in ["both", if p == 0 { "B-only" } else { "A-only" }] {
                            let mut r = RegB::honest(m, p, t, false);
                            r.announced = msg_ann;
                            r.party = party.clone();
                            // honest: the chain is at the period the signature was made for, the claimed
                            // party id is the pool's own (or left empty) and the message announces that evolution
                            r.honest = chain == Some(pl.start + t as u64)
                                && dname == "both"
                                && msg_ann == Some(t as u64)
                                && (party.as_deref() == Some(pl.pool_id.as_str()) || party.as_deref() == Some(""));
                            out.push(Case {
                                family: "verifier".into(),
                                label: format!("{} signed-at={t} chain-period={chain:?} message-evolutions={msg_ann:?} claimed-party={party:?} dist={dname}", pl.name),
                                route: Route::Verifier { chain_kes_period: chain },
                                dist: dist(m, dname),
                                regs: vec![r.resolve(m)],
                            });
                        }
                    }
                }
            }
        }
    }
}

/// the verifier route with two registrations of the same key by different pools
fn family_verifier_same_key(m: &Mat, out: &mut Vec<Case>) {
    let a = RegB::honest(m, 0, 1, false);
    let mut thief = RegB::honest(m, 1, 1, true);
    thief.key(&m.pools[0].bls.clone());
    thief.honest = false;
    for (label, regs) in [("A honest ; B registers key of A", vec![a.clone(), thief.clone()]), ("B registers key of A ; A honest", vec![thief, a])] {
        let start_a = m.pools[0].start;
        // chain period such that both are inside their windows is impossible with different start
        // periods; each registration gets its own honest chain period through two cases
        for chain in [start_a + 1, m.pools[1].start + 1] {
            out.push(Case {
                family: "verifier".into(),
                label: format!("{label} chain-period={chain}"),
                route: Route::Verifier { chain_kes_period: Some(chain) },
                dist: dist(m, "both"),
                regs: regs.iter().map(|r| r.resolve(m)).collect(),
            });
        }
    }
}

/// lists of stored signer records given to `SignerBuilder::new`
fn family_builder(m: &Mat, out: &mut Vec<Case>) {
    let a = RegB::honest(m, 0, 1, false);
    let b = RegB::honest(m, 1, 1, false);
    let c = RegB::honest(m, 2, 1, false);
    let mut lists: Vec<(String, Vec<RegB>)> = vec![
        ("A".into(), vec![a.clone()]),
        ("A,B".into(), vec![a.clone(), b.clone()]),
        ("B,A".into(), vec![b.clone(), a.clone()]),
        ("A,B,C".into(), vec![a.clone(), b.clone(), c.clone()]),
        ("A,A".into(), vec![a.clone(), a.clone()]),
    ];
    let with = |r: &RegB, f: &dyn Fn(&mut RegB)| {
        let mut x = r.clone();
        f(&mut x);
        x.honest = false;
        x
    };
    let ida = m.pools[0].pool_id.clone();
    let idb = m.pools[1].pool_id.clone();
    lists.push(("A(stake 999),B".into(), vec![with(&a, &|x| x.claimed_stake = Some(999)), b.clone()]));
    lists.push(("A(stake 0),B".into(), vec![with(&a, &|x| x.claimed_stake = Some(0)), b.clone()]));
    lists.push((
        "A labelled B, B labelled A".into(),
        vec![with(&a, &|x| x.party = Some(idb.clone())), with(&b, &|x| x.party = Some(ida.clone()))],
    ));
    lists.push(("A labelled garbage".into(), vec![with(&a, &|x| x.party = Some("pool1notapool".into()))]));
    lists.push(("A labelled garbage, B".into(), vec![with(&a, &|x| x.party = Some("pool1notapool".into())), b.clone()]));
    lists.push(("A(no announced evolution),B".into(), vec![with(&a, &|x| x.announced = None), b.clone()]));
    lists.push(("A(announced+7),B".into(), vec![with(&a, &|x| x.announced = Some(8)), b.clone()]));
    lists.push(("A(announced+2),B".into(), vec![with(&a, &|x| x.announced = Some(3)), b.clone()]));
    lists.push(("A(no certificate),B".into(), vec![with(&a, &|x| x.has_cert = false), b.clone()]));
    lists.push(("A(no KES signature),B".into(), vec![with(&a, &|x| x.kes = Kes::None), b.clone()]));
    lists.push((
        "A(KES signature of B),B".into(),
        vec![with(&a, &|x| x.kes = Kes::Sign { pool: 1, at: 1, over: Over::Bytes(m.pools[1].bls.vkpop()), flip_chunk: None }), b.clone()],
    ));
    lists.push(("A(key of fresh, not re-signed),B".into(), vec![with(&a, &|x| x.key(&m.fresh.clone())), b.clone()]));
    lists.push(("A(k2 of B, re-signed),B".into(), vec![
        {
            let mut x = RegB::honest(m, 0, 1, true);
            x.k2 = m.pools[1].bls.k2;
            x.honest = false;
            x
        },
        b.clone(),
    ]));
    lists.push(("A, B registers key of A".into(), vec![a.clone(), {
        let mut x = RegB::honest(m, 1, 1, true);
        x.key(&m.pools[0].bls.clone());
        x.honest = false;
        x
    }]));
    lists.push(("A(certificate of B)".into(), vec![with(&a, &|x| {
        let pb = &m.pools[1];
        x.cold_vk = pb.cold_vk;
        x.kes_vk = pb.kes_vk;
        x.issue = pb.issue;
        x.start = pb.start;
        x.cert_sig = CertSig::Bytes(pb.cert_sig);
    })]));
    for (label, regs) in lists {
        out.push(Case { family: "builder".into(), label, route: Route::Builder, dist: vec![], regs: regs.iter().map(|r| r.resolve(m)).collect() });
    }
}

// ------------------------------------------------------------------------------------------------
// the real code
// ------------------------------------------------------------------------------------------------

struct Typed {
    party_id: Option<String>,
    opcert: Option<ProtocolOpCert>,
    key: ProtocolSignerVerificationKeyForConcatenation,
    kes_sig: Option<ProtocolSignerVerificationKeySignatureForConcatenation>,
    announced: Option<KesEvolutions>,
}

/// raw values → the typed values of the real API, through the real decoders
fn decode(raw: &Raw) -> Result<Typed, String> {
    let opcert = match &raw.cert {
        None => None,
        Some(c) => {
            let body = OpCertWithoutColdVerificationKey::try_new(&c.kes_vk, c.issue_number, KesPeriod(c.start_kes_period), &c.cert_sig)
                .map_err(|e| format!("certificate body: {e:#}"))?;
            let cold: [u8; 32] = c.cold_vk.as_slice().try_into().map_err(|_| "cold key length".to_string())?;
            let cold = ed25519_dalek::VerifyingKey::from_bytes(&cold).map_err(|e| format!("cold key: {e}"))?;
            Some(ProtocolKey::new(OpCert::from((body, cold))))
        }
    };
    let bytes = [&raw.vk[..], &raw.k1[..], &raw.k2[..]].concat();
    let key = ProtocolSignerVerificationKeyForConcatenation::from_bytes(&bytes).map_err(|e| format!("verification key: {e:#}"))?;
    let kes_sig = match &raw.kes_sig {
        None => None,
        Some(s) => Some(ProtocolKey::new(Sum6KesSig::from_bytes(s).map_err(|e| format!("KES signature: {e:?}"))?)),
    };
    Ok(Typed { party_id: raw.party_id.clone(), opcert, key, kes_sig, announced: raw.announced.map(KesEvolutions) })
}

enum Real {
    Accepted(String),
    Rejected(String),
    Panicked(String),
}

fn classify_error(e: &str) -> &'static str {
    for (needle, class) in [
        ("missing operational certificate", "OpCertMissing"),
        ("invalid operational certificate", "OpCertInvalid"),
        ("Operational certificate", "OpCertInvalid"),
        ("missing KES signature", "KesSignatureMissing"),
        ("missing KES period", "KesPeriodMissing"),
        ("KES signature verification error", "KesSignatureInvalid"),
        ("party id does not exist", "PartyIdNonExisting"),
        ("already been registered", "EntryAlreadyRegistered"),
        ("concatenation key is invalid", "ConcatenationKeyInvalid"),
        ("party id", "PartyIdMissing"),
    ] {
        if e.contains(needle) {
            return class;
        }
    }
    "other"
}

fn register(kr: &mut ProtocolKeyRegistration, t: &Typed) -> Real {
    let params = SignerRegistrationParameters {
        party_id: t.party_id.clone(),
        operational_certificate: t.opcert.clone(),
        verification_key_for_concatenation: t.key,
        verification_key_signature_for_concatenation: t.kes_sig,
        kes_evolutions: t.announced,
    };
    match catch(|| kr.register(params)) {
        Ok(Ok(id)) => Real::Accepted(id),
        Ok(Err(e)) => Real::Rejected(format!("{e:#}")),
        Err(p) => Real::Panicked(format!("{p} at {}", mc_core::last_panic_location())),
    }
}

/// The call sequence of `MithrilSignerRegistrationVerifier::verify`
/// (mithril-aggregator/src/services/signer_registration/verifier.rs), with the chain observer's
/// answer passed in.
fn verifier_mirror(signer: &Signer, stake_distribution: &StakeDistribution, chain_kes_period: Option<KesPeriod>) -> StdResult<SignerWithStake> {
    let mut key_registration =
        ProtocolKeyRegistration::init(&stake_distribution.iter().map(|(k, v)| (k.to_owned(), *v)).collect::<Vec<_>>());
    let party_id_register = match signer.party_id.as_str() {
        "" => None,
        party_id => Some(party_id.to_string()),
    };
    let kes_evolutions = signer
        .operational_certificate
        .as_ref()
        .map(|operational_certificate| chain_kes_period.unwrap_or_default() - operational_certificate.get_start_kes_period());
    let party_id_registered = key_registration.register(SignerRegistrationParameters {
        party_id: party_id_register.clone(),
        operational_certificate: signer.operational_certificate.clone(),
        verification_key_signature_for_concatenation: signer.verification_key_signature_for_concatenation,
        kes_evolutions,
        verification_key_for_concatenation: signer.verification_key_for_concatenation,
    })?;
    let party_id_registered_stake =
        *stake_distribution.get(&party_id_registered).ok_or_else(|| anyhow::anyhow!("Stake not found for party_id: '{party_id_registered}"))?;
    Ok(SignerWithStake { party_id: party_id_registered, ..SignerWithStake::from_signer(signer.to_owned(), party_id_registered_stake) })
}

/// The registration as it reaches the aggregator: JSON `RegisterSignerMessage` → serde →
/// the conversions of `FromRegisterSignerAdapter::try_adapt`
/// (mithril-aggregator/src/message_adapters/from_register_signer.rs). `claimed_stake` is an extra
/// JSON member: the message has no stake field, a registrant can only try to add one.
fn signer_via_wire(t: &Typed, claimed_stake: u64) -> Result<Signer, String> {
    let e = |x: anyhow::Error| format!("{x:#}");
    let mut msg = serde_json::Map::new();
    msg.insert("epoch".into(), json!(5));
    msg.insert("party_id".into(), json!(t.party_id.clone().unwrap_or_default()));
    msg.insert("verification_key".into(), json!(t.key.to_json_hex().map_err(e)?));
    if let Some(s) = &t.kes_sig {
        msg.insert("verification_key_signature".into(), json!(s.to_json_hex().map_err(e)?));
    }
    if let Some(c) = &t.opcert {
        msg.insert("operational_certificate".into(), json!(c.to_json_hex().map_err(e)?));
    }
    if let Some(a) = t.announced {
        msg.insert("kes_period".into(), json!(a.0));
    }
    msg.insert("stake".into(), json!(claimed_stake));
    let text = serde_json::to_string(&Value::Object(msg)).unwrap();
    let m: RegisterSignerMessage = serde_json::from_str(&text).map_err(|x| x.to_string())?;
    Ok(Signer {
        party_id: m.party_id,
        verification_key_for_concatenation: m.verification_key_for_concatenation.try_into().map_err(e)?,
        verification_key_signature_for_concatenation: m.verification_key_signature_for_concatenation.map(|s| s.try_into().map_err(e)).transpose()?,
        operational_certificate: m.operational_certificate.map(|c| c.try_into().map_err(e)).transpose()?,
        kes_evolutions: m.kes_evolutions,
    })
}

struct FixedKesSigner(Sum6KesSig, OpCert);
impl KesSigner for FixedKesSigner {
    fn sign(&self, _message: &[u8], _current_kes_period: KesPeriod) -> StdResult<(Sum6KesSig, OpCert)> {
        Ok((self.0, self.1.clone()))
    }
}

/// is (key of `seed`, `stake`) an entry of the builder's closed registration?
fn builder_has_entry(m: &Mat, builder: &SignerBuilder, seed: u8, stake: u64) -> bool {
    let p = &m.pools[0];
    let dummy_sig = Sum6KesSig::from_bytes(&kes_sign(p, 0, b"x")).unwrap();
    let dummy_cert = OpCert::new(kes_summed_ed25519::PublicKey::from_bytes(&p.kes_vk).unwrap(), p.issue, KesPeriod(p.start), p.cold_sk.clone());
    let mut rng = ChaCha20Rng::from_seed([seed; 32]);
    let Ok(init) = ProtocolInitializer::setup(stm_params(), Some(Arc::new(FixedKesSigner(dummy_sig, dummy_cert))), Some(KesPeriod(0)), stake, &mut rng) else {
        return false;
    };
    builder.restore_signer_from_initializer("probe".into(), init).is_ok()
}

// ------------------------------------------------------------------------------------------------
// oracle
// ------------------------------------------------------------------------------------------------

fn arr<const N: usize>(v: &[u8]) -> Option<[u8; N]> {
    v.try_into().ok()
}

/// the reference predicate on one registration; `key_bytes` are the canonical bytes of the decoded
/// key (vk ‖ k1 ‖ k2), `announced` the evolution the verification is asked to use
fn reference(raw: &Raw, key_bytes: &[u8], announced: Option<u64>, dist: &BTreeMap<String, u64>, registered: &[Vec<u8>]) -> rf::Verdict {
    let mut v = rf::Verdict {
        has_opcert: raw.cert.is_some(),
        opcert_signed: false,
        has_kes_sig: raw.kes_sig.is_some(),
        has_announced: announced.is_some(),
        kes_evolution: None,
        pop_valid: true,
        pool_id: None,
        stake: None,
        not_duplicate: !registered.iter().any(|k| k[..] == key_bytes[..96]),
    };
    if let Some(c) = &raw.cert
        && let (Some(cold), Some(kes_vk), Some(sig)) = (arr::<32>(&c.cold_vk), arr::<32>(&c.kes_vk), arr::<64>(&c.cert_sig))
    {
        v.opcert_signed = rf::opcert_signed_by_cold_key(&cold, &kes_vk, c.issue_number, c.start_kes_period, &sig);
        let id = rf::pool_id(&cold);
        v.stake = dist.get(&id).copied();
        v.pool_id = Some(id);
        if let (Some(s), Some(a)) = (&raw.kes_sig, announced) {
            v.kes_evolution = rf::kes_evolution_within_one(&kes_vk, s, key_bytes, a);
        }
    }
    // the pairing check is evaluated only when it decides the verdict, and memoised per thread
    if v.first_failing().is_none() {
        v.pop_valid = pop_valid_memo(key_bytes);
    }
    v
}

fn pop_valid_memo(key_bytes: &[u8]) -> bool {
    use std::cell::RefCell;
    use std::collections::HashMap;
    thread_local! {
        static MEMO: RefCell<HashMap<Vec<u8>, bool>> = RefCell::new(HashMap::new());
    }
    MEMO.with(|m| {
        if let Some(b) = m.borrow().get(key_bytes) {
            return *b;
        }
        let b = rf::pop_valid(&key_bytes[..96], &key_bytes[96..144], &key_bytes[144..]);
        m.borrow_mut().insert(key_bytes.to_vec(), b);
        b
    })
}

fn violation_key(raw: &Raw, key_bytes: &[u8], announced: Option<u64>, failing: &str) -> (String, String) {
    match failing {
        "no-operational-certificate" => ("C07/accepted-without-operational-certificate".into(), String::new()),
        "opcert-not-signed-by-cold-key" => ("C07/accepted-opcert-not-signed-by-cold-key".into(), String::new()),
        "no-kes-signature" => ("C07/accepted-without-kes-signature".into(), String::new()),
        "no-announced-evolution" => ("C07/accepted-without-announced-evolution".into(), String::new()),
        "kes-signature" => {
            let c = raw.cert.as_ref().unwrap();
            let at = rf::kes_all_evolutions(&arr::<32>(&c.kes_vk).unwrap(), raw.kes_sig.as_ref().unwrap(), key_bytes);
            let a = announced.unwrap();
            if at.is_empty() {
                ("C07/accepted-kes-signature-not-over-the-key-by-the-certified-kes-key".into(), String::new())
            } else if at == [rf::SUM6_EVOLUTIONS - 1] && a == rf::SUM6_EVOLUTIONS as u64 + 1 {
                (
                    "C07/kes-window:announced-65-accepts-signature-of-evolution-63".into(),
                    format!("the KES signature verifies at evolution {at:?} only, announced {a}"),
                )
            } else {
                ("C07/accepted-outside-kes-evolution-window".into(), format!("the KES signature verifies at evolution {at:?} only, announced {a}"))
            }
        }
        "invalid-proof-of-possession" => ("C07/accepted-invalid-proof-of-possession".into(), String::new()),
        "pool-not-in-stake-distribution" => ("C07/accepted-pool-not-in-stake-distribution".into(), String::new()),
        "key-already-registered" => ("C07/accepted-key-already-registered".into(), String::new()),
        other => (format!("C07/accepted-{other}"), String::new()),
    }
}

fn dist_map(d: &[(String, u64)]) -> BTreeMap<String, u64> {
    // later entries win, as in a map built from a list
    d.iter().cloned().collect()
}

fn replay_of(case: &Case, index: usize) -> Value {
    json!({"case": case, "index": index})
}

fn judge(
    rep: &mut Report,
    case: &Case,
    idx: usize,
    reg: &Reg,
    key_bytes: &[u8],
    announced: Option<u64>,
    v: &rf::Verdict,
    real: &Real,
    completeness: bool,
) {
    let accepted = matches!(real, Real::Accepted(_));
    // vacuity bookkeeping: label by the first conjunct that fails in the reference
    match (accepted, v.first_failing()) {
        (true, _) => rep.outcome("accepted"),
        (false, Some(f)) => rep.outcome(&format!("rejected:{f}")),
        (false, None) => rep.outcome("rejected-though-reference-holds"),
    }
    match real {
        Real::Rejected(e) => rep.add_extra(&format!("error_kind:{}", classify_error(e)), 1),
        Real::Panicked(_) => rep.add_extra("panics_observed", 1),
        _ => {}
    }
    // non-trivial: decodes, carries a certificate whose signature is genuine (so the verification
    // goes beyond the first gate), or is accepted
    if accepted || v.opcert_signed {
        rep.nontrivial(&(case.route.clone(), &case.dist, &reg.raw, announced, idx));
    }
    if let Real::Accepted(id) = real {
        if let Some(f) = v.first_failing() {
            let (key, detail) = violation_key(&reg.raw, key_bytes, announced, f);
            rep.violation(
                &key,
                format!(
                    "registration accepted (as '{id}') although the reference conjunct '{f}' is false. {detail} [{} / {} / registration #{idx}]",
                    case.family, case.label
                ),
                replay_of(case, idx),
            );
        } else if v.pool_id.as_deref() != Some(id.as_str()) {
            rep.violation(
                "C07/party-id-not-derived-from-cold-key",
                format!("registered as '{id}', the pool id of the cold key is {:?} [{} / {}]", v.pool_id, case.family, case.label),
                replay_of(case, idx),
            );
        }
    } else if completeness && reg.honest && v.holds() {
        let why = match real {
            Real::Rejected(e) => e.clone(),
            Real::Panicked(p) => format!("panic: {p}"),
            _ => unreachable!(),
        };
        rep.violation(
            "C07/honest-registration-rejected",
            format!("an honest registration is rejected: {why} [{} / {}]", case.family, case.label),
            replay_of(case, idx),
        );
    }
    // sanity of the generator/reference pair on the plainly honest cases
    if case.family == "real-signer" && !v.holds() {
        rep.violation(
            "C07/real-signer-registration-fails-the-conjunction",
            format!(
                "the registration produced by the repository's signer-side code does not satisfy the reference conjunct {:?} [{}]",
                v.first_failing(),
                case.label
            ),
            replay_of(case, idx),
        );
    }
    let plainly_honest = matches!(case.family.as_str(), "window" | "splice") || (case.family == "ball" && case.label.ends_with(": honest"));
    if reg.honest && idx == 0 && !v.holds() && plainly_honest {
        rep.machinery_error(format!("reference rejects a registration the generator calls honest ({:?}): {} / {}", v.first_failing(), case.family, case.label));
    }
}

fn run_register(m: &Mat, case: &Case, rep: &mut Report) {
    let dmap = dist_map(&case.dist);
    let mut kr = ProtocolKeyRegistration::init(&case.dist);
    // keys accepted by the real code so far, with what the reference expects to be recorded
    let mut accepted: Vec<(Vec<u8>, Option<u64>)> = vec![];
    for (idx, reg) in case.regs.iter().enumerate() {
        rep.eval();
        let typed = match catch(|| decode(&reg.raw)) {
            Ok(Ok(t)) => t,
            Ok(Err(_)) => {
                rep.outcome("undecodable");
                continue;
            }
            Err(_) => {
                rep.outcome("undecodable");
                rep.add_extra("panics_observed", 1);
                continue;
            }
        };
        let key_bytes = typed.key.to_bytes().to_vec();
        if key_bytes[..] != [&reg.raw.vk[..], &reg.raw.k1[..], &reg.raw.k2[..]].concat()[..] {
            rep.add_extra("noncanonical_key_encodings_decoded", 1);
        }
        let registered: Vec<Vec<u8>> = accepted.iter().map(|(k, _)| k.clone()).collect();
        let v = reference(&reg.raw, &key_bytes, reg.raw.announced, &dmap, &registered);
        let real = register(&mut kr, &typed);
        judge(rep, case, idx, reg, &key_bytes, reg.raw.announced, &v, &real, true);
        if let Real::Accepted(_) = real {
            accepted.push((key_bytes[..96].to_vec(), v.stake));
            observe(m, case, reg, &v, rep);
        }
        const SAMPLED: [&str; 6] = [
            "A signed-at=5 announced=Some(6)",
            "A signed-at=5 announced=Some(7)",
            "t=1 components=00010000 cert_sig=2 kes=2",
            "A@1/operator: k2-of-other",
            "A@1/outsider: party-id-of-1",
            "honest-A ; B-registers-key-of-A",
        ];
        if idx + 1 == case.regs.len() && SAMPLED.contains(&case.label.as_str()) {
            rep.sample(json!({
                "family": case.family,
                "label": case.label,
                "registration": {"announced": reg.raw.announced, "claimed_party_id": reg.raw.party_id, "vk": hex::encode(&reg.raw.vk[..8]) + "…"},
                "real": match &real { Real::Accepted(id) => format!("accepted as {id}"), Real::Rejected(e) => format!("rejected: {}", classify_error(e)), Real::Panicked(_) => "panic".into() },
                "reference_first_failing_conjunct": v.first_failing(),
            }));
        }
    }
    if accepted.is_empty() {
        return;
    }
    // what was recorded
    match catch(|| kr.close(&stm_params())) {
        Ok(Ok(closed)) => {
            let recorded: Vec<(Vec<u8>, u64)> = closed
                .closed_registration_entries
                .iter()
                .map(|e| (e.get_verification_key_for_concatenation().to_bytes().to_vec(), e.get_stake()))
                .collect();
            for (k, expected) in &accepted {
                let Some(expected) = expected else { continue }; // already reported as pool-not-in-distribution
                match recorded.iter().filter(|(rk, _)| rk == k).map(|(_, s)| *s).collect::<Vec<_>>().as_slice() {
                    [s] if s == expected => rep.add_extra("recorded_stakes_checked", 1),
                    [] => rep.violation(
                        "C07/accepted-key-not-recorded",
                        format!("an accepted key is not in the closed registration [{} / {}]", case.family, case.label),
                        replay_of(case, 0),
                    ),
                    other => rep.violation(
                        "C07/recorded-stake-not-from-distribution",
                        format!("stake recorded for the key: {other:?}, the distribution's value for its pool: {expected} [{} / {}]", case.family, case.label),
                        replay_of(case, 0),
                    ),
                }
            }
            if recorded.len() != accepted.len() {
                rep.violation(
                    "C07/recorded-entries-differ-from-accepted",
                    format!("{} entries recorded, {} registrations accepted [{} / {}]", recorded.len(), accepted.len(), case.family, case.label),
                    replay_of(case, 0),
                );
            }
        }
        Ok(Err(e)) => rep.add_extra(&format!("close_failed:{}", if format!("{e:#}").contains("overflow") { "overflow" } else { "zero-or-other" }), 1),
        Err(_) => rep.add_extra("panics_observed", 1),
    }
}

/// observations that are not verdicts
fn observe(m: &Mat, case: &Case, reg: &Reg, v: &rf::Verdict, rep: &mut Report) {
    if case.family == "rogue-key" && reg.raw.vk == m.rogue.vk {
        rep.add_extra("observation:pop_assembled_from_public_values_accepted", 1);
        if POP_FORGERY_IS_VIOLATION {
            rep.violation(
                "C07/pop-not-bound-to-key",
                format!("a key whose secret nobody knows is registered with a proof of possession computed from public values [{}]", case.label),
                replay_of(case, case.regs.len() - 1),
            );
        }
    }
    if case.family == "weak-cold-key" {
        rep.add_extra("observation:neutral_element_cold_key_accepted", 1);
    }
    if case.family == "sequence" && v.holds() {
        rep.add_extra("sequence_registrations_accepted", 1);
    }
}

fn run_verifier(m: &Mat, case: &Case, chain: Option<u64>, rep: &mut Report) {
    let dmap = dist_map(&case.dist);
    let sd: StakeDistribution = dmap.clone();
    let mut records: Vec<SignerWithStake> = vec![];
    let mut keys_seen: Vec<Vec<u8>> = vec![];
    for (idx, reg) in case.regs.iter().enumerate() {
        rep.eval();
        let Ok(Ok(t)) = catch(|| decode(&reg.raw)) else {
            rep.outcome("undecodable");
            continue;
        };
        let key_bytes = t.key.to_bytes().to_vec();
        // the evolution the aggregator verifies against: chain period − start period (its own,
        // saturating, arithmetic is followed here and reported as an observation)
        let announced = reg.raw.cert.as_ref().map(|c| chain.unwrap_or(0).saturating_sub(c.start_kes_period));
        let v = reference(&reg.raw, &key_bytes, announced, &dmap, &[]);
        // the registration travels as a RegisterSignerMessage (with a `stake` the registrant adds)
        let signer = match catch(|| signer_via_wire(&t, 999_999_999)) {
            Ok(Ok(s)) => s,
            other => {
                rep.machinery_error(format!("wire round trip of a decodable registration failed: {:?} [{}]", other.map(|r| r.map(|_| ())), case.label));
                continue;
            }
        };
        if signer.verification_key_for_concatenation.to_bytes()[..] != key_bytes[..] || signer.kes_evolutions != t.announced {
            rep.machinery_error(format!("wire round trip changed the registration [{}]", case.label));
        }
        let res = catch(|| verifier_mirror(&signer, &sd, chain.map(KesPeriod)));
        let real = match &res {
            Ok(Ok(r)) => Real::Accepted(r.party_id.clone()),
            Ok(Err(e)) => Real::Rejected(format!("{e:#}")),
            Err(p) => Real::Panicked(p.clone()),
        };
        judge(rep, case, idx, reg, &key_bytes, announced, &v, &real, true);
        if let Ok(Ok(rec)) = res {
            if let Some(expected) = v.stake
                && rec.stake != expected
            {
                rep.violation(
                    "C07/recorded-stake-not-from-distribution",
                    format!("the record carries stake {}, the distribution's value is {expected} [{} / {}]", rec.stake, case.family, case.label),
                    replay_of(case, idx),
                );
            }
            if let Some(c) = &reg.raw.cert
                && chain.unwrap_or(0) < c.start_kes_period
            {
                rep.add_extra("observation:verifier_accepts_certificate_starting_after_chain_period", 1);
            }
            if reg.raw.announced != announced {
                rep.add_extra("observation:verifier_accepts_and_stores_unverified_message_evolutions", 1);
            }
            if keys_seen.iter().any(|k| k[..] == key_bytes[..96]) {
                rep.add_extra("observation:verifier_accepts_key_already_accepted_for_another_pool", 1);
            }
            keys_seen.push(key_bytes[..96].to_vec());
            // what SignerBuilder::new makes of the stored record
            let alone = catch(|| SignerBuilder::new(&[rec.clone()], &m.params).map(|_| ()));
            match alone {
                Ok(Ok(())) => rep.add_extra("verifier_records_accepted_by_signer_builder", 1),
                Ok(Err(e)) => {
                    rep.add_extra("observation:verifier_record_rejected_by_signer_builder", 1);
                    if !rep.extras.contains_key("observation_example:verifier_record_rejected_by_signer_builder") {
                        rep.extra(
                            "observation_example:verifier_record_rejected_by_signer_builder",
                            json!({"label": case.label, "stored_kes_evolutions": rec.kes_evolutions.map(|k| k.0), "verified_against": announced, "error": classify_error(&format!("{e:#}"))}),
                        );
                    }
                }
                Err(_) => rep.add_extra("panics_observed", 1),
            }
            records.push(rec);
        }
    }
    if records.len() >= 2 {
        match catch(|| SignerBuilder::new(&records, &m.params).map(|_| ())) {
            Ok(Ok(())) => rep.add_extra("verifier_record_sets_accepted_by_signer_builder", 1),
            Ok(Err(e)) => {
                rep.add_extra("observation:verifier_record_set_rejected_by_signer_builder", 1);
                rep.extra("observation_example:verifier_record_set_rejected_by_signer_builder", json!({"label": case.label, "error": classify_error(&format!("{e:#}"))}));
            }
            Err(_) => rep.add_extra("panics_observed", 1),
        }
    }
}

fn run_builder(m: &Mat, case: &Case, rep: &mut Report) {
    rep.eval();
    let mut list: Vec<SignerWithStake> = vec![];
    let mut keys: Vec<Vec<u8>> = vec![];
    for reg in &case.regs {
        let Ok(Ok(t)) = catch(|| decode(&reg.raw)) else {
            rep.outcome("undecodable");
            return;
        };
        keys.push(t.key.to_bytes().to_vec());
        list.push(SignerWithStake {
            party_id: t.party_id.clone().unwrap_or_default(),
            verification_key_for_concatenation: t.key,
            verification_key_signature_for_concatenation: t.kes_sig,
            operational_certificate: t.opcert.clone(),
            kes_evolutions: t.announced,
            stake: reg.claimed_stake.unwrap_or(0),
        });
    }
    // here the stake distribution is what the list itself says
    let list_dist: Vec<(String, u64)> = list.iter().map(|s| (s.party_id.clone(), s.stake)).collect();
    let dmap = dist_map(&list_dist);
    let ambiguous = list_dist.iter().any(|(id, s)| dmap.get(id) != Some(s));
    let mut verdicts = vec![];
    let mut registered: Vec<Vec<u8>> = vec![];
    for (reg, kb) in case.regs.iter().zip(&keys) {
        let v = reference(&reg.raw, kb, reg.raw.announced, &dmap, &registered);
        registered.push(kb[..96].to_vec());
        verdicts.push(v);
    }
    let res = catch(|| SignerBuilder::new(&list, &m.params));
    let all_hold = verdicts.iter().all(|v| v.holds());
    let all_honest = case.regs.iter().all(|r| r.honest);
    if verdicts.iter().any(|v| v.opcert_signed) {
        rep.nontrivial(&("builder", &case.regs));
    }
    match res {
        Ok(Ok(builder)) => {
            rep.outcome("accepted");
            if let Some((idx, v)) = verdicts.iter().enumerate().find(|(_, v)| !v.holds()) {
                let f = v.first_failing().unwrap();
                let (key, detail) = violation_key(&case.regs[idx].raw, &keys[idx], case.regs[idx].raw.announced, f);
                rep.violation(
                    &key,
                    format!("SignerBuilder::new accepts a list whose record #{idx} fails the reference conjunct '{f}'. {detail} [builder / {}]", case.label),
                    replay_of(case, idx),
                );
            } else if !ambiguous {
                // the stake recorded for each key is the list-distribution's value for the pool of its cold key
                let expected_total: u128 = verdicts.iter().map(|v| v.stake.unwrap_or(0) as u128).sum();
                let total = builder.compute_aggregate_verification_key().to_concatenation_aggregate_verification_key().get_total_stake();
                if total as u128 != expected_total {
                    rep.violation(
                        "C07/recorded-stake-not-from-distribution",
                        format!("total stake of the registration is {total}, expected {expected_total} [builder / {}]", case.label),
                        replay_of(case, 0),
                    );
                }
                for (reg, v) in case.regs.iter().zip(&verdicts) {
                    if let Some(seed) = seed_of_key(m, &reg.raw.vk) {
                        let expected = v.stake.unwrap();
                        if !builder_has_entry(m, &builder, seed, expected) {
                            rep.violation(
                                "C07/recorded-stake-not-from-distribution",
                                format!("no entry (key, {expected}) in the registration built from the list [builder / {}]", case.label),
                                replay_of(case, 0),
                            );
                        } else {
                            rep.add_extra("recorded_stakes_checked", 1);
                        }
                    }
                }
            }
        }
        Ok(Err(e)) => {
            let f = verdicts.iter().find_map(|v| v.first_failing());
            match f {
                Some(f) => rep.outcome(&format!("rejected:{f}")),
                None => rep.outcome("rejected-though-reference-holds"),
            }
            if all_hold && all_honest {
                rep.violation(
                    "C07/honest-registration-rejected",
                    format!("SignerBuilder::new rejects a list of honest records: {e:#} [builder / {}]", case.label),
                    replay_of(case, 0),
                );
            }
        }
        Err(_) => {
            rep.outcome("panic");
            rep.add_extra("panics_observed", 1);
        }
    }
}

fn seed_of_key(m: &Mat, vk: &[u8]) -> Option<u8> {
    m.pools.iter().map(|p| &p.bls).chain([&m.fresh]).find(|k| k.vk[..] == vk[..]).map(|k| k.seed)
}

fn run_case(m: &Mat, case: &Case) -> Report {
    let mut rep = Report::new("exploration", "");
    match &case.route {
        Route::Register => run_register(m, case, &mut rep),
        Route::Verifier { chain_kes_period } => run_verifier(m, case, *chain_kes_period, &mut rep),
        Route::Builder => run_builder(m, case, &mut rep),
    }
    rep
}

// ------------------------------------------------------------------------------------------------

pub fn run(ctx: &Ctx) -> ! {
    let mut rep = Report::new(
        "exploration",
        "every registration of the generated space (A/B splices of all components; every single — and within the stated bases \
         every pair of — component deviations from an honest registration, for an outsider and for the pool operator re-signing \
         with its own keys; signing evolution × announced evolution; stake distribution variants; sequences of registrations) is \
         decoded by the real decoders and given to the real ProtocolKeyRegistration::register / the aggregator verifier's call \
         sequence / SignerBuilder::new; a case is non-trivial when its operational certificate is genuinely signed (the \
         verification goes beyond its first gate) or it is accepted; distinct = distinct (route, distribution, registration)",
    );
    if let Err(e) = rf::self_test() {
        rep.machinery_error(e);
        rep.finish(ctx);
    }
    let m = material();

    if let Some(path) = &ctx.replay {
        let v = mc_core::load_replay(path);
        let case: Case = match serde_json::from_value(v["case"].clone()) {
            Ok(c) => c,
            Err(e) => {
                rep.machinery_error(format!("replay file does not hold a case: {e}"));
                rep.finish(ctx);
            }
        };
        rep.merge(run_case(&m, &case));
        rep.nontrivial(&0);
        rep.nontrivial(&1);
        rep.finish(ctx);
    }

    for c in real_signer_cases(ctx, &m, &mut rep) {
        rep.add_extra("cases:real-signer", 1);
        rep.merge(run_case(&m, &c));
    }

    let thorough = ctx.tier.pick(false, true);
    type Job = Box<dyn Fn(&Mat, &mut Vec<Case>) + Sync + Send>;
    let mut jobs: Vec<Job> = vec![];
    // signing evolution × announced evolution
    for p in 0..2usize {
        for t in 0..64u32 {
            jobs.push(Box::new(move |m, out| family_window(m, p, &[t], out)));
        }
    }
    // A/B splices
    let splice_ts: Vec<u32> = if thorough { vec![0, 1, 5, 62, 63] } else { vec![1] };
    for &t in &splice_ts {
        for lo in (0u32..256).step_by(8) {
            jobs.push(Box::new(move |m, out| family_splice(m, t, lo..lo + 8, out)));
        }
    }
    // deviation balls
    let ball_ts: Vec<u32> = vec![0, 1, 5, 62, 63];
    let n_devs = deviations(0, 1).len();
    let mut ball_bounds = vec![];
    for p in 0..2usize {
        for &t in &ball_ts {
            let depth = if thorough || (p == 0 && t == 1) || (p == 1 && t == 63) { 2 } else { 1 };
            ball_bounds.push(json!({"pool": m.pools[p].name, "signed_at": t, "simultaneous_deviations": depth, "single_deviations": deviations(p, t).len()}));
            for operator in [false, true] {
                if !operator {
                    jobs.push(Box::new(move |m, out| family_ball(m, p, t, depth, operator, None, out)));
                }
                for i in 0..deviations(p, t).len() {
                    jobs.push(Box::new(move |m, out| family_ball(m, p, t, depth, operator, Some(i), out)));
                }
            }
        }
    }
    jobs.push(Box::new(family_dist));
    let seq_len = if thorough { 3 } else { 2 };
    jobs.push(Box::new(move |m, out| family_sequence(m, seq_len, out)));
    jobs.push(Box::new(family_weak));
    jobs.push(Box::new(family_rogue));
    for p in 0..2usize {
        for t in [1u32, 62, 63] {
            jobs.push(Box::new(move |m, out| family_verifier(m, p, &[t], out)));
        }
    }
    jobs.push(Box::new(family_verifier_same_key));
    jobs.push(Box::new(family_builder));

    rep.extra(
        "bounds",
        json!({
            "pools": ["A (in distribution)", "B (in distribution)", "C (outsider)"],
            "splice_signing_evolutions": splice_ts,
            "splice_components": "cold key, certificate KES key, issue number, start period, key, k1, k2, claimed party id (2 values each) × certificate signature (4) × KES signature (4)",
            "ball_bases": ball_bounds,
            "single_deviations_per_base": n_devs,
            "window": "signing evolution 0..=63 × announced {0..=70, 2^32-2..2^32+1, 2^63, 2^64-2, 2^64-1, missing} × {A,B}",
            "sequence_length": seq_len,
            "stake_distributions": DISTS,
        }),
    );

    // cases are generated and executed job by job (deterministic order of the merged reports)
    let parts = par_map(&jobs, ctx.threads(), |_, job| {
        let mut cases = vec![];
        job(&m, &mut cases);
        let mut r = Report::new("exploration", "");
        for c in &cases {
            r.add_extra(&format!("cases:{}", c.family), 1);
            r.merge(run_case(&m, c));
        }
        r
    });
    for p in parts {
        rep.merge(p);
    }

    rep.assume(
        "mithril-common is built with its default features: `allow_skip_signer_certification` is off, so a registration without \
         operational certificate must be refused (an acceptance is reported as a violation of the property's first conjunct)",
    );
    rep.assume(
        "the aggregator crate is not linked: the 'verifier' family executes a copy of the call sequence of \
         MithrilSignerRegistrationVerifier::verify (ProtocolKeyRegistration::init on the round's stake distribution, claimed party \
         id \"\" → None, KES evolutions = chain KES period − certificate start period with the repository's saturating \
         subtraction, register, stake looked up by the returned party id, SignerWithStake::from_signer) with the chain observer's \
         answer as a parameter, on a Signer obtained from a JSON RegisterSignerMessage (carrying an extra `stake` member) by the \
         conversions of FromRegisterSignerAdapter; this family gives verdicts on the mithril-common calls only — what the copied \
         sequence itself lets through (announced evolutions kept unverified, a key accepted for two pools) is COUNTED here \
         (observation:verifier_*) and JUDGED on the real aggregator by part 2 (mc-aggregator/src/c07agg.rs: keys \
         C07/aggregator-accepts-unverified-announced-kes-evolution, C07/aggregator-accepts-key-already-registered-by-another-pool[:…])",
    );
    rep.assume(
        "trusted base of the oracle: ed25519-dalek (non-strict `verify`, as RFC 8032 permits), kes-summed-ed25519 at evolutions \
         0..=63 only, blake2, blst pairings; the proof of possession is taken to be valid when e(k1,g2)=e(H_G1(\"PoP\"),vk) and \
         e(g1,vk)=e(k2,g2) hold for decodable points (no subgroup requirement on k1,k2, no binding of the hashed message to the \
         key) — see observation:pop_assembled_from_public_values_accepted",
    );
    rep.assume(
        "the KES message is the canonical encoding (vk ‖ k1 ‖ k2, 192 bytes) of the decoded key; on the SignerBuilder route the \
         stake distribution is the (party id, stake) list of the records themselves, as SignerBuilder::new defines it",
    );
    rep.assume("completeness is demanded only for announced evolution = signing evolution (acceptance at ±1 is counted, not required)");
    rep.finish(ctx)
}
