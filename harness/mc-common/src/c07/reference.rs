//! Reference predicate of C07, written from the wording of the property with the primitive
//! libraries only (ed25519-dalek, kes-summed-ed25519, blake2, blst). Nothing from mithril-* is
//! imported here.
//!
//! A registration is judged on *raw values* (bytes and integers):
//!   1. the operational certificate `(kes_vk, issue_number, start_kes_period, cert_sig)` is signed by
//!      the cold key: Ed25519 signature over `kes_vk ‖ issue_number_be64 ‖ start_kes_period_be64`
//!      (the OCert signable of the Cardano ledger);
//!   2. the verification key bytes are signed by that KES key (Sum6) at an evolution `t` with
//!      `|t − announced| ≤ 1` and `0 ≤ t < 64` (a Sum6 key has exactly the evolutions 0..=63);
//!   3. the proof of possession `(k1, k2)` is valid for the BLS key `vk`:
//!      `e(k1, g2) = e(H_G1("PoP"), vk)` and `e(g1, vk) = e(k2, g2)`;
//!   4. `pool id = bech32("pool", blake2b-224(cold_vk))` is a key of the stake distribution;
//!   5. the BLS key is not among the keys registered before.

use blake2::{Blake2b, Digest, digest::consts::U28};
use ed25519_dalek::{Signature as EdSig, Verifier, VerifyingKey as EdVk};
use kes_summed_ed25519::{PublicKey as KesVk, kes::Sum6KesSig, traits::KesSig};

/// number of evolutions of a Sum6 KES key
pub const SUM6_EVOLUTIONS: u32 = 64;

pub fn opcert_signable(kes_vk: &[u8; 32], issue_number: u64, start_kes_period: u64) -> [u8; 48] {
    let mut m = [0u8; 48];
    m[..32].copy_from_slice(kes_vk);
    m[32..40].copy_from_slice(&issue_number.to_be_bytes());
    m[40..48].copy_from_slice(&start_kes_period.to_be_bytes());
    m
}

pub fn opcert_signed_by_cold_key(cold_vk: &[u8; 32], kes_vk: &[u8; 32], issue: u64, start: u64, cert_sig: &[u8; 64]) -> bool {
    let Ok(vk) = EdVk::from_bytes(cold_vk) else {
        return false;
    };
    vk.verify(&opcert_signable(kes_vk, issue, start), &EdSig::from_bytes(cert_sig)).is_ok()
}

/// does the Sum6 signature verify for `msg` under `kes_vk` at evolution `t` (a real evolution, < 64)?
pub fn kes_verifies_at(kes_vk: &[u8; 32], sig: &[u8], msg: &[u8], t: u32) -> bool {
    if t >= SUM6_EVOLUTIONS {
        return false;
    }
    let (Ok(pk), Ok(s)) = (KesVk::from_bytes(kes_vk), Sum6KesSig::from_bytes(sig)) else {
        return false;
    };
    s.verify(t, &pk, msg).is_ok()
}

/// the evolution within one period of the announced one at which the signature verifies, if any
pub fn kes_evolution_within_one(kes_vk: &[u8; 32], sig: &[u8], msg: &[u8], announced: u64) -> Option<u32> {
    let a = announced as i128;
    for t in [a - 1, a, a + 1] {
        if t >= 0 && t < SUM6_EVOLUTIONS as i128 && kes_verifies_at(kes_vk, sig, msg, t as u32) {
            return Some(t as u32);
        }
    }
    None
}

/// all evolutions (0..64) at which the signature verifies — diagnostics for a failed window check
pub fn kes_all_evolutions(kes_vk: &[u8; 32], sig: &[u8], msg: &[u8]) -> Vec<u32> {
    (0..SUM6_EVOLUTIONS).filter(|t| kes_verifies_at(kes_vk, sig, msg, *t)).collect()
}

/// proof of possession, checked with blst directly (min-sig: keys in G2, k1/k2 in G1)
pub fn pop_valid(vk96: &[u8], k1_48: &[u8], k2_48: &[u8]) -> bool {
    use blst::min_sig::{PublicKey, Signature};
    use blst::{BLST_ERROR, blst_fp12, blst_p1_affine, blst_p2_affine};
    if vk96.len() != 96 || k1_48.len() != 48 || k2_48.len() != 48 {
        return false;
    }
    // the key: a point of the prime-order subgroup of G2, not the identity
    let Ok(pk) = PublicKey::key_validate(vk96) else {
        return false;
    };
    // k1 is a BLS signature of the constant message "PoP" under vk
    let Ok(k1) = Signature::from_bytes(k1_48) else {
        return false;
    };
    if k1.verify(false, b"PoP", &[], &[], &pk, false) != BLST_ERROR::BLST_SUCCESS {
        return false;
    }
    // k2: e(g1, vk) = e(k2, g2)
    unsafe {
        let mut k2 = blst_p1_affine::default();
        if blst::blst_p1_uncompress(&mut k2, k2_48.as_ptr()) != BLST_ERROR::BLST_SUCCESS {
            return false;
        }
        let mut vk = blst_p2_affine::default();
        if blst::blst_p2_uncompress(&mut vk, vk96.as_ptr()) != BLST_ERROR::BLST_SUCCESS {
            return false;
        }
        let g1 = *blst::blst_p1_affine_generator();
        let g2 = *blst::blst_p2_affine_generator();
        let lhs = blst_fp12::miller_loop(&vk, &g1);
        let rhs = blst_fp12::miller_loop(&g2, &k2);
        blst::blst_fp12_finalverify(&lhs, &rhs)
    }
}

pub fn blake2b_224(data: &[u8]) -> [u8; 28] {
    let mut h = Blake2b::<U28>::new();
    h.update(data);
    let mut out = [0u8; 28];
    out.copy_from_slice(&h.finalize());
    out
}

/// BIP-173 bech32 (not bech32m), written out here so that the encoder of the code under test is
/// not used by the oracle
pub fn bech32(hrp: &str, data: &[u8]) -> String {
    const CHARSET: &[u8; 32] = b"qpzry9x8gf2tvdw0s3jn54khce6mua7l";
    fn polymod(values: &[u8]) -> u32 {
        const GEN: [u32; 5] = [0x3b6a57b2, 0x26508e6d, 0x1ea119fa, 0x3d4233dd, 0x2a1462b3];
        let mut chk: u32 = 1;
        for v in values {
            let b = chk >> 25;
            chk = ((chk & 0x1ffffff) << 5) ^ (*v as u32);
            for (i, g) in GEN.iter().enumerate() {
                if (b >> i) & 1 == 1 {
                    chk ^= g;
                }
            }
        }
        chk
    }
    // 8-bit -> 5-bit groups, padded
    let mut five = vec![];
    let (mut acc, mut bits) = (0u32, 0u32);
    for b in data {
        acc = (acc << 8) | *b as u32;
        bits += 8;
        while bits >= 5 {
            bits -= 5;
            five.push(((acc >> bits) & 31) as u8);
        }
    }
    if bits > 0 {
        five.push(((acc << (5 - bits)) & 31) as u8);
    }
    let mut values: Vec<u8> = hrp.bytes().map(|c| c >> 5).collect();
    values.push(0);
    values.extend(hrp.bytes().map(|c| c & 31));
    values.extend(&five);
    values.extend([0u8; 6]);
    let pm = polymod(&values) ^ 1;
    let mut out = String::from(hrp);
    out.push('1');
    for v in &five {
        out.push(CHARSET[*v as usize] as char);
    }
    for i in 0..6 {
        out.push(CHARSET[((pm >> (5 * (5 - i))) & 31) as usize] as char);
    }
    out
}

/// pool identifier of a cold verification key
pub fn pool_id(cold_vk: &[u8; 32]) -> String {
    bech32("pool", &blake2b_224(cold_vk))
}

/// known answer taken from Cardano tooling (cold key generated by ChaCha20 seed 0, see the opcert
/// test vector of the repository): guards the hand-written encoder
pub fn self_test() -> Result<(), String> {
    let hash = hex::decode("d9899c574fd7a710732391706b59e878bfd416214c49d2b3841c5c8b").unwrap();
    let got = bech32("pool", &hash);
    if got != "pool1mxyec46067n3querj9cxkk0g0zlag93pf3ya9vuyr3wgkq2e6t7" {
        return Err(format!("bech32 self test failed: {got}"));
    }
    // BIP-173 vector: hrp "a", empty data
    if bech32("a", &[]) != "a12uel5l" {
        return Err(format!("bech32 BIP-173 vector failed: {}", bech32("a", &[])));
    }
    Ok(())
}

/// the outcome of the reference predicate on one registration
#[derive(Clone, Debug)]
pub struct Verdict {
    pub has_opcert: bool,
    pub opcert_signed: bool,
    pub has_kes_sig: bool,
    pub has_announced: bool,
    /// evolution in the window at which the KES signature verifies
    pub kes_evolution: Option<u32>,
    /// only meaningful when all the other conjuncts hold (not evaluated otherwise)
    pub pop_valid: bool,
    pub pool_id: Option<String>,
    /// the stake distribution's value for the pool
    pub stake: Option<u64>,
    pub not_duplicate: bool,
}

impl Verdict {
    pub fn holds(&self) -> bool {
        self.first_failing().is_none()
    }
    /// conjuncts in a fixed order
    pub fn first_failing(&self) -> Option<&'static str> {
        if !self.has_opcert {
            return Some("no-operational-certificate");
        }
        if !self.opcert_signed {
            return Some("opcert-not-signed-by-cold-key");
        }
        if !self.has_kes_sig {
            return Some("no-kes-signature");
        }
        if !self.has_announced {
            return Some("no-announced-evolution");
        }
        if self.kes_evolution.is_none() {
            return Some("kes-signature");
        }
        if self.stake.is_none() {
            return Some("pool-not-in-stake-distribution");
        }
        if !self.not_duplicate {
            return Some("key-already-registered");
        }
        // evaluated last (and only when everything else holds): it is by far the most expensive
        if !self.pop_valid {
            return Some("invalid-proof-of-possession");
        }
        None
    }
}
