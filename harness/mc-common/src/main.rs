//! mc-common: checks decided on mithril-common's public API.
//!   C04 tamper evidence / wire stability     C06 one aggregate key per registration set
//!   C07 registration needs a genuine key     C17 beacons respect the margin
mod c04;
mod c07;
mod c17;

fn main() {
    let ctx = mc_core::Ctx::from_args();
    mc_core::quiet_panics();
    match ctx.property.as_str() {
        "C04" => c04::run(&ctx),
        "C07" => c07::run(&ctx),
        "C17" => c17::run(&ctx),
        other => {
            eprintln!("mc-common does not serve {other}");
            std::process::exit(2);
        }
    }
}
