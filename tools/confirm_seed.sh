#!/bin/bash
# tools/confirm_seed.sh <seed dir> "<cargo test args for existing tests>" "<cargo test args for the demo>"
# Confirms, in a scratch worktree: (1) existing tests pass with the change, (2) the demo fails with the change,
# (3) the demo passes without it. Writes CONFIRM.log into the seed dir. Exit 0 iff all three hold.
set -u
SEED="$1"; EXISTING="$2"; DEMO="$3"
WT=/tmp/confirm-$$
TGT=/tmp/confirm-tgt-$$
LOG="$SEED/CONFIRM.log"; : > "$LOG"
git -C /repo worktree add -q "$WT" HEAD || exit 3
cd "$WT"
git apply "$SEED/patch.diff" || { echo "patch does not apply" >> "$LOG"; exit 3; }
echo "== (1) existing tests WITH the change: cargo test --offline $EXISTING" >> "$LOG"
CARGO_TARGET_DIR=$TGT cargo test --offline -j 8 $EXISTING 2>&1 | grep -E "^test result|FAILED|failed|error(\[|:)" >> "$LOG"
R1=${PIPESTATUS[0]}
if [ -f "$SEED/demo.diff" ]; then git apply "$SEED/demo.diff" || { echo "demo does not apply" >> "$LOG"; }; fi
echo "== (2) demo WITH the change: cargo test --offline $DEMO (exit must be non-zero)" >> "$LOG"
CARGO_TARGET_DIR=$TGT cargo test --offline -j 8 $DEMO 2>&1 | grep -E "^test result|FAILED|failed|panicked|error(\[|:)" | head -20 >> "$LOG"
R2=${PIPESTATUS[0]}
git apply -R "$SEED/patch.diff"
echo "== (3) demo WITHOUT the change (exit must be zero)" >> "$LOG"
CARGO_TARGET_DIR=$TGT cargo test --offline -j 8 $DEMO 2>&1 | grep -E "^test result|FAILED|failed|panicked|error(\[|:)" | head -20 >> "$LOG"
R3=${PIPESTATUS[0]}
echo "exit codes: existing-with-change=$R1 demo-with-change=$R2 demo-without-change=$R3" >> "$LOG"
cd /; git -C /repo worktree remove --force "$WT"; rm -rf "$TGT"
[ "$R1" = 0 ] && [ "$R2" != 0 ] && [ "$R3" = 0 ]
