#!/usr/bin/env python3
"""prints the builder prompt for one or more properties: agent_prompt.py <crate> <module files> <Cxx> [Cyy…]"""
import json, sys
crate = sys.argv[1]
props = sys.argv[2:]
P = {json.loads(l)["id"]: json.loads(l) for l in open("/verif/properties.jsonl")}
out = []
out.append(f"""You are building part of a model-checking verification harness (Rust) for the Mithril repository checked out at /repo. The harness lives in /verif/harness (a cargo workspace whose crates depend on /repo crates by path, offline). Your task: implement the check(s) for propert{'ies' if len(props)>1 else 'y'} {', '.join(props)} in crate /verif/harness/{crate} (module file(s) {', '.join('src/'+p.lower()+'.rs' for p in props)}; stubs exist and are already wired in src/main.rs and in /verif/check).

READ FIRST, in this order:
1. /verif/harness/GUIDE.md  — conventions and the mc-core API. Follow every rule, especially rule 1 (oracle never stronger than the property: no false alarms), rule 10 (never edit /repo; mutants only in scratch worktrees via VERIF_REPO) and rule 11 (own VERIF_TARGET_DIR while developing).
2. /verif/DESIGN.md §0–§3 and, in §4, the entr{'ies' if len(props)>1 else 'y'} for {', '.join(props)} — the planned seam, space, oracle, bounds and mutants. It is a plan: where the real code differs from what it assumes, follow the code and the property text, and tell me.
3. /verif/harness/mc-common/src/c17.rs — a finished check, as the structural example.
4. The anchored source files of the property in /repo.

The technique is fixed: bounded EXHAUSTIVE enumeration executed on the real code (all elements of an explicitly generated finite space / all histories up to a depth / all interleavings up to a bound). No random sampling, no solver.
""")
for p in props:
    q = P[p]
    out.append(f"""=== PROPERTY {p}: {q['title']} ===
Statement: {q['statement']}
Quantifier: {q['quantifier']['text']}
Why tests cannot settle it: {q['why_tests_cant']}
Anchored files: {', '.join(q['anchors']['files'])}
Mechanisms: {json.dumps(q['anchors']['mechanism'])}
""")
out.append("""STATE OF /repo: HEAD already contains four small 'fix:' commits made by me for defects found earlier: (C01) lottery index == m is now rejected (`index >= params.m`); (C02) repeated copies of a single signature are merged before index selection in the clerk; (C05) the legacy aggregate-signature decoder no longer pre-allocates from the untrusted count; (C18) give_back_resource_pool_item uses the item's generation. `git -C /repo log --oneline -6` shows them. You can obtain the pre-fix behaviour in a scratch worktree with `git revert`/`git checkout <commit>~1 -- <file>` THERE (never in /repo) to demonstrate that your check detects it.

WHAT I NEED BACK (your final message, plain text, complete but compact):
1. What you built: seam (exact functions driven), enumerated space with the measured sizes for quick and thorough, oracle clauses, classifier keys, wall times for quick and thorough after build.
2. The result on the unchanged /repo tree for quick and thorough. If the check reports violations on the real code: for EACH distinct classifier key the smallest failing input, the observed vs expected behaviour, the exact code location responsible, and your judgement: genuine defect of Mithril (explain why the property's text really demands otherwise) or weakness of the check (then fix the check). Do NOT silence a genuine defect and do NOT add it to known_findings.json yourself - I decide between a fix commit and a known finding. Suggest a minimal patch if one is small and safe.
3. Mutants: at least 3-4 realistic property-breaking edits of /repo source (the ones listed in DESIGN.md §4 plus any you find better), each tried in a scratch worktree with VERIF_REPO=... /verif/check <id> quick: for each the diff (short), whether the check reported VIOLATION (it must, on every run), and - for at least one of them - whether the touched crate's own unit tests still pass (`cargo test --offline -p <crate>` inside the worktree with CARGO_TARGET_DIR under /tmp; this is slow, one is enough). Strengthen the check where a realistic mutant escapes.
4. Text for the manifest: a 'level text' (2-4 sentences: what assurance the check gives and why that level fits), a 'level note' (assumptions / trusted base) and a few words naming the technique.
5. Anything in mc-core you needed but did not have, and any gap between DESIGN.md and reality.

HOUSEKEEPING: work only inside /verif/harness/""" + crate + """/ (your module files, extra modules, that crate's Cargo.toml). Do not edit MANIFEST.json, DESIGN.md, known_findings.json, mc-core, /verif/check or other crates. Do not git commit anything. If you add dependencies, they must already be in ~/.cargo/registry (offline) - after editing Cargo.toml, if resolution complains about a yanked/missing crate, restore the lock with `cp /verif/harness/Cargo.lock.full /verif/harness/Cargo.lock` and retry. Remove every scratch worktree (`git -C /repo worktree remove --force <dir>`), every /tmp/mcw/<tag> directory and your VERIF_TARGET_DIR when you are done. The machine has 16 cores shared with other builders: do not use more than 8 threads for long sweeps while developing (VERIF_THREADS=8), but the final check may use ctx.threads(). The shell prints a harmless conda warning on each command; ignore it. Finish by running `/verif/check <id> quick` with the default target dir once to make sure it builds and passes there too (this may wait for a cargo lock; that is fine).""")
print("\n".join(out))
