#!/usr/bin/env python3
"""tools/store_seed.py <source dir> <seed id> <check result text>  — copies a confirmed seeded change into /verif/seeded/<id>/"""
import json, os, shutil, sys
src, sid, result = sys.argv[1], sys.argv[2], sys.argv[3]
dst = os.path.join("/verif/seeded", sid)
os.makedirs(dst, exist_ok=True)
for f in os.listdir(src):
    if f.endswith((".diff", ".md", ".json", ".log", ".rs")) and os.path.getsize(os.path.join(src, f)) < 400_000:
        shutil.copy(os.path.join(src, f), dst)
m = json.load(open(os.path.join(dst, "meta.json")))
m["breaks_property"] = m.get("property")
m["what_i_ran"] = {
    "check": f"tools/try_seed.sh (scratch worktree of /repo HEAD + patch.diff; VERIF_REPO=<worktree> ./check {m.get('property')} quick)",
    "check_result": result,
    "confirmation": "tools/confirm_seed.sh (scratch worktree): existing tests of the touched crate with the change, demo with the change (fails), demo without (passes); see CONFIRM.log",
}
json.dump(m, open(os.path.join(dst, "meta.json"), "w"), indent=1)
print("stored", dst, sorted(os.listdir(dst)))
