#!/bin/bash
# tools/try_seed.sh <seed dir with patch.diff + meta.json> [tier]  -> runs the property's check against a scratch
# worktree of /repo HEAD with the patch applied; prints the check's exit code. Cleans up after itself.
set -u
SEED="$1"; TIER="${2:-quick}"
PROP=$(python3 -c "import json,sys;print(json.load(open('$SEED/meta.json'))['property'])")
WT=/tmp/tryseed-$$-$PROP
git -C /repo worktree add -q "$WT" HEAD || exit 3
if ! git -C "$WT" apply "$SEED/patch.diff"; then echo "PATCH DOES NOT APPLY"; git -C /repo worktree remove --force "$WT"; exit 3; fi
cd /verif
VERIF_SCRATCH_BASE=/tmp/mcw-seed VERIF_REPO="$WT" ./check "$PROP" "$TIER" > "/tmp/tryseed-$PROP.log" 2>&1
CODE=$?
grep -E "VIOLATION|KNOWN-FINDING|^\[$PROP\]|MACHINERY" "/tmp/tryseed-$PROP.log" | cut -c1-260
echo "check exit code: $CODE (log /tmp/tryseed-$PROP.log)"
TAG=$(python3 -c "import hashlib;print(hashlib.sha1('$WT'.encode()).hexdigest()[:10])")
rm -rf "/tmp/mcw-seed/$TAG"
git -C /repo worktree remove --force "$WT"
exit $CODE
