#!/usr/bin/env python3
"""prints the prompt for an independent 'seeded change' agent: seed_prompt.py <Cxx> <worktree> <outdir> [variant hint]"""
import json, sys
pid, wt, out = sys.argv[1], sys.argv[2], sys.argv[3]
hint = sys.argv[4] if len(sys.argv) > 4 else ""
P = {json.loads(l)["id"]: json.loads(l) for l in open("/verif/properties.jsonl")}
q = P[pid]
print(f"""You are given a git worktree of the Mithril repository (input-output-hk/mithril, Rust; Cardano stake-based threshold multi-signatures plus aggregator, signer, client nodes) at {wt}. Work ONLY inside {wt} (source edits) and {out} (your deliverables). Do not read or touch /verif or /repo, and do not look for existing verification harnesses: your work must be independent.

Here is a semantic property that the code base is supposed to satisfy:

TITLE: {q['title']}
STATEMENT: {q['statement']}
QUANTIFIED OVER: {q['quantifier']['text']}
RELEVANT FILES: {', '.join(q['anchors']['files'])}
MECHANISMS: {json.dumps(q['anchors']['mechanism'])}

YOUR TASK: design ONE realistic change to the source code (the kind of regression a developer could plausibly introduce: a refactoring slip, an off-by-one, a reordered pair of statements, a dropped condition, a cache/key mix-up, a wrong comparison ...) that BREAKS this property while (1) the code still compiles, and (2) the existing test suite of every crate you touched still passes unchanged (you must run it: `cd {wt} && CARGO_TARGET_DIR=/tmp/seedtgt-{pid} cargo test --offline -p <crate>` — building is slow on this shared machine, be patient; for mithril-client add `--features rustls,full,unstable`; a test named processor_run_succeeds_even_if_processing_signatures_fails is known to be flaky, ignore it). The change must need something SPECIFIC to manifest — a particular interleaving, a crash or fault at a particular point, a multi-step sequence of operations, an unusual input or boundary value, or two cooperating sites that each look fine alone — not something ordinary use exposes at once (otherwise the existing tests would catch it). {hint}

Then write a DEMONSTRATION: a new test (unit or integration test added in a NEW file or a new #[test] function, or a small program) that FAILS with your change applied and PASSES on the original code. Run it both ways to be sure (use `git stash` / `git stash pop` or `git diff > patch; git checkout .; ...; git apply patch` inside {wt}).

DELIVERABLES in {out}/ (create the directory):
- patch.diff : `git -C {wt} diff` of the SOURCE change only (not the demonstration), applicable with `git apply` on the original tree.
- demo.diff (a patch adding the demonstration test/program; or demo files) and DEMO.md explaining exactly how to run it and what output shows failure with the change / success without.
- meta.json : {{"property": "{pid}", "summary": "<one sentence: what the change is>", "needs_to_manifest": "<what specific input / schedule / crash point / sequence is needed>", "touched_crates": [...], "existing_tests_run": "<exact commands you ran and their pass counts>", "demo_result_with_change": "...", "demo_result_without_change": "..."}}

Keep the source change small (ideally < 15 lines). Do not weaken or edit existing tests. When done, leave the worktree with the SOURCE change REVERTED (clean `git status` except nothing), remove /tmp/seedtgt-{pid}, and reply with a short summary (what the change is, where, what it needs to manifest, test results). The shell prints a harmless conda warning on every command; ignore it. This machine is shared: do not use more than 6 parallel cargo jobs (`-j 6`).""")
